//go:build verif

// Contracts for the postfinance importer (machine-checked by /verif/engine; comment-only file).
package postfinance

// One statement row -> exactly one transaction (property C13, the booking clause): readBookingLine reads
// one CSV record; a record of 7 or 8 fields is a booking row and, unless an error is returned, adds exactly
// ONE directive to the journal builder: a transaction dated with the parsed "Buchungsdatum" column, made of
// one balanced pair of postings between the import account (debited with the parsed amount) and the TBD
// account, in the currency of the statement; any other record ends the booking section and adds nothing.
// The function is quiet: nothing is written to the process's standard output (the journal is printed by
// the caller, and only the journal).
//@ def wfParserPF(p *Parser) bool := p != nil && p.reader != nil && p.registry != nil && wfAccounts(p.registry.accounts) && wfBuilder(p.builder) && validAccount(p.account) && p.currency != nil
//
//@ func parseAmount
//@   modifies nothing
//@   callback NewFromString=0
//@   ensures [C13] @one: result.1 == nil ==> tlen() == old(tlen()) + 1 && result.0 == tres("NewFromString", old(tlen()))
//@   ensures [C13] @which: result.1 == nil ==> (len(gutschrift) > 0 && len(lastschrift) == 0) || (len(gutschrift) == 0 && len(lastschrift) > 0)
//
//@ func (*Parser).readBookingLine
//@   requires wfParserPF(p)
//@   modifies fields(p.reader), p.registry.accounts.index[*], p.builder.days[*], p.builder.min, p.builder.max, fields(p.builder.days[p.builder.min]), elems(p.builder.days[p.builder.min].Prices), elems(p.builder.days[p.builder.min].Openings), elems(p.builder.days[p.builder.min].Transactions), elems(p.builder.days[p.builder.min].Assertions), elems(p.builder.days[p.builder.min].Closings)
//@   panics
//@   quiet
//@   callback Read=0
//@   callback Parse=1
//@   callback parseAmount=2
//@   callback Add=3
//@   ensures wfParserPF(p)
//@   ensures [C13] @none: !result.0 ==> (forall i int :: {tkind(i)} old(tlen()) <= i && i < tlen() ==> tkind(i) != kind("Add"))
//@   ensures [C13] @one: result.0 ==> result.1 == nil && tlen() == old(tlen()) + 4 && tkind(old(tlen()) + 3) == kind("Add")
//@   ensures [C13] @row: result.0 ==> len(tres("Read", old(tlen()))) >= 7 && targ("Parse", 1, old(tlen()) + 1) == tres("Read", old(tlen()))[0]
//@        && targ("parseAmount", 0, old(tlen()) + 2) == tres("Read", old(tlen()))[2] && targ("parseAmount", 1, old(tlen()) + 2) == tres("Read", old(tlen()))[3]
//@   ensures [C13] @booking: result.0 ==> typeIs(targ("Add", 0, old(tlen()) + 3), "*transaction.Transaction")
//@        && dyn(targ("Add", 0, old(tlen()) + 3), "*transaction.Transaction").Date == tres("Parse", old(tlen()) + 1)
//@        && len(dyn(targ("Add", 0, old(tlen()) + 3), "*transaction.Transaction").Postings) == 2
//@        && built(dyn(targ("Add", 0, old(tlen()) + 3), "*transaction.Transaction").Postings[0], dyn(targ("Add", 0, old(tlen()) + 3), "*transaction.Transaction").Postings[1],
//@             posting.Builder{Debit: p.account, Credit: dyn(targ("Add", 0, old(tlen()) + 3), "*transaction.Transaction").Postings[1].Account == p.account ? dyn(targ("Add", 0, old(tlen()) + 3), "*transaction.Transaction").Postings[0].Account : dyn(targ("Add", 0, old(tlen()) + 3), "*transaction.Transaction").Postings[1].Account,
//@                 Commodity: old(p.currency), Quantity: tres("parseAmount", old(tlen()) + 2)})
//@   ensures [C13] @text: result.0 ==> quotable(dyn(targ("Add", 0, old(tlen()) + 3), "*transaction.Transaction").Description)
//
// parse: the currency of every booking is the one the statement's header names ("Währung:" line, looked up
// by its exact text without the ="..." wrapping), CHF only when the header has no such line.
//@ func (*Parser).parse
//@   requires p != nil && p.reader != nil && p.registry != nil && wfAccounts(p.registry.accounts) && wfCommodities(p.registry.commodities)
//@        && p.registry.accounts.index != p.registry.commodities.index && wfBuilder(p.builder) && validAccount(p.account)
//@   modifies p.currency, p.registry.commodities.index[*], fields(p.reader), p.registry.accounts.index[*], p.builder.days[*], p.builder.min, p.builder.max, fields(p.builder.days[p.builder.min]), elems(p.builder.days[p.builder.min].Prices), elems(p.builder.days[p.builder.min].Openings), elems(p.builder.days[p.builder.min].Transactions), elems(p.builder.days[p.builder.min].Assertions), elems(p.builder.days[p.builder.min].Closings)
//@   panics
//@   quiet
//@   callback readKeyValues=0
//@   callback Trim=1
//@   callback Get=2
//@   callback MustGet=2
//@   ensures [C13] @currency: result == nil ==> tlen() >= old(tlen()) + 2 && tkind(old(tlen())) == kind("readKeyValues")
//@        && (("Währung:" in tres("readKeyValues", old(tlen()))) ==> tlen() == old(tlen()) + 3 && targ("Trim", 0, old(tlen()) + 1) == tres("readKeyValues", old(tlen()))["Währung:"]
//@             && targ("Get", 0, old(tlen()) + 2) == tres("Trim", old(tlen()) + 1))
//@        && (!("Währung:" in tres("readKeyValues", old(tlen()))) ==> tlen() == old(tlen()) + 2 && targ("MustGet", 0, old(tlen()) + 1) == "CHF")
//@   loop 1 invariant tlen() == entry(tlen()) && p.reader != nil && wfParserPF(p)
//@   loop 2 invariant tlen() == entry(tlen()) && p.reader != nil
//
//@ func (*Parser).readKeyValues
//@   requires p != nil && p.reader != nil
//@   modifies fields(p.reader)
//@   ensures result.1 == nil ==> result.0 != nil && fresh(result.0)
//@   loop 1 invariant res != nil && fresh(res) && p.reader != nil
//
//@ func (*Parser).readDisclaimer
//@   requires p != nil && p.reader != nil
//@   modifies fields(p.reader)

