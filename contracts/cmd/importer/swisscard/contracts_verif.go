//go:build verif

// Contracts for the swisscard importer (machine-checked by /verif/engine; comment-only file).
package swisscard

// One statement row -> exactly one transaction (property C13, the booking clause): a record whose first
// two columns look like dates is a booking row; unless an error is returned it adds exactly ONE directive to
// the journal builder: a transaction dated with the parsed first column, one balanced pair of postings
// between the import account (credited) and the TBD account, in CHF (looked up by that exact name), over
// the number read from the fourth column (after the replacer removed "CHF" and the thousands separators).
// Other records add nothing. Quiet: nothing is written to the process's standard output.
// Well-formedness assumption of the property (not established by the caller): every record has 11 fields.
//@ def wfParserSC(p *parser) bool := p != nil && p.reader != nil && p.registry != nil && wfAccounts(p.registry.accounts) && wfCommodities(p.registry.commodities)
//@     && p.registry.accounts.index != p.registry.commodities.index && wfBuilder(p.builder) && validAccount(p.account)
//
//@ func (*parser).parseBooking
//@   requires wfParserSC(p) && len(r) >= 2
//@   modifies *
//@   panics
//@   quiet
//@   callback MatchString=0
//@   callback Parse=1
//@   callback Replace=2
//@   callback NewFromString=3
//@   callback Get=4
//@   callback Add=5
//@   ensures wfParserSC(p) && p.reader == old(p.reader) && p.reader.FieldsPerRecord == old(p.reader.FieldsPerRecord)
//@   ensures [C13] @none: !result.0 ==> (forall i int :: {tkind(i)} old(tlen()) <= i && i < tlen() ==> tkind(i) != kind("Add"))
//@   ensures [C13] @one: result.0 ==> result.1 == nil && len(r) == 11 && tlen() == old(tlen()) + 7 && tkind(old(tlen()) + 6) == kind("Add")
//@   ensures [C13] @row: result.0 ==> targ("Parse", 1, old(tlen()) + 2) == r[0] && targ("Replace", 0, old(tlen()) + 3) == r[3]
//@        && targ("NewFromString", 0, old(tlen()) + 4) == tres("Replace", old(tlen()) + 3) && targ("Get", 0, old(tlen()) + 5) == "CHF"
//@   ensures [C13] @booking: result.0 ==> typeIs(targ("Add", 0, old(tlen()) + 6), "*transaction.Transaction")
//@        && dyn(targ("Add", 0, old(tlen()) + 6), "*transaction.Transaction").Date == tres("Parse", old(tlen()) + 2)
//@        && len(dyn(targ("Add", 0, old(tlen()) + 6), "*transaction.Transaction").Postings) == 2
//@        && built(dyn(targ("Add", 0, old(tlen()) + 6), "*transaction.Transaction").Postings[0], dyn(targ("Add", 0, old(tlen()) + 6), "*transaction.Transaction").Postings[1],
//@             posting.Builder{Credit: p.account, Debit: dyn(targ("Add", 0, old(tlen()) + 6), "*transaction.Transaction").Postings[1].Account == p.account ? dyn(targ("Add", 0, old(tlen()) + 6), "*transaction.Transaction").Postings[0].Account : dyn(targ("Add", 0, old(tlen()) + 6), "*transaction.Transaction").Postings[1].Account,
//@                 Commodity: tres("Get", old(tlen()) + 5), Quantity: tres("NewFromString", old(tlen()) + 4)})
//@   ensures [C13] @text: result.0 ==> quotable(dyn(targ("Add", 0, old(tlen()) + 6), "*transaction.Transaction").Description)
//@   loop 1 invariant tlen() == entry(tlen()) && wfParserSC(p) && p.reader == old(p.reader) && p.reader.FieldsPerRecord == old(p.reader.FieldsPerRecord)
//
//@ func (*parser).readLine
//@   requires wfParserSC(p) && p.reader.FieldsPerRecord == 11
//@   modifies *
//@   panics
//@   quiet
//@   callback Read=0
//@   callback parseBooking=1
//@   ensures wfParserSC(p) && p.reader.FieldsPerRecord == 11
//@   ensures [C13] @each: tlen() >= old(tlen()) + 1 && (tres1("Read", old(tlen())) == nil ==> tlen() == old(tlen()) + 2 && targ("parseBooking", 0, old(tlen()) + 1) == tres("Read", old(tlen())))
