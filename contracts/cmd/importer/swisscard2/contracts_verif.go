//go:build verif

// Contracts for the swisscard2 importer (machine-checked by /verif/engine; comment-only file).
package swisscard

// One statement row -> exactly one transaction (property C13, the booking clause): readBooking reads one
// CSV record; if it returns without error it has added exactly ONE directive to the journal builder: a
// transaction dated with the parsed "Transaktionsdatum" column, consisting of one balanced pair of
// postings between the import account (credited) and the TBD account, in the commodity named by the
// "Währung" column, over the parsed "Betrag" column; on an error nothing is added.
// Ghost trace of the calls Read / Parse / MustGet / NewFromString / Add (in that order).
//@ def wfParserSC2(p *parser) bool := p != nil && p.reader != nil && p.reader.FieldsPerRecord == 12 && p.registry != nil && wfAccounts(p.registry.accounts)
//@     && wfCommodities(p.registry.commodities) && p.registry.accounts.index != p.registry.commodities.index && wfBuilder(p.builder) && validAccount(p.account)
//
//@ func (*parser).readBooking
//@   requires wfParserSC2(p)
//@   modifies *
//@   panics
//@   callback Read=0
//@   callback Parse=1
//@   callback MustGet=2
//@   callback NewFromString=3
//@   callback Add=4
//@   ensures wfParserSC2(p)
//@   ensures [C13] @none: result != nil ==> (forall i int :: {tkind(i)} old(tlen()) <= i && i < tlen() ==> tkind(i) != kind("Add"))
//@   ensures [C13] @one: result == nil ==> tlen() == old(tlen()) + 5 && tkind(old(tlen()) + 4) == kind("Add")
//@   ensures [C13] @row: result == nil ==> targ("Parse", 1, old(tlen()) + 1) == tres("Read", old(tlen()))[0]
//@        && targ("MustGet", 0, old(tlen()) + 2) == tres("Read", old(tlen()))[4]
//@        && targ("NewFromString", 0, old(tlen()) + 3) == tres("Read", old(tlen()))[5]
//@   ensures [C13] @booking: result == nil ==> typeIs(targ("Add", 0, old(tlen()) + 4), "*transaction.Transaction")
//@        && dyn(targ("Add", 0, old(tlen()) + 4), "*transaction.Transaction").Date == tres("Parse", old(tlen()) + 1)
//@        && len(dyn(targ("Add", 0, old(tlen()) + 4), "*transaction.Transaction").Postings) == 2
//@        && built(dyn(targ("Add", 0, old(tlen()) + 4), "*transaction.Transaction").Postings[0], dyn(targ("Add", 0, old(tlen()) + 4), "*transaction.Transaction").Postings[1],
//@             posting.Builder{Credit: p.account, Debit: dyn(targ("Add", 0, old(tlen()) + 4), "*transaction.Transaction").Postings[1].Account == p.account ? dyn(targ("Add", 0, old(tlen()) + 4), "*transaction.Transaction").Postings[0].Account : dyn(targ("Add", 0, old(tlen()) + 4), "*transaction.Transaction").Postings[1].Account,
//@                 Commodity: tres("MustGet", old(tlen()) + 2), Quantity: tres("NewFromString", old(tlen()) + 3)})
//@   ensures [C13] @text: result == nil ==> quotable(dyn(targ("Add", 0, old(tlen()) + 4), "*transaction.Transaction").Description)
