//go:build verif

// Contracts for the cumulus importer (machine-checked by /verif/engine; comment-only file).
package cumulus

// One statement row -> exactly one transaction (property C13, the booking clause). This importer collects
// transaction builders in p.transactions and builds them at the end. parseBooking / parseRounding: a row
// that is recognised and parsed appends exactly ONE builder - dated with the parsed first column, one
// balanced pair of postings between the import account (debited) and the TBD account, in CHF (looked up
// by that exact name), over the amount of the row: the "Gutschrift" column, or the NEGATED "Belastung"
// column; every earlier builder is kept; a row that is not recognised or fails appends nothing. An FX
// comment row only extends the description of the last builder. Quiet: nothing is written to the
// process's standard output.
//@ def wfParserCU(p *parser) bool := p != nil && p.registry != nil && wfAccounts(p.registry.accounts) && wfCommodities(p.registry.commodities)
//@     && p.registry.accounts.index != p.registry.commodities.index && validAccount(p.account)
//
//@ func parseDecimal
//@   modifies nothing
//@   callback ReplaceAll=0
//@   callback NewFromString=1
//@   ensures [C13] tlen() == old(tlen()) + 2 && targ("ReplaceAll", 0, old(tlen())) == s && targ("ReplaceAll", 1, old(tlen())) == "'" && targ("ReplaceAll", 2, old(tlen())) == ""
//@        && targ("NewFromString", 0, old(tlen()) + 1) == tres("ReplaceAll", old(tlen())) && result.0 == tres("NewFromString", old(tlen()) + 1)
//
// parseAmount(belastung, gutschrift): exactly one of the two is filled; a debit ("Belastung") counts
// negative, a credit ("Gutschrift") positive.
//@ func parseAmount
//@   modifies nothing
//@   callback parseDecimal=0
//@   ensures [C13] @one: result.1 == nil ==> tlen() == old(tlen()) + 1 && ((len(creditField) > 0 && len(debitField) == 0) || (len(creditField) == 0 && len(debitField) > 0))
//@   ensures [C13] @debit: result.1 == nil && len(creditField) > 0 ==> targ("parseDecimal", 0, old(tlen())) == creditField && result.0 == 0.0 - tres("parseDecimal", old(tlen()))
//@   ensures [C13] @credit: result.1 == nil && len(creditField) == 0 ==> targ("parseDecimal", 0, old(tlen())) == debitField && result.0 == tres("parseDecimal", old(tlen()))
//
//@ def rowBuilder(b transaction.Builder, p *parser, d time.Time, q real, c *commodity.Commodity) bool := b.Date == d && len(b.Postings) == 2
//@     && built(b.Postings[0], b.Postings[1], posting.Builder{Debit: p.account, Credit: (b.Postings[1].Account == p.account ? b.Postings[0].Account : b.Postings[1].Account), Commodity: c, Quantity: q})
//
//@ func (*parser).parseBooking
//@   requires wfParserCU(p) && len(r) >= 2
//@   modifies p.transactions, p.transactions[*], p.registry.accounts.index[*], p.registry.commodities.index[*]
//@   panics
//@   quiet
//@   callback Parse=0
//@   callback parseAmount=1
//@   callback Get=2
//@   ensures wfParserCU(p)
//@   ensures [C13] @kept: len(p.transactions) >= old(len(p.transactions)) && (forall i int :: {p.transactions[i]} 0 <= i && i < old(len(p.transactions)) ==> p.transactions[i] == old(p.transactions[i]))
//@   ensures [C13] @none: !result.0 ==> len(p.transactions) == old(len(p.transactions))
//@   ensures [C13] @one: result.0 ==> result.1 == nil && len(r) == 5 && len(p.transactions) == old(len(p.transactions)) + 1 && tlen() == old(tlen()) + 3
//@        && targ("Parse", 1, old(tlen())) == r[0] && targ("parseAmount", 0, old(tlen()) + 1) == r[4] && targ("parseAmount", 1, old(tlen()) + 1) == r[3] && targ("Get", 0, old(tlen()) + 2) == "CHF"
//@        && rowBuilder(p.transactions[len(p.transactions) - 1], p, tres("Parse", old(tlen())), tres("parseAmount", old(tlen()) + 1), tres("Get", old(tlen()) + 2))
//@        && p.transactions[len(p.transactions) - 1].Description == r[2]
//@   ensures [C13] @text: result.0 ==> quotable(p.transactions[len(p.transactions) - 1].Description)
//
//@ func (*parser).parseRounding
//@   requires wfParserCU(p) && len(r) >= 2
//@   modifies p.transactions, p.transactions[*], p.registry.accounts.index[*], p.registry.commodities.index[*]
//@   panics
//@   quiet
//@   callback Parse=0
//@   callback parseAmount=1
//@   callback Get=2
//@   ensures wfParserCU(p)
//@   ensures [C13] @kept: len(p.transactions) >= old(len(p.transactions)) && (forall i int :: {p.transactions[i]} 0 <= i && i < old(len(p.transactions)) ==> p.transactions[i] == old(p.transactions[i]))
//@   ensures [C13] @none: !result.0 ==> len(p.transactions) == old(len(p.transactions))
//@   ensures [C13] @one: result.0 ==> result.1 == nil && len(r) == 4 && len(p.transactions) == old(len(p.transactions)) + 1 && tlen() == old(tlen()) + 3
//@        && targ("Parse", 1, old(tlen())) == r[0] && targ("parseAmount", 0, old(tlen()) + 1) == r[3] && targ("parseAmount", 1, old(tlen()) + 1) == r[2] && targ("Get", 0, old(tlen()) + 2) == "CHF"
//@        && rowBuilder(p.transactions[len(p.transactions) - 1], p, tres("Parse", old(tlen())), tres("parseAmount", old(tlen()) + 1), tres("Get", old(tlen()) + 2))
