//go:build verif

// Contracts for the supercard importer (machine-checked by /verif/engine; comment-only file).
package supercard

// One statement row -> exactly one transaction (property C13, the booking clause): parseBooking turns a
// record of 13 fields into exactly ONE directive of the journal builder: a transaction dated with the
// parsed "Einkaufsdatum" column, one balanced pair of postings between the import account (debited) and
// the TBD account, in the commodity named by the "Währung" column, over the "Gutschrift" column when it is
// filled, otherwise over the NEGATED "Belastung" column; on an error nothing is added. Quiet: nothing is
// written to the process's standard output.
//@ def wfParserSU(p *parser) bool := p != nil && p.reader != nil && p.registry != nil && wfAccounts(p.registry.accounts) && wfCommodities(p.registry.commodities)
//@     && p.registry.accounts.index != p.registry.commodities.index && wfBuilder(p.builder) && validAccount(p.account)
//
//@ func (*parser).parseDate
//@   requires len(r) == 13
//@   modifies nothing
//@   callback Parse=0
//@   ensures [C13] tlen() == old(tlen()) + 1 && targ("Parse", 1, old(tlen())) == r[3] && result.0 == tres("Parse", old(tlen()))
//
//@ func (*parser).parseAmount
//@   requires len(r) == 13
//@   modifies nothing
//@   ensures [C13] @credit: result.1 == nil && len(r[11]) > 0 ==> result.0 == decOf(r[11])
//@   ensures [C13] @debit: result.1 == nil && len(r[11]) == 0 ==> len(r[10]) > 0 && result.0 == 0.0 - decOf(r[10])
//
//@ func (*parser).parseBooking
//@   requires wfParserSU(p) && len(r) == 13
//@   modifies *
//@   panics
//@   quiet
//@   callback parseDate=0
//@   callback parseAmount=1
//@   callback Get=2
//@   callback Add=3
//@   ensures wfParserSU(p)
//@   ensures [C13] @none: result != nil ==> (forall i int :: {tkind(i)} old(tlen()) <= i && i < tlen() ==> tkind(i) != kind("Add"))
//@   ensures [C13] @one: result == nil ==> tlen() == old(tlen()) + 4 && tkind(old(tlen()) + 3) == kind("Add")
//@   ensures [C13] @row: result == nil ==> targ("parseDate", 0, old(tlen())) == r && targ("parseAmount", 0, old(tlen()) + 1) == r && targ("Get", 0, old(tlen()) + 2) == r[9]
//@   ensures [C13] @booking: result == nil ==> typeIs(targ("Add", 0, old(tlen()) + 3), "*transaction.Transaction")
//@        && dyn(targ("Add", 0, old(tlen()) + 3), "*transaction.Transaction").Date == tres("parseDate", old(tlen()))
//@        && len(dyn(targ("Add", 0, old(tlen()) + 3), "*transaction.Transaction").Postings) == 2
//@        && built(dyn(targ("Add", 0, old(tlen()) + 3), "*transaction.Transaction").Postings[0], dyn(targ("Add", 0, old(tlen()) + 3), "*transaction.Transaction").Postings[1],
//@             posting.Builder{Debit: p.account, Credit: dyn(targ("Add", 0, old(tlen()) + 3), "*transaction.Transaction").Postings[1].Account == p.account ? dyn(targ("Add", 0, old(tlen()) + 3), "*transaction.Transaction").Postings[0].Account : dyn(targ("Add", 0, old(tlen()) + 3), "*transaction.Transaction").Postings[1].Account,
//@                 Commodity: tres("Get", old(tlen()) + 2), Quantity: tres("parseAmount", old(tlen()) + 1)})
//@   ensures [C13] @text: result == nil ==> quotable(dyn(targ("Add", 0, old(tlen()) + 3), "*transaction.Transaction").Description)
