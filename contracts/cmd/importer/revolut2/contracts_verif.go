//go:build verif

// Contracts for the revolut2 importer (machine-checked by /verif/engine; comment-only file).
package revolut2

// addBalances (properties C06 and C13): the balance assertions collected per (date, commodity) are handed to
// the journal builder in an order that is a function of their CONTENT - ascending by date, then by commodity
// name - because assertions of one day are printed in the order in which they were added (journal.Print
// sorts transactions only): an order taken from the iteration over the map would make the output of the
// importer differ between two runs over the same statement.
//@ def balKeyLE(d1 time.Time, c1 *commodity.Commodity, d2 time.Time, c2 *commodity.Commodity) bool := d1 < d2 || (d1 == d2 && c1.name <= c2.name)
//@ def asrtOK(d model.Directive) bool := typeIs(d, "*assertion.Assertion") && dyn(d, "*assertion.Assertion") != nil && len(dyn(d, "*assertion.Assertion").Balances) == 1
//@     && dyn(d, "*assertion.Assertion").Balances[0].Commodity != nil
//@ def asrtLE(d1 model.Directive, d2 model.Directive) bool := balKeyLE(dyn(d1, "*assertion.Assertion").Date, dyn(d1, "*assertion.Assertion").Balances[0].Commodity,
//@     dyn(d2, "*assertion.Assertion").Date, dyn(d2, "*assertion.Assertion").Balances[0].Commodity)
//
//@ func (*parser).addBalances
//@   requires p != nil && wfBuilder(p.builder) && (forall k amounts.Key :: {key(p.balance, k)} (k in p.balance) ==> k.Commodity != nil)
//@   modifies *
//@   callback Add=0
//@   ensures [C06] [C13] @each: forall i int :: {targ("Add", 0, i)} old(tlen()) <= i && i < tlen() ==> asrtOK(targ("Add", 0, i))
//@   ensures [C06] [C13] @ordered: forall i int :: {targ("Add", 0, i)} old(tlen()) <= i && i + 1 < tlen() ==> asrtLE(targ("Add", 0, i), targ("Add", 0, i + 1))
//@   loop 1 invariant wfBuilder(p.builder) && tlen() >= entry(tlen())
//@   loop 1 invariant [C06] [C13] @each: forall i int :: {targ("Add", 0, i)} entry(tlen()) <= i && i < tlen() ==> asrtOK(targ("Add", 0, i))
//@   loop 1 invariant [C06] [C13] @ordered: forall i int :: {targ("Add", 0, i)} entry(tlen()) <= i && i + 1 < tlen() ==> asrtLE(targ("Add", 0, i), targ("Add", 0, i + 1))
