//go:build verif

// Contracts for the revolut2 importer (machine-checked by /verif/engine; comment-only file).
package revolut2

// addBalances (properties C06 and C13): the balance assertions collected per (date, commodity) are handed to
// the journal builder in an order that is a function of their CONTENT - ascending by date, then by commodity
// name - because assertions of one day are printed in the order in which they were added (journal.Print
// sorts transactions only): an order taken from the iteration over the map would make the output of the
// importer differ between two runs over the same statement.
//@ def balKeyLE(d1 time.Time, c1 *commodity.Commodity, d2 time.Time, c2 *commodity.Commodity) bool := d1 < d2 || (d1 == d2 && c1.name <= c2.name)
//@ def asrtOK(d model.Directive) bool := typeIs(d, "*assertion.Assertion") && dyn(d, "*assertion.Assertion") != nil && len(dyn(d, "*assertion.Assertion").Balances) == 1
//@     && dyn(d, "*assertion.Assertion").Balances[0].Commodity != nil
//@ def asrtLE(d1 model.Directive, d2 model.Directive) bool := balKeyLE(dyn(d1, "*assertion.Assertion").Date, dyn(d1, "*assertion.Assertion").Balances[0].Commodity,
//@     dyn(d2, "*assertion.Assertion").Date, dyn(d2, "*assertion.Assertion").Balances[0].Commodity)
//
// compareBalanceKeys: by date, then by commodity name (the order of commodity.Compare).
//@ func compareBalanceKeys
//@   requires k1.Commodity != nil && k2.Commodity != nil
//@   modifies nothing
//@   ensures [C06] [C13] @lex: result == (k1.Date < k2.Date ? 0 - 1 : (k1.Date > k2.Date ? 1 : comCmp(k1.Commodity, k2.Commodity)))
//
// balanceKeys: the keys of the collected balances, each one a key of the map; that compare.Sort (sort.Slice)
// leaves them ordered by the comparator is the trusted contract of the standard library.
//@ func (*parser).balanceKeys
//@   requires p != nil
//@   modifies nothing
//@   ensures fresh(result)
//@   ensures @sorted: forall i int, j int :: {result[i], result[j]} 0 <= i && i < j && j < len(result) ==> balKeyLE(result[i].Date, result[i].Commodity, result[j].Date, result[j].Commodity)
//@   ensures @keys: forall i int :: {result[i]} 0 <= i && i < len(result) ==> (result[i] in p.balance)
//
//@ func (*parser).addBalances
//@   requires p != nil && wfBuilder(p.builder) && (forall k amounts.Key :: {key(p.balance, k)} (k in p.balance) ==> k.Commodity != nil)
//@   modifies *
//@   callback balanceKeys=0
//@   callback Add=1
//@   ensures [C06] [C13] @count: tlen() == old(tlen()) + 1 + len(tres("balanceKeys", old(tlen())))
//@   ensures [C06] [C13] @each: forall i int :: {targ("Add", 0, i)} old(tlen()) + 1 <= i && i < tlen() ==> asrtOK(targ("Add", 0, i))
//@   ensures [C06] [C13] @ordered: forall i int :: {targ("Add", 0, i)} old(tlen()) + 1 <= i && i + 1 < tlen() ==> asrtLE(targ("Add", 0, i), targ("Add", 0, i + 1))
//@   loop 1 invariant wfBuilder(p.builder) && tlen() == entry(tlen()) + $i && 0 <= $i && $i <= len($range) && $range == tres("balanceKeys", entry(tlen()) - 1)
//@   loop 1 invariant forall k int :: {$range[k]} 0 <= k && k < len($range) ==> $range[k].Commodity != nil
//@   loop 1 invariant forall i int, j int :: {$range[i], $range[j]} 0 <= i && i < j && j < len($range) ==> balKeyLE($range[i].Date, $range[i].Commodity, $range[j].Date, $range[j].Commodity)
//@   loop 1 invariant [C06] [C13] @each: forall i int :: {targ("Add", 0, i)} entry(tlen()) <= i && i < tlen() ==> asrtOK(targ("Add", 0, i))
//@   loop 1 invariant [C06] [C13] @date: forall i int :: {targ("Add", 0, i)} entry(tlen()) <= i && i < tlen() ==> dyn(targ("Add", 0, i), "*assertion.Assertion").Date == $range[i - entry(tlen())].Date
//@   loop 1 invariant [C06] [C13] @com: forall i int :: {targ("Add", 0, i)} entry(tlen()) <= i && i < tlen() ==> dyn(targ("Add", 0, i), "*assertion.Assertion").Balances[0].Commodity == $range[i - entry(tlen())].Commodity
//@   loop 1 invariant forall i int :: {targ("Add", 0, i)} entry(tlen()) <= i && i < tlen() ==> live(dyn(targ("Add", 0, i), "*assertion.Assertion")) && live(dyn(targ("Add", 0, i), "*assertion.Assertion").Balances)
//
// One statement row -> exactly one transaction (property C13, the booking clause): a completed row (non-empty
// "Completed Date") adds exactly ONE directive: a transaction dated with the first ten characters of that
// column, whose first pair of postings books the parsed "Amount" column on the import account (debited) against
// the TBD account in the commodity named by the "Currency" column; a non-zero "Fee" adds a second pair between
// the import account and the fee account; the parsed "Balance" column of the row is remembered under (date,
// commodity) - also when it is zero. A pending row (empty completed date) adds nothing. Quiet.
// Well-formedness of the statement (a hypothesis of the property, assumed about what csv.Reader.Read delivers
// and listed in the evidence): a completed date, when present, has at least the ten characters of a date -
// the code slices it with [:10] before any check.
//@ def wfParserR2(p *parser) bool := p != nil && p.reader != nil && p.reader.FieldsPerRecord == 10 && p.registry != nil && wfAccounts(p.registry.accounts)
//@     && wfCommodities(p.registry.commodities) && p.registry.accounts.index != p.registry.commodities.index && wfBuilder(p.builder) && validAccount(p.account) && validAccount(p.feeAccount)
//@     && p.balance != nil
//
//@ func (*parser).parseBooking
//@   requires wfParserR2(p)
//@   modifies *
//@   panics
//@   quiet
//@   input Read: result.1 == nil ==> len(result.0) == 10 && (len(result.0[3]) == 0 || len(result.0[3]) >= 10)
//@   callback Read=0
//@   callback Parse=0
//@   callback Get=0
//@   callback NewFromString=0
//@   callback Add=0
//@   ensures [C13] @pending: result == nil && tlen() != old(tlen()) + 7 ==> tlen() == old(tlen()) + 1
//@   ensures [C13] @row: result == nil && tlen() == old(tlen()) + 7 ==> tkind(old(tlen()) + 5) == kind("Add")
//@        && targ("Get", 0, old(tlen()) + 2) == tres("Read", old(tlen()))[7] && targ("NewFromString", 0, old(tlen()) + 3) == tres("Read", old(tlen()))[5]
//@        && targ("NewFromString", 0, old(tlen()) + 4) == tres("Read", old(tlen()))[6] && targ("NewFromString", 0, old(tlen()) + 6) == tres("Read", old(tlen()))[9]
//@   ensures [C13] @booking: result == nil && tlen() == old(tlen()) + 7 ==> typeIs(targ("Add", 0, old(tlen()) + 5), "*transaction.Transaction")
//@        && dyn(targ("Add", 0, old(tlen()) + 5), "*transaction.Transaction").Date == tres("Parse", old(tlen()) + 1)
//@        && len(dyn(targ("Add", 0, old(tlen()) + 5), "*transaction.Transaction").Postings) == (tres("NewFromString", old(tlen()) + 4) == 0.0 ? 2 : 4)
//@        && built(dyn(targ("Add", 0, old(tlen()) + 5), "*transaction.Transaction").Postings[0], dyn(targ("Add", 0, old(tlen()) + 5), "*transaction.Transaction").Postings[1],
//@             posting.Builder{Debit: p.account, Credit: dyn(targ("Add", 0, old(tlen()) + 5), "*transaction.Transaction").Postings[1].Account == p.account ? dyn(targ("Add", 0, old(tlen()) + 5), "*transaction.Transaction").Postings[0].Account : dyn(targ("Add", 0, old(tlen()) + 5), "*transaction.Transaction").Postings[1].Account,
//@                 Commodity: tres("Get", old(tlen()) + 2), Quantity: tres("NewFromString", old(tlen()) + 3)})
//@   ensures [C13] @balance: result == nil && tlen() == old(tlen()) + 7 ==> (amounts.Key{Date: tres("Parse", old(tlen()) + 1), Commodity: tres("Get", old(tlen()) + 2)} in p.balance)
//@        && p.balance[amounts.Key{Date: tres("Parse", old(tlen()) + 1), Commodity: tres("Get", old(tlen()) + 2)}] == tres("NewFromString", old(tlen()) + 6)
//@   ensures [C13] @text: result == nil && tlen() == old(tlen()) + 7 ==> quotable(dyn(targ("Add", 0, old(tlen()) + 5), "*transaction.Transaction").Description)
