//go:build verif

// Contracts for package commands (machine-checked by /verif/engine; comment-only file).
package commands

// formatFile: parse first; render the complete result into a memory buffer; only when both succeeded
// hand that buffer to atomic.WriteFile for the same path - exactly once. A parse error or a formatting
// error returns the error without any write to the target (C08: a file that does not parse is left as
// it was; C18: the only write is the atomic replacement with the fully rendered text).
//@ func (formatRunner).formatFile
//@   requires target != nil
//@   modifies *
//@   callback ParseFile=0
//@   callback FormatFile=1
//@   callback WriteFile=2
//@   ensures [C08] [C18] @parse: tlen() >= old(tlen()) + 1 && targ("ParseFile", 0, old(tlen())) == old(*target)
//@   ensures [C08] [C18] @parsefail: tres1("ParseFile", old(tlen())) != nil ==> tlen() == old(tlen()) + 1 && result != nil
//@   ensures [C08] [C18] @formatfail: tres1("ParseFile", old(tlen())) == nil && tres("FormatFile", old(tlen()) + 1) != nil ==> tlen() == old(tlen()) + 2 && result != nil
//@   ensures [C08] [C18] @write: tres1("ParseFile", old(tlen())) == nil ==> tlen() >= old(tlen()) + 2 && targ("FormatFile", 1, old(tlen()) + 1) == tres("ParseFile", old(tlen()))
//@        && (tres("FormatFile", old(tlen()) + 1) == nil ==> tlen() == old(tlen()) + 3 && targ("WriteFile", 0, old(tlen()) + 2) == old(*target)
//@            && targ("WriteFile", 1, old(tlen()) + 2) == targ("FormatFile", 0, old(tlen()) + 1) && result == tres("WriteFile", old(tlen()) + 2))
//
// execute (format): every argument is handed to the per-file worker (iter.Map visits all of them,
// trusted) and the per-file errors are combined - no file is skipped because another one failed.
//@ func (formatRunner).execute
//@   modifies *
//@   callback Map=0
//@   callback Combine=1
//@   ensures [C18] @all: tlen() == old(tlen()) + 2 && targ("Map", 0, old(tlen())) == args && result == tres("Combine", old(tlen()) + 1)
//
// train runs the concurrent loader (outside the verified subset); parseAndInfer applies Model.Infer
// (verified: bookings stay printable, only placeholder accounts change) to every transaction of the
// parsed file. That the bookings of different directives do not share memory - needed to lift
// "printable" from one transaction to the whole file - is not expressed by the parser's contract, so
// train is trusted and, in parseAndInfer, "the file stays printable" is an ASSUMED loop invariant and an
// assumed postcondition (the parser does prove that the booking arrays of different transactions are
// distinct, fresh allocations - ownBookings/apartBookings - but lifting prFile over the loop exceeds the
// solvers' time limit); what is verified there: the target is parsed exactly once, a parse failure is
// returned (never swallowed), the file handed on is the parsed one, and nothing that existed before the
// call is written (frame).
//@ func (inferRunner).train
//@   trusted
//@   modifies nothing
//@   ensures result.1 == nil ==> result.0 != nil && result.0.countByAccount != nil
//
//@ func (*inferRunner).parseAndInfer
//@   requires model != nil && model.countByAccount != nil
//@   modifies nothing
//@   callback ParseFile=0
//@   ensures [C18] [C15] @parsed: tlen() == old(tlen()) + 1 && targ("ParseFile", 0, old(tlen())) == targetFile
//@   ensures [C18] [C15] @fail: tres1("ParseFile", old(tlen())) != nil ==> result.1 != nil
//@   ensures [C18] [C15] @same: result.1 == nil ==> result.0.Range == tres("ParseFile", old(tlen())).Range && result.0.Directives == tres("ParseFile", old(tlen())).Directives
//@   ensures [trusted] result.1 == nil ==> prFile(result.0)
//@   loop 1 invariant [trusted] prFile(f)
//@   loop 1 invariant tlen() == entry(tlen()) && ownBookings(f) && fresh(f.Directives)
//@   loop 1 invariant oldElemsKept(dyn(f.Directives[0].Directive, "directives.Transaction").Bookings)
//
// execute (infer): train, then parse and infer, then render; with --inplace the complete rendering goes
// into a memory buffer first and only a successful rendering is handed to atomic.WriteFile for the
// target path - exactly once; any earlier failure returns without touching the target.
//@ func (*inferRunner).execute
//@   requires r != nil && cmd != nil && len(args) >= 1
//@   modifies *
//@   callback train=0
//@   callback parseAndInfer=1
//@   callback FormatFile=2
//@   callback WriteFile=3
//@   ensures [C18] [C15] @trainfail: tlen() >= old(tlen()) + 1 && (tres1("train", old(tlen())) != nil ==> tlen() == old(tlen()) + 1 && result != nil)
//@   ensures [C18] [C15] @parsefail: tres1("train", old(tlen())) == nil ==> tlen() >= old(tlen()) + 2 && targ("parseAndInfer", 2, old(tlen()) + 1) == old(args[0])
//@        && (tres1("parseAndInfer", old(tlen()) + 1) != nil ==> tlen() == old(tlen()) + 2 && result != nil)
//@   ensures [C18] [C15] @render: tres1("train", old(tlen())) == nil && tres1("parseAndInfer", old(tlen()) + 1) == nil ==> tlen() >= old(tlen()) + 3
//@        && targ("FormatFile", 1, old(tlen()) + 2) == tres("parseAndInfer", old(tlen()) + 1)
//@   ensures [C18] @inplace: old(r.inplace) && tres1("train", old(tlen())) == nil && tres1("parseAndInfer", old(tlen()) + 1) == nil ==>
//@        (tres("FormatFile", old(tlen()) + 2) != nil ==> tlen() == old(tlen()) + 3 && result != nil)
//@        && (tres("FormatFile", old(tlen()) + 2) == nil ==> tlen() == old(tlen()) + 4 && targ("WriteFile", 0, old(tlen()) + 3) == old(args[0])
//@            && targ("WriteFile", 1, old(tlen()) + 3) == targ("FormatFile", 0, old(tlen()) + 2) && result == tres("WriteFile", old(tlen()) + 3))
//@   ensures [C18] @stdout: !old(r.inplace) && tres1("train", old(tlen())) == nil && tres1("parseAndInfer", old(tlen()) + 1) == nil ==> tlen() == old(tlen()) + 3
//
// execute (transcode): the journal is written by exactly one Transcode call, only after loading and the
// processor pipeline succeeded, and never with a missing valuation commodity.
//@ func (*transcodeRunner).execute
//@   requires r != nil && cmd != nil && len(args) >= 1
//@   modifies *
//@   callback FromPath=0
//@   callback Process=1
//@   callback Transcode=2
//@   ensures [C14] [C16] @once: tlen() <= old(tlen()) + 3 && (result == nil ==> tlen() == old(tlen()) + 3 && tres1("FromPath", old(tlen())) == nil && tres("Process", old(tlen()) + 1) == nil)
//
// execute (balance): the report pipeline is assembled in the order check -> prices -> valuate ->
// filter(window) -> close(periods) -> query(report) and handed to Process in exactly that order (the
// check stage sees the journal as written, before valuation adds its own bookings), and the report that
// the query stage fills is the one that is rendered - only after the pipeline succeeded.
// @diffwindow (C02, "with --diff a cell shows only the change inside its period"): the window stage lets every
// booking of the partition's span through and Align attributes the bookings before the first reported period
// to the first column - which is what the cumulative report needs; with --diff nothing dated before the first
// reported period may enter the report, i.e. the span handed to the window stage must start where the first
// reported period starts (with --last n it did not: repaired, the partition is cut with Reported()).
//@ func (balanceRunner).execute
//@   requires cmd != nil && len(args) >= 1
//@   modifies *
//@   callback Reported=0
//@   callback Check=0
//@   callback ComputePrices=0
//@   callback Valuate=0
//@   callback Filter=0
//@   callback CloseAccounts=0
//@   callback Into=0
//@   callback Process=1
//@   callback Render=2
//@   ensures [C02] [C01] [C04] @count: result == nil ==> tlen() == old(tlen()) + 8 + (r.diff ? 1 : 0)
//@   ensures [C02] [C01] [C04] @order: result == nil ==> tkind(old(tlen()) + (r.diff ? 1 : 0)) == kind("Check") && tkind(old(tlen()) + (r.diff ? 1 : 0) + 1) == kind("ComputePrices") && tkind(old(tlen()) + (r.diff ? 1 : 0) + 2) == kind("Valuate")
//@        && tkind(old(tlen()) + (r.diff ? 1 : 0) + 3) == kind("Filter") && tkind(old(tlen()) + (r.diff ? 1 : 0) + 4) == kind("CloseAccounts") && tkind(old(tlen()) + (r.diff ? 1 : 0) + 5) == kind("Into")
//@        && tkind(old(tlen()) + (r.diff ? 1 : 0) + 6) == kind("Process") && tkind(old(tlen()) + (r.diff ? 1 : 0) + 7) == kind("Render")
//@   ensures [C02] @close: result == nil ==> targ("CloseAccounts", 2, old(tlen()) + (r.diff ? 1 : 0) + 4) == r.close
//@   ensures [C02] [C01] @six: result == nil ==> len(targ("Process", 0, old(tlen()) + (r.diff ? 1 : 0) + 6)) == 6
//@   ensures [C02] [C01] @same: result == nil ==> targ("Render", 0, old(tlen()) + (r.diff ? 1 : 0) + 7) == dyn(targ("Into", 0, old(tlen()) + (r.diff ? 1 : 0) + 5), "*balance.Report")
//@   ensures [C02] @diffwindow: result == nil && r.diff ==> tkind(old(tlen())) == kind("Reported")
//@        && targ("Filter", 0, old(tlen()) + 4).span.Start == tres("Reported", old(tlen())).span.Start
//@        && targ("Filter", 0, old(tlen()) + 4).periods == tres("Reported", old(tlen())).periods
//
// execute (check): the verdict of the checker is the verdict of the command - also with --write: the
// assertions are only written after the journal passed.
//@ func (*checkRunner).execute
//@   requires r != nil && cmd != nil && len(args) >= 1
//@   modifies *
//@   callback Process=0
//@   callback writeFile=1
//@   ensures [C04] @verdict: (tlen() >= old(tlen()) + 1 && tres("Process", old(tlen())) != nil) ==> result != nil && tlen() == old(tlen()) + 1
