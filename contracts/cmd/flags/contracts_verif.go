//go:build verif

// Contracts for package flags (machine-checked by /verif/engine; comment-only file).
package flags

// Set (-m level[:suffix],regex): an accepted rule has a non-negative level and suffix - account.Shorten
// slices the account's segments with them (its precondition wfMapping), so a negative value must be
// rejected here, with an error, and never reach the report.
//@ func (*MappingFlag).Set
//@   requires cf != nil && wfMapping(cf.m)
//@   modifies cf.m, elems(cf.m)
//@   ensures [C14] [C02] @wf: wfMapping(cf.m)
//@   ensures [C14] @kept: result != nil ==> cf.m == old(cf.m)
//@   callback Atoi=0
//@   ensures [C01] [C02] @parsed: result == nil ==> len(cf.m) == old(len(cf.m)) + 1 && tlen() >= old(tlen()) + 1 && tlen() <= old(tlen()) + 2
//@        && cf.m[old(len(cf.m))].Level == tres("Atoi", old(tlen()))
//@        && cf.m[old(len(cf.m))].Suffix == (tlen() == old(tlen()) + 1 ? 0 : tres("Atoi", old(tlen()) + 1))
//@   ensures [C01] [C02] @prefix: result == nil ==> (forall i int :: {cf.m[i]} 0 <= i && i < old(len(cf.m)) ==> cf.m[i] == old(cf.m[i]))
//
// Partition: the reporting window is the --from/--to window clipped to the journal's own period; it is
// handed to date.NewPartition, which requires a start date other than the zero time (it panics otherwise).
//@ func (*Multiperiod).Partition
//@   requires mp != nil
//@   modifies nothing
//@   ensures contiguous(result.periods) && ascendingEnds(result.periods) && fresh(result.periods) && len(result.periods) >= 0
//
//@ func (IntervalFlags).Value
//@   modifies nothing
//@   loop 1 invariant 0 <= $i && $i <= 6
