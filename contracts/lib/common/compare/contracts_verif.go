//go:build verif

// Contracts for package compare (machine-checked by /verif/engine; comment-only file).
package compare

// Time: the chronological order of two dates - for EVERY pair of dates (not only those inside the range of
// a 64-bit nanosecond counter): the days of a journal are processed in this order.
//@ func Time
//@   modifies nothing
//@   ensures [C04] [C05] [C06] @chrono: result == (t1 < t2 ? 0 - 1 : (t1 == t2 ? 0 : 1))
