//go:build verif

// Contracts for package dict (generic helpers; each contract applies to every instantiation).
package dict

// Keys / SortedKeys: the result holds keys of the map only, and every key of the map (the sorted variant
// is a permutation of the unsorted one). Values / SortedValues: the result holds values of the map only, and
// the value of every key.
//@ func Keys
//@   ensures fresh(result)
//@   ensures @keys: forall i int :: {result[i]} 0 <= i && i < len(result) ==> (result[i] in m)
//@   ensures @all: forall k K :: {key(m, k)} (k in m) ==> (exists i int :: 0 <= i && i < len(result) && result[i] == k)
//@   loop 1 invariant fresh(res)
//@   loop 1 invariant forall i int :: {res[i]} 0 <= i && i < len(res) ==> (res[i] in m)
//@   loop 1 invariant forall k K :: {$seen[k]} $seen[k] ==> (exists i int :: 0 <= i && i < len(res) && res[i] == k)
//
//@ func SortedKeys
//@   pure c
//@   ensures fresh(result)
//@   ensures [C06] @sorted: forall a int, b int :: {result[a], result[b]} 0 <= a && a < b && b < len(result) ==> c(result[b], result[a]) != 0 - 1
//@   ensures @keys: forall i int :: {result[i]} 0 <= i && i < len(result) ==> (result[i] in m)
//@   ensures @all: forall k K :: {key(m, k)} (k in m) ==> (exists i int :: 0 <= i && i < len(result) && result[i] == k)
//
//@ func Values
//@   ensures fresh(result)
//@   ensures @values: forall i int :: {result[i]} 0 <= i && i < len(result) ==> (exists k K :: (k in m) && m[k] == result[i])
//@   ensures @all: forall k K :: {key(m, k)} (k in m) ==> (exists i int :: 0 <= i && i < len(result) && result[i] == m[k])
//@   loop 1 invariant fresh(res)
//@   loop 1 invariant forall i int :: {res[i]} 0 <= i && i < len(res) ==> (exists k K :: (k in m) && m[k] == res[i])
//@   loop 1 invariant forall k K :: {$seen[k]} $seen[k] ==> (exists i int :: 0 <= i && i < len(res) && res[i] == m[k])
//
//@ func SortedValues
//@   pure c
//@   ensures fresh(result)
//@   ensures [C06] @sorted: forall a int, b int :: {result[a], result[b]} 0 <= a && a < b && b < len(result) ==> c(result[b], result[a]) != 0 - 1
//@   ensures @values: forall i int :: {result[i]} 0 <= i && i < len(result) ==> (exists k K :: (k in m) && m[k] == result[i])
//@   ensures @all: forall k K :: {key(m, k)} (k in m) ==> (exists i int :: 0 <= i && i < len(result) && result[i] == m[k])
