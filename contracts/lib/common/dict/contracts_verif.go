//go:build verif

// Contracts for package dict (generic helpers; each contract applies to every instantiation).
package dict

//@ func Keys
//@   ensures fresh(result)
//@   loop 1 invariant fresh(res)
//
//@ func SortedKeys
//@   ensures fresh(result)
//
//@ func Values
//@   ensures fresh(result)
//@   loop 1 invariant fresh(res)
//
//@ func SortedValues
//@   ensures fresh(result)
