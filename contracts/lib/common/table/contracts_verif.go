//go:build verif

// Contracts for package table (machine-checked by /verif/engine; comment-only file).
//
// A row is created with capacity Width() and filled from the left; a row is complete when its length
// equals the table width. All rows of a finished table are complete (rectangular table).
package table

//@ def rowOf(r *Row, t *Table) bool := r != nil && len(r.cells) <= cap(r.cells) && cap(r.cells) == len(t.columns)
//@ def complete(r *Row, t *Table) bool := r != nil && len(r.cells) == len(t.columns)
//@ def isCell(c cell) bool := typeIs(c, "emptyCell") || typeIs(c, "SeparatorCell") || typeIs(c, "textCell") || typeIs(c, "numberCell") || typeIs(c, "percentCell")
//
// New: the table has one column per unit of every group size (ghost sums[j] = groups[0] + ... + groups[j-1]).
//@ func New
//@   requires forall g int :: {groups[g]} 0 <= g && g < len(groups) ==> groups[g] >= 0
//@   ghost sums []int = 0
//@   loop 1 ghost-end sums := upd(sums, $i, sums[$i - 1] + groups[$i - 1])
//@   ensures fresh(result) && result.rows == nil && fresh(result.columns)
//@   ensures @width2: len(groups) == 2 ==> len(result.columns) == groups[0] + groups[1]
//@   ensures @width3: len(groups) == 3 ==> len(result.columns) == groups[0] + groups[1] + groups[2]
//@   loop 1 invariant fresh(columns) && 0 <= $i && $i <= len(groups) && sums[0] == 0 && len(columns) == sums[$i]
//@   loop 1 invariant forall j int :: {groups[j]} 0 <= j && j < $i ==> sums[j+1] == sums[j] + groups[j]
//@   loop 1 invariant forall g int :: {groups[g]} 0 <= g && g < len(groups) ==> groups[g] >= 0 && groups[g] == old(groups[g])
//@   loop 2 invariant fresh(columns) && 0 <= i && sums[0] == 0
//@   loop 2 invariant i <= groupSize || groupSize < 0
//@   loop 2 invariant len(columns) == sums[$i1] + i
//@   loop 2 invariant 0 <= $i1 && $i1 < len(groups) && groupSize == groups[$i1] && groupSize >= 0
//@   loop 2 invariant forall g int :: {groups[g]} 0 <= g && g < len(groups) ==> groups[g] >= 0 && groups[g] == old(groups[g])
//@   loop 2 invariant forall j int :: {groups[j]} 0 <= j && j < $i1 ==> sums[j+1] == sums[j] + groups[j]
//@   loop 2 decreases groupSize - i
//
//@ func (*Table).Width
//@   ensures result == len(t.columns)
//
//@ func (*Table).AddRow
//@   modifies t.rows, t.rows[*]
//@   ensures fresh(result) && live(result) && rowOf(result, t) && len(result.cells) == 0 && fresh(result.cells)
//@   ensures len(t.rows) == old(len(t.rows)) + 1 && t.rows[len(t.rows) - 1] == result && t.columns == old(t.columns)
//@   ensures forall i int :: {t.rows[i]} 0 <= i && i < old(len(t.rows)) ==> t.rows[i] == old(t.rows[i])
//
//@ func (*Row).addCell
//@   requires len(r.cells) < cap(r.cells)
//@   modifies r.cells, r.cells[*]
//@   ensures len(r.cells) == old(len(r.cells)) + 1 && cap(r.cells) == old(cap(r.cells)) && base(r.cells) == old(base(r.cells)) && r.cells[len(r.cells) - 1] == c
//@   ensures forall i int :: {r.cells[i]} 0 <= i && i < old(len(r.cells)) ==> r.cells[i] == old(r.cells[i])
//
//@ def grown(r *Row) bool := true
//@ func (*Row).AddEmpty
//@   requires len(r.cells) < cap(r.cells)
//@   modifies r.cells, r.cells[*]
//@   ensures result == r && len(r.cells) == old(len(r.cells)) + 1 && cap(r.cells) == old(cap(r.cells)) && base(r.cells) == old(base(r.cells)) && typeIs(r.cells[len(r.cells) - 1], "emptyCell")
//@   ensures forall i int :: {r.cells[i]} 0 <= i && i < old(len(r.cells)) ==> r.cells[i] == old(r.cells[i])
//
//@ func (*Row).AddText
//@   requires len(r.cells) < cap(r.cells)
//@   modifies r.cells, r.cells[*]
//@   ensures result == r && len(r.cells) == old(len(r.cells)) + 1 && cap(r.cells) == old(cap(r.cells)) && base(r.cells) == old(base(r.cells)) && typeIs(r.cells[len(r.cells) - 1], "textCell")
//@   ensures dyn(r.cells[len(r.cells) - 1], "textCell").Content == content && dyn(r.cells[len(r.cells) - 1], "textCell").Indent == 0
//@   ensures forall i int :: {r.cells[i]} 0 <= i && i < old(len(r.cells)) ==> r.cells[i] == old(r.cells[i])
//
//@ func (*Row).AddIndented
//@   requires len(r.cells) < cap(r.cells)
//@   modifies r.cells, r.cells[*]
//@   ensures result == r && len(r.cells) == old(len(r.cells)) + 1 && cap(r.cells) == old(cap(r.cells)) && base(r.cells) == old(base(r.cells)) && typeIs(r.cells[len(r.cells) - 1], "textCell")
//@   ensures dyn(r.cells[len(r.cells) - 1], "textCell").Content == content && dyn(r.cells[len(r.cells) - 1], "textCell").Indent == indent
//@   ensures forall i int :: {r.cells[i]} 0 <= i && i < old(len(r.cells)) ==> r.cells[i] == old(r.cells[i])
//
// AddDecimal: the cell carries exactly the number (the CSV renderer prints it unrounded).
//@ func (*Row).AddDecimal
//@   requires len(r.cells) < cap(r.cells)
//@   modifies r.cells, r.cells[*]
//@   ensures result == r && len(r.cells) == old(len(r.cells)) + 1 && cap(r.cells) == old(cap(r.cells)) && base(r.cells) == old(base(r.cells)) && typeIs(r.cells[len(r.cells) - 1], "numberCell")
//@   ensures dyn(r.cells[len(r.cells) - 1], "numberCell").n == n
//@   ensures forall i int :: {r.cells[i]} 0 <= i && i < old(len(r.cells)) ==> r.cells[i] == old(r.cells[i])
//
// FillEmpty completes the row.
//@ func (*Row).FillEmpty
//@   requires r != nil && len(r.cells) <= cap(r.cells)
//@   modifies r.cells, elems(r.cells)
//@   ensures len(r.cells) == old(cap(r.cells)) && cap(r.cells) == old(cap(r.cells)) && base(r.cells) == old(base(r.cells))
//@   ensures forall i int :: {r.cells[i]} 0 <= i && i < old(len(r.cells)) ==> r.cells[i] == old(r.cells[i])
//@   loop 1 invariant old(len(r.cells)) <= i && i == len(r.cells) && i <= cap(r.cells) && cap(r.cells) == old(cap(r.cells)) && base(r.cells) == old(base(r.cells))
//@   loop 1 invariant forall k int :: {r.cells[k]} 0 <= k && k < old(len(r.cells)) ==> r.cells[k] == old(r.cells[k])
//@   loop 1 decreases cap(r.cells) - i
//
// Separator and empty rows are complete rows.
//@ func (*Table).AddSeparatorRow
//@   modifies t.rows, t.rows[*], elems(t.rows[0].cells)
//@   ensures len(t.rows) == old(len(t.rows)) + 1 && complete(t.rows[len(t.rows) - 1], t) && fresh(t.rows[len(t.rows) - 1]) && live(t.rows[len(t.rows) - 1]) && t.columns == old(t.columns)
//@   ensures forall i int :: {t.rows[i]} 0 <= i && i < old(len(t.rows)) ==> t.rows[i] == old(t.rows[i])
//@   ensures forall k int :: {t.rows[len(t.rows) - 1].cells[k]} 0 <= k && k < len(t.columns) ==> typeIs(t.rows[len(t.rows) - 1].cells[k], "SeparatorCell")
//@   loop 1 invariant 0 <= i && i == len(r.cells) && i <= len(t.columns) && rowOf(r, t) && fresh(r) && fresh(r.cells)
//@   loop 1 invariant forall k int :: {r.cells[k]} 0 <= k && k < i ==> typeIs(r.cells[k], "SeparatorCell")
//@   loop 1 invariant len(t.rows) == old(len(t.rows)) + 1 && t.rows[len(t.rows) - 1] == r && t.columns == old(t.columns)
//@   loop 1 invariant forall k int :: {t.rows[k]} 0 <= k && k < old(len(t.rows)) ==> t.rows[k] == old(t.rows[k])
//@   loop 1 decreases len(t.columns) - i
//
//@ func (*Table).AddEmptyRow
//@   modifies t.rows, t.rows[*], elems(t.rows[0].cells)
//@   ensures len(t.rows) == old(len(t.rows)) + 1 && complete(t.rows[len(t.rows) - 1], t) && fresh(t.rows[len(t.rows) - 1]) && live(t.rows[len(t.rows) - 1]) && t.columns == old(t.columns)
//@   ensures forall i int :: {t.rows[i]} 0 <= i && i < old(len(t.rows)) ==> t.rows[i] == old(t.rows[i])
//@   loop 1 invariant 0 <= i && i == len(r.cells) && i <= len(t.columns) && rowOf(r, t) && fresh(r) && fresh(r.cells)
//@   loop 1 invariant len(t.rows) == old(len(t.rows)) + 1 && t.rows[len(t.rows) - 1] == r && t.columns == old(t.columns)
//@   loop 1 invariant forall k int :: {t.rows[k]} 0 <= k && k < old(len(t.rows)) ==> t.rows[k] == old(t.rows[k])
//@   loop 1 decreases len(t.columns) - i
//
// ---- text rendering: rune counting with the ghost output counter outlen() -------------------------
//
//@ func writeString
//@   ensures outok() ==> outlen() == old(outlen()) + runes(s)
//@   ensures result != nil ==> !outok()
//
//@ func writeStrings
//@   ensures outok() ==> outlen() == old(outlen()) + (l > 0 ? l : 0) * runes(s)
//@   ensures result != nil ==> !outok()
//@   loop 1 invariant 0 <= i && (l > 0 ==> i <= l) && (outok() ==> outlen() == old(outlen()) + i * runes(s))
//@   loop 1 decreases l - i
//
//@ func writeSpace
//@   ensures outok() ==> outlen() == old(outlen()) + (l > 0 ? l : 0)
//@   ensures result != nil ==> !outok()
//
// numToString is trusted to be a function of the renderer settings and the number (its text is
// validated against an independent formatter by the stand-in 'numfmt').
//@ spec numstr(thousands bool, round int, d decimal.Decimal) string
//@ func (*TextRenderer).numToString
//@   trusted
//@   ensures result == numstr(r.Thousands, r.Round, d)
//
//@ def minLen(r *TextRenderer, c cell) int :=
//@     typeIs(c, "textCell") ? ((dyn(c, "textCell").Align == 0 ? dyn(c, "textCell").Indent : 0) + runes(dyn(c, "textCell").Content))
//@     : (typeIs(c, "numberCell") ? runes(numstr(r.Thousands, r.Round, dyn(c, "numberCell").n)) : 0)
//@ def plainCell(c cell) bool := typeIs(c, "emptyCell") || typeIs(c, "SeparatorCell") || typeIs(c, "numberCell")
//@     || (typeIs(c, "textCell") && dyn(c, "textCell").Indent >= 0 && 0 <= dyn(c, "textCell").Align && dyn(c, "textCell").Align <= 2)
//
//@ func (*TextRenderer).minLengthCell
//@   ensures plainCell(c) ==> result == minLen(r, c) && result >= 0
//
// renderCell writes exactly l runes when l is at least the minimal length of the cell: zero amounts
// are blank (l spaces), other amounts are the formatted number right-aligned in l runes.
//@ func (*TextRenderer).renderCell
//@   ensures plainCell(c) && l >= minLen(r, c) && outok() ==> outlen() == old(outlen()) + l
//
// TextRenderer.Render: for a rectangular table of plain cells every rendered line has the same number
// of runes, end[n-1], where start[0] = 2, end[j] = start[j] + widths[j] + 3, start[j+1] = end[j] are
// the column positions (ghost arrays): the separators of all lines are vertically aligned.
// ls[k] / le[k] = value of the output counter at the start / end of line k.
//@ def rect(t *Table) bool := t != nil && len(t.columns) >= 1
//@     && (forall k int :: {t.rows[k]} 0 <= k && k < len(t.rows) ==> t.rows[k] != nil && len(t.rows[k].cells) == len(t.columns))
//@     && (forall k int, j int :: {t.rows[k].cells[j]} 0 <= k && k < len(t.rows) && 0 <= j && j < len(t.columns) ==> plainCell(t.rows[k].cells[j]))
//
//@ func (*TextRenderer).Render
//@   requires rect(t)
//@   modifies r.table, globals
//@   ghost start []int = 0
//@   ghost end []int = 0
//@   ghost ls []int = 0
//@   ghost le []int = 0
//@   loop 4 ghost start := ($i == 0 ? upd(start, 0, 2) : start)
//@   loop 4 ghost-end end := upd(end, $i - 1, start[$i - 1] + widths[$i - 1] + 3)
//@   loop 4 ghost-end start := upd(start, $i, end[$i - 1])
//@   loop 5 ghost ls := upd(ls, $i, outlen())
//@   loop 5 ghost-end le := upd(le, $i - 1, outlen())
//@   ensures @samewidth: result == nil && outok() ==> (forall k int :: {le[k]} 0 <= k && k < len(t.rows) ==> le[k] - ls[k] == end[len(t.columns) - 1])
//@   loop 1 invariant r.table == t && fresh(widths) && len(widths) == len(t.columns) && 0 <= $i && $i <= len(t.rows)
//@   loop 1 invariant forall j int :: {widths[j]} 0 <= j && j < len(widths) ==> widths[j] >= 0
//@   loop 1 invariant forall k int, j int :: {t.rows[k].cells[j]} 0 <= k && k < $i && 0 <= j && j < len(t.columns) ==> widths[j] >= minLen(r, t.rows[k].cells[j])
//@   loop 2 invariant r.table == t && fresh(widths) && len(widths) == len(t.columns) && 0 <= $i && $i <= len(t.columns) && row == t.rows[$i1] && 0 <= $i1 && $i1 < len(t.rows)
//@   loop 2 invariant forall j int :: {widths[j]} 0 <= j && j < len(widths) ==> widths[j] >= 0 && widths[j] >= entry(widths[j])
//@   loop 2 invariant forall j int :: {row.cells[j]} 0 <= j && j < $i ==> widths[j] >= minLen(r, row.cells[j])
//@   loop 3 invariant r.table == t && fresh(widths) && len(widths) == len(t.columns) && fresh(groups) && groups != nil
//@   loop 3 invariant forall k int, j int :: {t.rows[k].cells[j]} 0 <= k && k < len(t.rows) && 0 <= j && j < len(t.columns) ==> widths[j] >= minLen(r, t.rows[k].cells[j])
//@   loop 4 invariant r.table == t && fresh(widths) && len(widths) == len(t.columns) && 0 <= $i && $i <= len(widths)
//@   loop 4 invariant forall j int :: {widths[j]} 0 <= j && j < len(widths) ==> widths[j] >= entry(widths[j])
//@   loop 4 invariant forall k int, j int :: {t.rows[k].cells[j]} 0 <= k && k < len(t.rows) && 0 <= j && j < len(t.columns) ==> widths[j] >= minLen(r, t.rows[k].cells[j])
//@   loop 4 invariant $i > 0 ==> start[0] == 2
//@   loop 4 invariant forall j int :: {end[j]} 0 <= j && j < $i ==> end[j] == start[j] + widths[j] + 3 && start[j + 1] == end[j]
//@   loop 5 invariant r.table == t && fresh(widths) && len(widths) == len(t.columns) && 0 <= $i && $i <= len(t.rows)
//@   loop 5 invariant forall k int, j int :: {t.rows[k].cells[j]} 0 <= k && k < len(t.rows) && 0 <= j && j < len(t.columns) ==> widths[j] >= minLen(r, t.rows[k].cells[j])
//@   loop 5 invariant outok() ==> (forall k int :: {le[k]} 0 <= k && k < $i ==> le[k] - ls[k] == end[len(t.columns) - 1])
//@   loop 6 invariant r.table == t && fresh(widths) && len(widths) == len(t.columns) && 0 <= $i && $i <= len(t.columns) && row == t.rows[$i5] && 0 <= $i5 && $i5 < len(t.rows)
//@   loop 6 invariant forall k int, j int :: {t.rows[k].cells[j]} 0 <= k && k < len(t.rows) && 0 <= j && j < len(t.columns) ==> widths[j] >= minLen(r, t.rows[k].cells[j])
//@   loop 6 invariant outok() ==> outlen() - ls[$i5] == ($i == 0 ? 2 : ($i < len(t.columns) ? end[$i - 1] : end[len(t.columns) - 1] - 3))
//
// CSV (property C17: "the CSV rendering carries the exact unrounded amounts in the same row and column
// positions"): every row of the table that has a cell with text - a non-empty text cell or ANY number cell -
// is written as one record, in row order, with one field per cell (at the moment of the Write call the record
// holds, in column order, the cell texts - the exact decimal string for a number: loop 2's invariant; that
// written records keep their contents afterwards is not stated: it would need a snapshot of the string heap);
// rows without any text (separator and spacer rows) are skipped, and nothing else is written.
// Ghosts: wrote[k] = index (among the Write events of this call) of the record of row k, rowOf its inverse.
//@ def csvText(c cell) string := typeIs(c, "textCell") ? dyn(c, "textCell").Content : (typeIs(c, "numberCell") ? dstring(dyn(c, "numberCell").n) : "")
//@ def csvCell(c cell) bool := typeIs(c, "emptyCell") || typeIs(c, "SeparatorCell") || typeIs(c, "textCell") || typeIs(c, "numberCell")
//@ def csvRowText(row *Row) bool := exists j int :: 0 <= j && j < len(row.cells) && len(csvText(row.cells[j])) > 0
//@ def csvRecord(rec []string, row *Row) bool := len(rec) == len(row.cells) && (forall j int :: {rec[j]} 0 <= j && j < len(rec) ==> rec[j] == csvText(row.cells[j]))
//@ func (*CSVRenderer).Render
//@   requires t != nil && (forall k int :: {t.rows[k]} 0 <= k && k < len(t.rows) ==> t.rows[k] != nil && (forall j int :: {t.rows[k].cells[j]} 0 <= j && j < len(t.rows[k].cells) ==> csvCell(t.rows[k].cells[j])))
//@   modifies nothing
//@   callback Write=0
//@   ghost wrote []int = 0
//@   ghost n int = 0
//@   ghost rowOf []int = 0
//@   ensures [C17] @count: result == nil ==> tlen() == old(tlen()) + n && n <= len(t.rows)
//@   ensures [C17] @rows: result == nil ==> (forall k int :: {t.rows[k]} 0 <= k && k < len(t.rows) && csvRowText(t.rows[k]) ==> 0 <= wrote[k] && wrote[k] < n)
//@   ensures [C17] @fields: result == nil ==> (forall k int :: {wrote[k]} 0 <= k && k < len(t.rows) && 0 <= wrote[k] ==> rowOf[wrote[k]] == k)
//@        && (forall e int :: {targ("Write", 0, e)} old(tlen()) <= e && e < tlen() ==> 0 <= rowOf[e - old(tlen())] && rowOf[e - old(tlen())] < len(t.rows) && len(targ("Write", 0, e)) == len(t.rows[rowOf[e - old(tlen())]].cells))
//@   ensures [C17] @order: result == nil ==> (forall a int, b int :: {wrote[a], wrote[b]} 0 <= a && a < b && b < len(t.rows) && 0 <= wrote[a] && 0 <= wrote[b] ==> wrote[a] < wrote[b])
//@   loop 1 ghost-end wrote := upd(wrote, $i - 1, hasText ? n : 0 - 1)
//@   loop 1 ghost-end rowOf := hasText ? upd(rowOf, n, $i - 1) : rowOf
//@   loop 1 ghost-end n := hasText ? n + 1 : n
//@   loop 1 invariant 0 <= $i && $i <= len($range) && $range == t.rows && tlen() == old(tlen()) + n && 0 <= n && n <= $i
//@   loop 1 invariant forall k int :: {t.rows[k]} 0 <= k && k < $i && csvRowText(t.rows[k]) ==> 0 <= wrote[k]
//@   loop 1 invariant forall k int :: {wrote[k]} 0 <= k && k < $i && 0 <= wrote[k] ==> wrote[k] < n && len(targ("Write", 0, old(tlen()) + wrote[k])) == len(t.rows[k].cells)
//@   loop 1 invariant forall k int :: {wrote[k]} 0 <= k && k < $i && 0 <= wrote[k] ==> rowOf[wrote[k]] == k
//@   loop 1 invariant forall e int :: {targ("Write", 0, e)} old(tlen()) <= e && e < tlen() ==> 0 <= rowOf[e - old(tlen())] && rowOf[e - old(tlen())] < $i && len(targ("Write", 0, e)) == len(t.rows[rowOf[e - old(tlen())]].cells)
//@   loop 1 invariant forall a int, b int :: {wrote[a], wrote[b]} 0 <= a && a < b && b < $i && 0 <= wrote[a] && 0 <= wrote[b] ==> wrote[a] < wrote[b]
//@   loop 1 invariant forall e int :: {targ("Write", 0, e)} old(tlen()) <= e && e < tlen() ==> live(targ("Write", 0, e))
//@   loop 2 invariant 0 <= $i && $i <= len($range) && $range == row.cells && len(rec) == $i && fresh(rec) && tlen() == entry(tlen())
//@   loop 2 invariant forall j int :: {rec[j]} 0 <= j && j < $i ==> rec[j] == csvText(row.cells[j])
//@   loop 3 invariant 0 <= $i && $i <= len($range) && $range == rec && tlen() == entry(tlen()) && !hasText
//@   loop 3 invariant forall j int :: {rec[j]} 0 <= j && j < $i ==> len(rec[j]) == 0
//
// CSV: the cell text of a number is its exact decimal string; text cells are copied.
//@ func (*CSVRenderer).renderCell
//@   ensures isCell(c) ==> result.1 == nil
//@   ensures typeIs(c, "textCell") ==> result.0 == dyn(c, "textCell").Content
//@   ensures typeIs(c, "emptyCell") || typeIs(c, "SeparatorCell") ==> result.0 == ""
//@   ensures typeIs(c, "numberCell") ==> result.0 == dstring(dyn(c, "numberCell").n)
