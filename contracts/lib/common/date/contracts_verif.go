//go:build verif

// Contracts for package date (machine-checked by /verif/engine; comment-only file).
package date

// Calendar theory: sof/eof are the specification of StartOf/EndOf. The axioms are validated
// exhaustively against the real functions for every day 0000-01-01..9999-12-31 (see /verif/standins).
//
//@ spec sof(d time.Time, iv Interval) time.Time
//@ spec eof(d time.Time, iv Interval) time.Time
//@ axiom sof_le: forall d time.Time, iv Interval :: {sof(d, iv)} sof(d, iv) <= d
//@ axiom eof_ge: forall d time.Time, iv Interval :: {eof(d, iv)} d <= eof(d, iv)
//@ axiom sof_convex: forall d time.Time, e time.Time, iv Interval :: {sof(d, iv), sof(e, iv)} sof(d, iv) <= e && e <= d ==> sof(e, iv) == sof(d, iv)
//@ axiom sof_once: forall d time.Time :: {sof(d, 0)} sof(d, 0) == d
//@ axiom sof_daily: forall d time.Time :: {sof(d, 1)} sof(d, 1) == d
//
// For the week the calendar functions are plain day arithmetic (weekday(d) = (d + 1) mod 7 with day 0 =
// Monday 0001-01-01): these two axioms DEFINE sof/eof for weeks, and StartOf/EndOf are verified against
// them (and against sof_once/sof_daily); only the month/quarter/year cases - which need the civil
// calendar (time.Date, Year, Month) - remain trusted clauses, validated by the exhaustive stand-in.
//@ axiom sof_weekly: forall d time.Time :: {sof(d, 2)} sof(d, 2) == d - ((weekday(d) + 6) % 7)
//@ axiom eof_weekly: forall d time.Time :: {eof(d, 2)} eof(d, 2) == d + ((7 - weekday(d)) % 7)
//@ axiom eof_once: forall d time.Time :: {eof(d, 0)} eof(d, 0) == d
//@ axiom eof_daily: forall d time.Time :: {eof(d, 1)} eof(d, 1) == d
//
//@ func StartOf
//@   ensures @days: 0 <= p && p <= 2 ==> result == sof(d, p)
//@   ensures [trusted] @calendar: p < 0 || p > 2 ==> result == sof(d, p)
//
//@ func EndOf
//@   ensures @days: 0 <= p && p <= 2 ==> result == eof(d, p)
//@   ensures [trusted] @calendar: p < 0 || p > 2 ==> result == eof(d, p)
//
//@ func (Period).Clip
//@   ensures result.Start == (p2.Start > p.Start ? p2.Start : p.Start)
//@   ensures result.End == (p2.End < p.End ? p2.End : p.End)
//
//@ func (Period).Contains
//@   ensures result <==> (p.Start <= t && t <= p.End)

// A period list is well formed for a window (span) and an interval when it is ascending, contiguous,
// inside the window, ends at the window end, and no period crosses a calendar boundary: each period
// starts at the calendar start of its end date, or at the window start if that comes later.
//
//@ def periodOK(p Period, span Period, iv Interval) bool :=
//@     span.Start <= p.Start && p.Start <= p.End && p.End <= span.End
//@     && (p.Start == sof(p.End, iv) || (p.Start == span.Start && sof(p.End, iv) < span.Start))
//@ def wfPeriods(ps []Period, span Period, iv Interval) bool :=
//@     (forall k int :: {ps[k].End} 0 <= k && k < len(ps) ==> periodOK(ps[k], span, iv))
//@     && (forall k int :: {ps[k].Start} 0 < k && k < len(ps) ==> ps[k].Start == ps[k-1].End + 1)
//@     && (len(ps) > 0 ==> ps[len(ps)-1].End == span.End)
//
//@ func NewPartition
//@   requires period.Start != 0
//@   ensures @span: result.span == period && result.interval == interval
//@   ensures @once: interval == Once && period.Start <= period.End ==> len(result.periods) == 1 && result.periods[0] == period
//@   ensures @wf: interval != Once ==> wfPeriods(result.periods, period, interval)
//@   ensures @cover: interval != Once && period.Start <= period.End ==> len(result.periods) >= 1
//@        && (last <= 0 ==> result.periods[0].Start == period.Start)
//@        && (last > 0 ==> len(result.periods) <= last && (len(result.periods) < last ==> result.periods[0].Start == period.Start))
//@   ensures @empty: period.End < period.Start ==> len(result.periods) == 0
//@   ensures @fresh: fresh(result.periods)
//@   ensures @ascending: forall a int, b int :: {result.periods[a].End, result.periods[b].End} 0 <= a && a < b && b < len(result.periods) ==> result.periods[a].End < result.periods[b].End
//@   loop 1 invariant forall a int, b int :: {periods[a].End, periods[b].End} 0 <= a && a < b && b < len(periods) ==> periods[a].End > periods[b].End
//@   loop 1 invariant counter == len(periods) && fresh(periods) && end <= period.End
//@   loop 1 invariant forall k int :: {periods[k].End} 0 <= k && k < len(periods) ==> periodOK(periods[k], period, interval)
//@   loop 1 invariant forall k int :: {periods[k].End} 0 < k && k < len(periods) ==> periods[k].End + 1 == periods[k-1].Start
//@   loop 1 invariant len(periods) > 0 ==> periods[0].End == period.End && end == periods[len(periods)-1].Start - 1
//@   loop 1 invariant len(periods) == 0 ==> end == period.End
//@   loop 1 invariant last > 0 ==> counter <= last
//@   loop 1 decreases end - period.Start + 1
//@   loop 2 invariant 0 <= i && j == len(periods) - 1 - i && i <= j + 1
//@   loop 2 invariant forall k int :: {periods[k].End} 0 <= k && k < len(periods) && (k < i || k > j) ==> periods[k] == entry(periods[len(periods)-1-k])
//@   loop 2 invariant forall k int :: {periods[k].End} i <= k && k <= j ==> periods[k] == entry(periods[k])
//@   loop 2 decreases j - i + 1
//
//@ func (Partition).Size
//@   inline
//@   ensures result == len(part.periods)
//
//@ func (Partition).Contains
//@   ensures result <==> (part.span.Start <= d && d <= part.span.End)
//
// Reported: the same periods, the span cut to start with the first of them (nothing else changes).
//@ func (Partition).Reported
//@   modifies nothing
//@   ensures [C02] result.periods == part.periods && result.interval == part.interval && result.span.End == part.span.End
//@   ensures [C02] @cut: len(part.periods) > 0 ==> result.span.Start == part.periods[0].Start
//@   ensures [C02] @whole: len(part.periods) == 0 ==> result.span.Start == part.span.Start
//
//@ func (Partition).StartDates
//@   ensures len(result) == len(part.periods) && fresh(result)
//@   ensures forall k int :: {result[k]} 0 <= k && k < len(result) ==> result[k] == part.periods[k].Start
//@   loop 1 invariant len(res) == $i && fresh(res) && 0 <= $i && $i <= len(part.periods)
//@   loop 1 invariant forall k int :: {res[k]} 0 <= k && k < len(res) ==> res[k] == part.periods[k].Start
//
//@ func (Partition).EndDates
//@   ensures len(result) == len(part.periods) && fresh(result)
//@   ensures forall k int :: {result[k]} 0 <= k && k < len(result) ==> result[k] == part.periods[k].End
//@   loop 1 invariant len(res) == $i && fresh(res) && 0 <= $i && $i <= len(part.periods)
//@   loop 1 invariant forall k int :: {res[k]} 0 <= k && k < len(res) ==> res[k] == part.periods[k].End
//
// Align: every date up to the last period end is attributed to the end of the period containing it
// (dates before the first period to the first period); later dates to the zero time.
//@ def contiguous(ps []Period) bool := forall k int :: {ps[k].Start} 0 < k && k < len(ps) ==> ps[k].Start == ps[k-1].End + 1
//
//@ def ascendingEnds(ps []Period) bool := forall a int, b int :: {ps[a].End, ps[b].End} 0 <= a && a < b && b < len(ps) ==> ps[a].End < ps[b].End
//
//@ func (Partition).Align
//@   requires contiguous(part.periods) && ascendingEnds(part.periods)
//
//@ func (Partition).Align$1
//@   requires contiguous(part.periods) && ascendingEnds(part.periods)
//@   ensures @hit: len(part.periods) > 0 && d <= part.periods[len(part.periods)-1].End ==>
//@        (exists k int :: 0 <= k && k < len(part.periods) && result == part.periods[k].End && d <= part.periods[k].End
//@              && (k == 0 || part.periods[k].Start <= d))
//@   ensures @miss: len(part.periods) == 0 || d > part.periods[len(part.periods)-1].End ==> result == 0
