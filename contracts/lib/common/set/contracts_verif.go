//go:build verif

// Contracts for package set (generic; each contract applies to every instantiation).
package set

// AddAll: afterwards the set holds exactly its previous members and the given elements.
//@ func (Set).AddAll
//@   requires set != nil
//@   modifies set[*]
//@   ensures forall t T :: {key(set, t)} (t in set) <==> (old(t in set) || (exists i int :: 0 <= i && i < len(ts) && ts[i] == t))
//@   loop 1 invariant 0 <= $i && $i <= len(ts)
//@   loop 1 invariant forall t T :: {key(set, t)} (t in set) <==> (old(t in set) || (exists i int :: 0 <= i && i < $i && ts[i] == t))
//
// FromSlice: a fresh set holding exactly the elements of the slice.
//@ func FromSlice
//@   ensures fresh(result) && result != nil
//@   ensures forall t T :: {key(result, t)} (t in result) <==> (exists i int :: 0 <= i && i < len(ts) && ts[i] == t)
