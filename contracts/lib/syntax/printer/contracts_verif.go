//go:build verif

// Contracts for package printer (machine-checked by /verif/engine; comment-only file).
//
// The parser's postcondition is the printer's precondition: a directive whose ranges satisfy the ok*
// tree predicates of package parser can be rendered without any slicing error, and Format copies the
// text between the directives verbatim, in order, printing every directive exactly once.
package printer

// Printability: every leaf range the printer extracts lies inside ITS OWN text (after `knut infer` an
// account range points into a synthetic text, so this is weaker than the parser's `within` tree).
//@ def prBooking(b directives.Booking) bool := inText(b.Credit.Range) && inText(b.Debit.Range) && inText(b.Quantity.Range) && inText(b.Commodity.Range)
//@ def prBalance(b directives.Balance) bool := inText(b.Account.Range) && inText(b.Quantity.Range) && inText(b.Commodity.Range)
//@ def prAccrual(a directives.Accrual) bool := inText(a.Interval.Range) && inText(a.Start.Range) && inText(a.End.Range) && inText(a.Account.Range)
//@ def prPerformance(x directives.Performance) bool := forall i int :: {x.Targets[i].Range.Start} 0 <= i && i < len(x.Targets) ==> inText(x.Targets[i].Range)
//@ def prTransaction(t directives.Transaction) bool := inText(t.Date.Range) && inText(t.Description.Content)
//@     && (forall i int :: {t.Bookings[i].Range.Start} 0 <= i && i < len(t.Bookings) ==> prBooking(t.Bookings[i]))
//@     && (t.Addons.Accrual.Range.Start != t.Addons.Accrual.Range.End ==> prAccrual(t.Addons.Accrual))
//@     && (t.Addons.Performance.Range.Start != t.Addons.Performance.Range.End ==> prPerformance(t.Addons.Performance))
//@ def prOpen(o directives.Open) bool := inText(o.Date.Range) && inText(o.Account.Range)
//@ def prClose(o directives.Close) bool := inText(o.Date.Range) && inText(o.Account.Range)
//@ def prAssertion(x directives.Assertion) bool := inText(x.Date.Range)
//@     && (forall i int :: {x.Balances[i].Range.Start} 0 <= i && i < len(x.Balances) ==> prBalance(x.Balances[i]))
//@ def prPrice(x directives.Price) bool := inText(x.Date.Range) && inText(x.Commodity.Range) && inText(x.Price.Range) && inText(x.Target.Range)
//@ def prInclude(x directives.Include) bool := inText(x.IncludePath.Content)
//@ def renderable(d directives.Directive) bool :=
//@     (typeIs(d.Directive, "directives.Open") ==> prOpen(dyn(d.Directive, "directives.Open")))
//@     && (typeIs(d.Directive, "directives.Close") ==> prClose(dyn(d.Directive, "directives.Close")))
//@     && (typeIs(d.Directive, "directives.Price") ==> prPrice(dyn(d.Directive, "directives.Price")))
//@     && (typeIs(d.Directive, "directives.Assertion") ==> prAssertion(dyn(d.Directive, "directives.Assertion")))
//@     && (typeIs(d.Directive, "directives.Include") ==> prInclude(dyn(d.Directive, "directives.Include")))
//@     && (typeIs(d.Directive, "directives.Transaction") ==> prTransaction(dyn(d.Directive, "directives.Transaction")))
// A file is printable when its directives are renderable and their ranges are increasing, disjoint
// positions inside the file's text.
//@ def prFile(f directives.File) bool := (forall i int :: {f.Directives[i]} 0 <= i && i < len(f.Directives) ==>
//@         renderable(f.Directives[i]) && 0 <= f.Directives[i].Range.Start && f.Directives[i].Range.Start <= f.Directives[i].Range.End && f.Directives[i].Range.End <= len(f.Range.Text))
//@     && (forall i int :: {f.Directives[i]} 0 < i && i < len(f.Directives) ==> f.Directives[i-1].Range.End <= f.Directives[i].Range.Start)
//
//@ func (*Printer).Write
//@   requires p != nil
//@   modifies p.count
//
// printTransaction: after the optional addon lines, the header is written with the format `%s "%s"` from
// the transaction's own date text and its own description text - the description goes between plain
// double quotes, unescaped, exactly as the parser reads it back - and then every booking once, in order.
//@ func (*Printer).printTransaction
//@   requires p != nil && prTransaction(t)
//@   modifies p.count
//@   callback Fprintf=0
//@   callback printPosting=0
//@   callback printAccrual=0
//@   ghost hdr int = 0
//@   ensures [C08] @header: result == nil ==> old(tlen()) <= hdr && hdr < tlen() && tkind(hdr) == kind("Fprintf") && targ("Fprintf", 1, hdr) == "%s \"%s\""
//@        && len(targ("Fprintf", 2, hdr)) == 2 && typeIs(targ("Fprintf", 2, hdr)[0], "string") && typeIs(targ("Fprintf", 2, hdr)[1], "string")
//@        && dyn(targ("Fprintf", 2, hdr)[0], "string") == t.Date.Range.Text[t.Date.Range.Start:t.Date.Range.End]
//@        && dyn(targ("Fprintf", 2, hdr)[1], "string") == t.Description.Content.Text[t.Description.Content.Start:t.Description.Content.End]
//@   ensures [C08] @addons: result == nil ==> hdr == old(tlen()) + (t.Addons.Accrual.Range.Start != t.Addons.Accrual.Range.End ? 1 : 0) + (t.Addons.Performance.Range.Start != t.Addons.Performance.Range.End ? 1 : 0)
//@        && (t.Addons.Accrual.Range.Start != t.Addons.Accrual.Range.End ==> tkind(old(tlen())) == kind("printAccrual") && targ("printAccrual", 0, old(tlen())) == t.Addons.Accrual)
//@        && (t.Addons.Performance.Range.Start != t.Addons.Performance.Range.End ==> tkind(hdr - 1) == kind("Fprintf") && targ("Fprintf", 1, hdr - 1) == "@performance(%s)\n")
//@   ensures [C08] @bookings: result == nil ==> tlen() == hdr + 1 + len(t.Bookings)
//@        && (forall k int :: {t.Bookings[k]} 0 <= k && k < len(t.Bookings) ==> tkind(hdr + 1 + k) == kind("printPosting") && targ("printPosting", 0, hdr + 1 + k) == t.Bookings[k])
//@   loop 1 invariant 0 <= $i && $i <= len($range) && tlen() == entry(tlen())
//@   loop 2 ghost hdr := entry(tlen()) - 1
//@   loop 2 invariant 0 <= $i && $i <= len($range) && $range == t.Bookings && tlen() == entry(tlen()) + $i
//@   loop 2 invariant forall k int :: {t.Bookings[k]} 0 <= k && k < $i ==> tkind(entry(tlen()) + k) == kind("printPosting") && targ("printPosting", 0, entry(tlen()) + k) == t.Bookings[k]
//
//
// The small directive printers: each writes ONE formatted item whose format string and arguments are
// fixed here - every argument is the text of the directive's own field (so nothing of the directive is
// dropped, swapped or re-encoded on the way to the formatter; what fmt does with a %s is trusted).
//@ func (*Printer).printOpen
//@   requires p != nil && prOpen(o)
//@   modifies p.count
//@   callback Fprintf=0
//@   ensures [C08] @format: tlen() == old(tlen()) + 1 && targ("Fprintf", 1, old(tlen())) == "%s open %s" && len(targ("Fprintf", 2, old(tlen()))) == 2
//@        && typeIs(targ("Fprintf", 2, old(tlen()))[0], "string") && dyn(targ("Fprintf", 2, old(tlen()))[0], "string") == o.Date.Range.Text[o.Date.Range.Start:o.Date.Range.End]
//@        && typeIs(targ("Fprintf", 2, old(tlen()))[1], "string") && dyn(targ("Fprintf", 2, old(tlen()))[1], "string") == o.Account.Range.Text[o.Account.Range.Start:o.Account.Range.End]
//
//@ func (*Printer).printClose
//@   requires p != nil && prClose(c)
//@   modifies p.count
//@   callback Fprintf=0
//@   ensures [C08] @format: tlen() == old(tlen()) + 1 && targ("Fprintf", 1, old(tlen())) == "%s close %s" && len(targ("Fprintf", 2, old(tlen()))) == 2
//@        && typeIs(targ("Fprintf", 2, old(tlen()))[0], "string") && dyn(targ("Fprintf", 2, old(tlen()))[0], "string") == c.Date.Range.Text[c.Date.Range.Start:c.Date.Range.End]
//@        && typeIs(targ("Fprintf", 2, old(tlen()))[1], "string") && dyn(targ("Fprintf", 2, old(tlen()))[1], "string") == c.Account.Range.Text[c.Account.Range.Start:c.Account.Range.End]
//
//@ func (*Printer).printPrice
//@   requires p != nil && prPrice(pr)
//@   modifies p.count
//@   callback Fprintf=0
//@   ensures [C08] @format: tlen() == old(tlen()) + 1 && targ("Fprintf", 1, old(tlen())) == "%s price %s %s %s" && len(targ("Fprintf", 2, old(tlen()))) == 4
//@        && typeIs(targ("Fprintf", 2, old(tlen()))[0], "string") && dyn(targ("Fprintf", 2, old(tlen()))[0], "string") == pr.Date.Range.Text[pr.Date.Range.Start:pr.Date.Range.End]
//@        && typeIs(targ("Fprintf", 2, old(tlen()))[1], "string") && dyn(targ("Fprintf", 2, old(tlen()))[1], "string") == pr.Commodity.Range.Text[pr.Commodity.Range.Start:pr.Commodity.Range.End]
//@        && typeIs(targ("Fprintf", 2, old(tlen()))[2], "string") && dyn(targ("Fprintf", 2, old(tlen()))[2], "string") == pr.Price.Range.Text[pr.Price.Range.Start:pr.Price.Range.End]
//@        && typeIs(targ("Fprintf", 2, old(tlen()))[3], "string") && dyn(targ("Fprintf", 2, old(tlen()))[3], "string") == pr.Target.Range.Text[pr.Target.Range.Start:pr.Target.Range.End]
//
//@ func (*Printer).printInclude
//@   requires p != nil && prInclude(i)
//@   modifies p.count
//@   callback Fprintf=0
//@   ensures [C08] @format: tlen() == old(tlen()) + 1 && targ("Fprintf", 1, old(tlen())) == "include \"%s\"" && len(targ("Fprintf", 2, old(tlen()))) == 1
//@        && typeIs(targ("Fprintf", 2, old(tlen()))[0], "string") && dyn(targ("Fprintf", 2, old(tlen()))[0], "string") == i.IncludePath.Content.Text[i.IncludePath.Content.Start:i.IncludePath.Content.End]
//
//@ func (*Printer).printAccrual
//@   requires p != nil && prAccrual(a)
//@   modifies p.count
//@   callback Fprintf=0
//@   ensures [C08] @format: tlen() == old(tlen()) + 1 && targ("Fprintf", 1, old(tlen())) == "@accrue %s %s %s %s\n" && len(targ("Fprintf", 2, old(tlen()))) == 4
//@        && typeIs(targ("Fprintf", 2, old(tlen()))[0], "string") && dyn(targ("Fprintf", 2, old(tlen()))[0], "string") == a.Interval.Range.Text[a.Interval.Range.Start:a.Interval.Range.End]
//@        && typeIs(targ("Fprintf", 2, old(tlen()))[1], "string") && dyn(targ("Fprintf", 2, old(tlen()))[1], "string") == a.Start.Range.Text[a.Start.Range.Start:a.Start.Range.End]
//@        && typeIs(targ("Fprintf", 2, old(tlen()))[2], "string") && dyn(targ("Fprintf", 2, old(tlen()))[2], "string") == a.End.Range.Text[a.End.Range.Start:a.End.Range.End]
//@        && typeIs(targ("Fprintf", 2, old(tlen()))[3], "string") && dyn(targ("Fprintf", 2, old(tlen()))[3], "string") == a.Account.Range.Text[a.Account.Range.Start:a.Account.Range.End]
//
//@ func (*Printer).printPosting
//@   requires p != nil && prBooking(t)
//@   modifies p.count
//@   callback Fprintf=0
//@   ensures [C08] @format: tlen() == old(tlen()) + 1 && targ("Fprintf", 1, old(tlen())) == "%-*s %-*s %10s %s" && len(targ("Fprintf", 2, old(tlen()))) == 6
//@        && typeIs(targ("Fprintf", 2, old(tlen()))[0], "int") && dyn(targ("Fprintf", 2, old(tlen()))[0], "int") == p.padding
//@        && typeIs(targ("Fprintf", 2, old(tlen()))[1], "string") && dyn(targ("Fprintf", 2, old(tlen()))[1], "string") == t.Credit.Range.Text[t.Credit.Range.Start:t.Credit.Range.End]
//@        && typeIs(targ("Fprintf", 2, old(tlen()))[2], "int") && dyn(targ("Fprintf", 2, old(tlen()))[2], "int") == p.padding
//@        && typeIs(targ("Fprintf", 2, old(tlen()))[3], "string") && dyn(targ("Fprintf", 2, old(tlen()))[3], "string") == t.Debit.Range.Text[t.Debit.Range.Start:t.Debit.Range.End]
//@        && typeIs(targ("Fprintf", 2, old(tlen()))[4], "string") && dyn(targ("Fprintf", 2, old(tlen()))[4], "string") == t.Quantity.Range.Text[t.Quantity.Range.Start:t.Quantity.Range.End]
//@        && typeIs(targ("Fprintf", 2, old(tlen()))[5], "string") && dyn(targ("Fprintf", 2, old(tlen()))[5], "string") == t.Commodity.Range.Text[t.Commodity.Range.Start:t.Commodity.Range.End]
//
//@ func (*Printer).printAssertion
//@   requires p != nil && prAssertion(a)
//@   modifies p.count
//@   loop 1 invariant 0 <= $i && $i <= len($range)
//
// printDirective dispatches on the directive's type to the printer of exactly that type, handing it the
// directive itself, and returns its result.
//@ func (*Printer).printDirective
//@   requires p != nil && renderable(directive)
//@   modifies p.count
//@   callback printTransaction=0
//@   callback printOpen=0
//@   callback printClose=0
//@   callback printAssertion=0
//@   callback printInclude=0
//@   callback printPrice=0
//@   ensures [C08] @printTransaction: typeIs(directive.Directive, "directives.Transaction") ==> tlen() == old(tlen()) + 1 && tkind(old(tlen())) == kind("printTransaction") && targ("printTransaction", 0, old(tlen())) == dyn(directive.Directive, "directives.Transaction") && result == tres("printTransaction", old(tlen()))
//@   ensures [C08] @printOpen: typeIs(directive.Directive, "directives.Open") ==> tlen() == old(tlen()) + 1 && tkind(old(tlen())) == kind("printOpen") && targ("printOpen", 0, old(tlen())) == dyn(directive.Directive, "directives.Open") && result == tres("printOpen", old(tlen()))
//@   ensures [C08] @printClose: typeIs(directive.Directive, "directives.Close") ==> tlen() == old(tlen()) + 1 && tkind(old(tlen())) == kind("printClose") && targ("printClose", 0, old(tlen())) == dyn(directive.Directive, "directives.Close") && result == tres("printClose", old(tlen()))
//@   ensures [C08] @printAssertion: typeIs(directive.Directive, "directives.Assertion") ==> tlen() == old(tlen()) + 1 && tkind(old(tlen())) == kind("printAssertion") && targ("printAssertion", 0, old(tlen())) == dyn(directive.Directive, "directives.Assertion") && result == tres("printAssertion", old(tlen()))
//@   ensures [C08] @printInclude: typeIs(directive.Directive, "directives.Include") ==> tlen() == old(tlen()) + 1 && tkind(old(tlen())) == kind("printInclude") && targ("printInclude", 0, old(tlen())) == dyn(directive.Directive, "directives.Include") && result == tres("printInclude", old(tlen()))
//@   ensures [C08] @printPrice: typeIs(directive.Directive, "directives.Price") ==> tlen() == old(tlen()) + 1 && tkind(old(tlen())) == kind("printPrice") && targ("printPrice", 0, old(tlen())) == dyn(directive.Directive, "directives.Price") && result == tres("printPrice", old(tlen()))
//
//@ func (*Printer).PrintDirective
//@   requires p != nil && renderable(directive)
//@   modifies p.count
//
// Initialize: the padding is at least the rune length of every credit and debit account of every
// transaction (so the columns of all bookings line up).
//@ func (*Printer).Initialize
//@   requires p != nil && (forall i int :: {directive[i]} 0 <= i && i < len(directive) ==> renderable(directive[i]))
//@   modifies p.padding
//@   ensures p.padding >= old(p.padding)
//@   loop 1 invariant 0 <= $i && $i <= len($range) && p.padding >= old(p.padding)
//@   loop 2 invariant 0 <= $i && $i <= len($range) && p.padding >= old(p.padding)
//
// Format: the output is gap_0, print(d_0), gap_1, ..., print(d_n-1), gap_n where gap_k is the text
// between the end of directive k-1 (or the start of the text) and the start of directive k (or the end
// of the text): every byte outside the directives is written exactly once, unchanged and in order,
// and every directive is printed exactly once in order.
//@ func (*Printer).Format
//@   requires p != nil && prFile(f)
//@   modifies p.count, p.padding
//@   callback Write=0
//@   callback PrintDirective=0
//@   ensures @cover: result == nil ==> tlen() == old(tlen()) + 2 * len(f.Directives) + 1
//@   ensures @gaps: result == nil ==> (forall k int :: {f.Directives[k]} 0 <= k && k < len(f.Directives) ==>
//@            strOf(targ("Write", 0, old(tlen()) + 2 * k)) == f.Text[(k == 0 ? 0 : f.Directives[k-1].End) : f.Directives[k].Start]
//@            && targ("PrintDirective", 0, old(tlen()) + 2 * k + 1) == f.Directives[k])
//@   ensures @tail: result == nil ==> strOf(targ("Write", 0, old(tlen()) + 2 * len(f.Directives))) == f.Text[(len(f.Directives) == 0 ? 0 : f.Directives[len(f.Directives)-1].End) : len(f.Text)]
//@   loop 1 invariant 0 <= $i && $i <= len($range) && tlen() == old(tlen()) + 2 * $i && 0 <= pos && pos <= len(text) && text == f.Text
//@   loop 1 invariant pos == ($i == 0 ? 0 : f.Directives[$i-1].End)
//@   loop 1 invariant forall k int :: {f.Directives[k]} 0 <= k && k < $i ==>
//@            strOf(targ("Write", 0, old(tlen()) + 2 * k)) == f.Text[(k == 0 ? 0 : f.Directives[k-1].End) : f.Directives[k].Start]
//@            && targ("PrintDirective", 0, old(tlen()) + 2 * k + 1) == f.Directives[k]
