//go:build verif

// Contracts for package parser (machine-checked by /verif/engine; comment-only file).
//
// Every parse function keeps the scanner invariant wf, never moves backwards, returns errors whose
// range lies in the text, and on success returns a node whose range is exactly [start, position]
// with all children inside it (the ok* predicates); loops carry the termination measure of the scanner.
package parser

// New: the parser works on exactly the text it is given - no normalisation, no stripping - starting at
// offset 0 (positions in the tree are byte offsets into the caller's text).
//@ func New
//@   modifies nothing
//@   ensures [C07] [C08] @verbatim: result != nil && fresh(result) && result.Scanner.text == text && result.Scanner.Path == path && result.Scanner.offset == 0 && result.Scanner.currentLen == 0 && result.Scanner.current == 0 && result.Callback == nil
//
//@ def node(r directives.Range, p *Parser, start int) bool := rangeIn(r, p.Scanner) && r.Start == start && r.End == p.offset
//@ def within(c directives.Range, r directives.Range) bool := r.Start <= c.Start && c.End <= r.End && c.Start <= c.End && c.Text == r.Text && c.Path == r.Path
//@ def scopeOf(s scanner.Scope, p *Parser) bool := s.Scanner == &p.Scanner && 0 <= s.Start && s.Start <= p.offset
//@ def before(c directives.Range, s scanner.Scope, p *Parser) bool := rangeIn(c, p.Scanner) && s.Start <= c.Start && c.End <= p.offset
//
//@ def okQuoted(q directives.QuotedString) bool := within(q.Content, q.Range)
//@ def okBooking(b directives.Booking) bool := within(b.Credit.Range, b.Range) && within(b.Debit.Range, b.Range)
//@     && within(b.Quantity.Range, b.Range) && within(b.Commodity.Range, b.Range)
//@ def okBalance(b directives.Balance) bool := within(b.Account.Range, b.Range) && within(b.Quantity.Range, b.Range) && within(b.Commodity.Range, b.Range)
//@ def okPerformance(x directives.Performance) bool := forall i int :: {x.Targets[i].Range.Start} 0 <= i && i < len(x.Targets) ==> within(x.Targets[i].Range, x.Range)
//@ def okAccrual(a directives.Accrual) bool := within(a.Interval.Range, a.Range) && within(a.Start.Range, a.Range)
//@     && within(a.End.Range, a.Range) && within(a.Account.Range, a.Range)
//@ def okAddons(a directives.Addons) bool :=
//@     (a.Performance.Range.Start != a.Performance.Range.End ==> within(a.Performance.Range, a.Range) && okPerformance(a.Performance))
//@     && (a.Accrual.Range.Start != a.Accrual.Range.End ==> within(a.Accrual.Range, a.Range) && okAccrual(a.Accrual))
//@ def okTransaction(t directives.Transaction) bool := within(t.Date.Range, t.Range) && within(t.Description.Range, t.Range) && okQuoted(t.Description)
//@     && (forall i int :: {t.Bookings[i].Range.Start} 0 <= i && i < len(t.Bookings) ==> within(t.Bookings[i].Range, t.Range) && okBooking(t.Bookings[i]))
//@     && (t.Addons.Range.Start != t.Addons.Range.End ==> within(t.Addons.Range, t.Range)) && okAddons(t.Addons)
//@ def okOpen(o directives.Open) bool := within(o.Date.Range, o.Range) && within(o.Account.Range, o.Range)
//@ def okClose(o directives.Close) bool := within(o.Date.Range, o.Range) && within(o.Account.Range, o.Range)
//@ def okAssertion(x directives.Assertion) bool := within(x.Date.Range, x.Range)
//@     && (forall i int :: {x.Balances[i].Range.Start} 0 <= i && i < len(x.Balances) ==> within(x.Balances[i].Range, x.Range) && okBalance(x.Balances[i]))
//@ def okPrice(x directives.Price) bool := within(x.Date.Range, x.Range) && within(x.Commodity.Range, x.Range)
//@     && within(x.Price.Range, x.Range) && within(x.Target.Range, x.Range)
//@ def okInclude(x directives.Include) bool := within(x.IncludePath.Range, x.Range) && okQuoted(x.IncludePath)
//
// ---- leaves -------------------------------------------------------------------------------------
//
//@ func (*Parser).parseCommodity
//@   requires wf(p.Scanner)
//@   modifies p.offset, p.current, p.currentLen
//@   ensures wf(p.Scanner) && p.offset >= old(p.offset)
//@   ensures errIn(result.1, p.Scanner)
//@   ensures result.1 == nil ==> node(result.0.Range, p, old(p.offset)) && measure(p.Scanner) < old(measure(p.Scanner))
//
//@ func (*Parser).parseDecimal
//@   requires wf(p.Scanner)
//@   modifies p.offset, p.current, p.currentLen
//@   ensures wf(p.Scanner) && p.offset >= old(p.offset)
//@   ensures errIn(result.1, p.Scanner)
//@   ensures result.1 == nil ==> node(result.0.Range, p, old(p.offset)) && measure(p.Scanner) < old(measure(p.Scanner))
//
//@ func (*Parser).parseAccount
//@   requires wf(p.Scanner)
//@   modifies p.offset, p.current, p.currentLen
//@   ensures wf(p.Scanner) && p.offset >= old(p.offset)
//@   ensures errIn(result.1, p.Scanner)
//@   ensures result.1 == nil ==> node(result.0.Range, p, old(p.offset)) && measure(p.Scanner) < old(measure(p.Scanner))
//@   loop 1 invariant wf(p.Scanner) && p.offset >= old(p.offset) && s.Start == old(p.offset) && s.Scanner == &p.Scanner
//@   loop 1 invariant measure(p.Scanner) < old(measure(p.Scanner))
//@   loop 1 decreases measure(p.Scanner)
//
//@ func (*Parser).parseDate
//@   requires wf(p.Scanner)
//@   modifies p.offset, p.current, p.currentLen
//@   ensures wf(p.Scanner) && p.offset >= old(p.offset)
//@   ensures errIn(result.1, p.Scanner)
//@   ensures result.1 == nil ==> node(result.0.Range, p, old(p.offset)) && measure(p.Scanner) < old(measure(p.Scanner))
//@   loop 1 invariant wf(p.Scanner) && p.offset >= old(p.offset) && s.Start == old(p.offset) && s.Scanner == &p.Scanner && 0 <= i
//@   loop 1 invariant measure(p.Scanner) <= old(measure(p.Scanner)) && (i > 0 ==> measure(p.Scanner) < old(measure(p.Scanner)))
//@   loop 1 decreases 4 - i
//@   loop 2 invariant wf(p.Scanner) && p.offset >= old(p.offset) && s.Start == old(p.offset) && s.Scanner == &p.Scanner
//@   loop 2 invariant measure(p.Scanner) < old(measure(p.Scanner))
//@   loop 2 decreases 2 - i
//@   loop 3 invariant wf(p.Scanner) && p.offset >= old(p.offset) && s.Start == old(p.offset) && s.Scanner == &p.Scanner
//@   loop 3 invariant measure(p.Scanner) < old(measure(p.Scanner))
//@   loop 3 decreases 2 - j
//
//@ func (*Parser).parseQuotedString
//@   requires wf(p.Scanner)
//@   modifies p.offset, p.current, p.currentLen
//@   ensures wf(p.Scanner) && p.offset >= old(p.offset)
//@   ensures errIn(result.1, p.Scanner)
//@   ensures result.1 == nil ==> node(result.0.Range, p, old(p.offset)) && okQuoted(result.0) && measure(p.Scanner) < old(measure(p.Scanner))
//
//@ func (*Parser).parseInterval
//@   requires wf(p.Scanner)
//@   modifies p.offset, p.current, p.currentLen
//@   ensures wf(p.Scanner) && p.offset >= old(p.offset)
//@   ensures errIn(result.1, p.Scanner)
//@   ensures result.1 == nil ==> node(result.0.Range, p, old(p.offset)) && measure(p.Scanner) < old(measure(p.Scanner))
//
//@ func (*Parser).readWhitespace1
//@   requires wf(p.Scanner)
//@   modifies p.offset, p.current, p.currentLen
//@   ensures wf(p.Scanner) && p.offset >= old(p.offset)
//@   ensures errIn(result.1, p.Scanner)
//@   ensures measure(p.Scanner) <= old(measure(p.Scanner))
//
//@ func (*Parser).readRestOfWhitespaceLine
//@   requires wf(p.Scanner)
//@   modifies p.offset, p.current, p.currentLen
//@   ensures wf(p.Scanner) && p.offset >= old(p.offset)
//@   ensures errIn(result.1, p.Scanner)
//@   ensures measure(p.Scanner) <= old(measure(p.Scanner))
//@   ensures result.1 == nil && old(p.current) != EOF ==> p.current == EOF || measure(p.Scanner) < old(measure(p.Scanner))
//
//@ func (*Parser).readComment
//@   requires wf(p.Scanner)
//@   modifies p.offset, p.current, p.currentLen
//@   ensures wf(p.Scanner) && p.offset >= old(p.offset)
//@   ensures errIn(result.1, p.Scanner)
//@   ensures result.1 == nil ==> measure(p.Scanner) < old(measure(p.Scanner))
//
// ---- composite nodes ------------------------------------------------------------------------------
//
//@ func (*Parser).parseBooking
//@   requires wf(p.Scanner)
//@   modifies p.offset, p.current, p.currentLen
//@   ensures wf(p.Scanner) && p.offset >= old(p.offset)
//@   ensures errIn(result.1, p.Scanner)
//@   ensures result.1 == nil ==> node(result.0.Range, p, old(p.offset)) && okBooking(result.0) && measure(p.Scanner) < old(measure(p.Scanner))
//
//@ func (*Parser).parseBalance
//@   requires wf(p.Scanner)
//@   modifies p.offset, p.current, p.currentLen
//@   ensures wf(p.Scanner) && p.offset >= old(p.offset)
//@   ensures errIn(result.1, p.Scanner)
//@   ensures result.1 == nil ==> node(result.0.Range, p, old(p.offset)) && okBalance(result.0) && measure(p.Scanner) < old(measure(p.Scanner))
//
//@ func (*Parser).parseInclude
//@   requires wf(p.Scanner)
//@   modifies p.offset, p.current, p.currentLen
//@   ensures wf(p.Scanner) && p.offset >= old(p.offset)
//@   ensures errIn(result.1, p.Scanner)
//@   ensures result.1 == nil ==> node(result.0.Range, p, old(p.offset)) && okInclude(result.0) && measure(p.Scanner) < old(measure(p.Scanner))
//
//@ func (*Parser).parseOpen
//@   requires wf(p.Scanner) && scopeOf(s, p) && before(date.Range, s, p)
//@   modifies p.offset, p.current, p.currentLen
//@   ensures wf(p.Scanner) && p.offset >= old(p.offset)
//@   ensures errIn(result.1, p.Scanner)
//@   ensures result.1 == nil ==> node(result.0.Range, p, s.Start) && okOpen(result.0) && measure(p.Scanner) < old(measure(p.Scanner))
//
//@ func (*Parser).parseClose
//@   requires wf(p.Scanner) && scopeOf(s, p) && before(date.Range, s, p)
//@   modifies p.offset, p.current, p.currentLen
//@   ensures wf(p.Scanner) && p.offset >= old(p.offset)
//@   ensures errIn(result.1, p.Scanner)
//@   ensures result.1 == nil ==> node(result.0.Range, p, s.Start) && okClose(result.0) && measure(p.Scanner) < old(measure(p.Scanner))
//
//@ func (*Parser).parsePrice
//@   requires wf(p.Scanner) && scopeOf(s, p) && before(date.Range, s, p)
//@   modifies p.offset, p.current, p.currentLen
//@   ensures wf(p.Scanner) && p.offset >= old(p.offset)
//@   ensures errIn(result.1, p.Scanner)
//@   ensures result.1 == nil ==> node(result.0.Range, p, s.Start) && okPrice(result.0) && measure(p.Scanner) < old(measure(p.Scanner))
//
//@ func (*Parser).parseAssertion
//@   requires wf(p.Scanner) && scopeOf(s, p) && before(date.Range, s, p)
//@   modifies p.offset, p.current, p.currentLen
//@   ensures wf(p.Scanner) && p.offset >= old(p.offset)
//@   ensures errIn(result.1, p.Scanner)
//@   ensures result.1 == nil ==> node(result.0.Range, p, s.Start) && okAssertion(result.0) && measure(p.Scanner) < old(measure(p.Scanner))
//@   ensures fresh(result.0.Balances)
//@   loop 1 invariant wf(p.Scanner) && p.offset >= old(p.offset) && s.Start == old(s.Start) && s.Scanner == &p.Scanner && assertion.Date == date
//@   loop 1 invariant fresh(assertion.Balances)
//@   loop 1 invariant forall i int :: {assertion.Balances[i].Range.Start} 0 <= i && i < len(assertion.Balances) ==>
//@        rangeIn(assertion.Balances[i].Range, p.Scanner) && s.Start <= assertion.Balances[i].Range.Start && assertion.Balances[i].Range.End <= p.offset && okBalance(assertion.Balances[i])
//@   loop 1 invariant measure(p.Scanner) <= old(measure(p.Scanner)) && (len(assertion.Balances) > 0 ==> measure(p.Scanner) < old(measure(p.Scanner)))
//@   loop 1 decreases measure(p.Scanner)
//
//@ func (*Parser).parsePerformance
//@   requires wf(p.Scanner)
//@   modifies p.offset, p.current, p.currentLen
//@   ensures wf(p.Scanner) && p.offset >= old(p.offset)
//@   ensures errIn(result.1, p.Scanner)
//@   ensures result.1 == nil ==> node(result.0.Range, p, old(p.offset)) && okPerformance(result.0) && measure(p.Scanner) < old(measure(p.Scanner))
//@   ensures rangeIn(result.0.Range, p.Scanner) && result.0.Range.Start == old(p.offset) && result.0.Range.End <= p.offset
//@   ensures fresh(result.0.Targets)
//@   loop 1 invariant wf(p.Scanner) && p.offset >= old(p.offset) && s.Start == old(p.offset) && s.Scanner == &p.Scanner
//@   loop 1 invariant fresh(perf.Targets) && measure(p.Scanner) < old(measure(p.Scanner))
//@   loop 1 invariant forall i int :: {perf.Targets[i]} 0 <= i && i < len(perf.Targets) ==>
//@        rangeIn(perf.Targets[i].Range, p.Scanner) && old(p.offset) <= perf.Targets[i].Range.Start && perf.Targets[i].Range.End <= p.offset
//@   loop 1 decreases measure(p.Scanner)
//
//@ func (*Parser).parseAccrual
//@   requires wf(p.Scanner)
//@   modifies p.offset, p.current, p.currentLen
//@   ensures wf(p.Scanner) && p.offset >= old(p.offset)
//@   ensures errIn(result.1, p.Scanner)
//@   ensures result.1 == nil ==> node(result.0.Range, p, old(p.offset)) && okAccrual(result.0) && measure(p.Scanner) < old(measure(p.Scanner))
//@   ensures rangeIn(result.0.Range, p.Scanner) && result.0.Range.Start == old(p.offset) && result.0.Range.End <= p.offset
//
//@ func (*Parser).parseTransaction
//@   requires wf(p.Scanner) && scopeOf(s, p) && before(date.Range, s, p)
//@   requires okAddons(addons) && (addons.Range.Start != addons.Range.End ==> before(addons.Range, s, p))
//@   modifies p.offset, p.current, p.currentLen
//@   ensures wf(p.Scanner) && p.offset >= old(p.offset)
//@   ensures errIn(result.1, p.Scanner)
//@   ensures result.1 == nil ==> node(result.0.Range, p, s.Start) && okTransaction(result.0) && measure(p.Scanner) < old(measure(p.Scanner))
//@   ensures fresh(result.0.Bookings)
//@   loop 1 invariant wf(p.Scanner) && p.offset >= old(p.offset) && s.Start == old(s.Start) && s.Scanner == &p.Scanner
//@   loop 1 invariant trx.Date == date && trx.Addons == addons && fresh(trx.Bookings)
//@   loop 1 invariant rangeIn(trx.Description.Range, p.Scanner) && s.Start <= trx.Description.Range.Start && trx.Description.Range.End <= p.offset && okQuoted(trx.Description)
//@   loop 1 invariant forall i int :: {trx.Bookings[i]} 0 <= i && i < len(trx.Bookings) ==>
//@        rangeIn(trx.Bookings[i].Range, p.Scanner) && s.Start <= trx.Bookings[i].Range.Start && trx.Bookings[i].Range.End <= p.offset && okBooking(trx.Bookings[i])
//@   loop 1 invariant measure(p.Scanner) < old(measure(p.Scanner))
//@   loop 1 decreases measure(p.Scanner)
//
//@ func (*Parser).parseAddons
//@   requires wf(p.Scanner)
//@   modifies p.offset, p.current, p.currentLen
//@   ensures wf(p.Scanner) && p.offset >= old(p.offset)
//@   ensures errIn(result.1, p.Scanner)
//@   ensures [C07] @cause: result.1 != nil ==> errIn(dyn(result.1, "directives.Error").Wrapped, p.Scanner)
//@   ensures result.1 == nil ==> node(result.0.Range, p, old(p.offset)) && okAddons(result.0) && measure(p.Scanner) < old(measure(p.Scanner))
//@   loop 1 invariant wf(p.Scanner) && p.offset >= old(p.offset) && s.Start == old(p.offset) && s.Scanner == &p.Scanner
//@   loop 1 invariant measure(p.Scanner) <= old(measure(p.Scanner))
//@   loop 1 invariant addons.Performance.Range.Start != addons.Performance.Range.End ==> rangeIn(addons.Performance.Range, p.Scanner)
//@        && s.Start <= addons.Performance.Range.Start && addons.Performance.Range.End <= p.offset && okPerformance(addons.Performance)
//@        && measure(p.Scanner) < old(measure(p.Scanner))
//@   loop 1 invariant addons.Accrual.Range.Start != addons.Accrual.Range.End ==> rangeIn(addons.Accrual.Range, p.Scanner)
//@        && s.Start <= addons.Accrual.Range.Start && addons.Accrual.Range.End <= p.offset && okAccrual(addons.Accrual)
//@        && measure(p.Scanner) < old(measure(p.Scanner))
//@   loop 1 decreases measure(p.Scanner)
//
//@ def okDirective(d directives.Directive) bool :=
//@     (typeIs(d.Directive, "directives.Open") ==> within(dyn(d.Directive, "directives.Open").Range, d.Range) && okOpen(dyn(d.Directive, "directives.Open")))
//@     && (typeIs(d.Directive, "directives.Close") ==> within(dyn(d.Directive, "directives.Close").Range, d.Range) && okClose(dyn(d.Directive, "directives.Close")))
//@     && (typeIs(d.Directive, "directives.Price") ==> within(dyn(d.Directive, "directives.Price").Range, d.Range) && okPrice(dyn(d.Directive, "directives.Price")))
//@     && (typeIs(d.Directive, "directives.Assertion") ==> within(dyn(d.Directive, "directives.Assertion").Range, d.Range) && okAssertion(dyn(d.Directive, "directives.Assertion")))
//@     && (typeIs(d.Directive, "directives.Include") ==> within(dyn(d.Directive, "directives.Include").Range, d.Range) && okInclude(dyn(d.Directive, "directives.Include")))
//@     && (typeIs(d.Directive, "directives.Transaction") ==> within(dyn(d.Directive, "directives.Transaction").Range, d.Range) && okTransaction(dyn(d.Directive, "directives.Transaction")))
//@     && (d.Directive == nil || typeIs(d.Directive, "directives.Open") || typeIs(d.Directive, "directives.Close") || typeIs(d.Directive, "directives.Price")
//@         || typeIs(d.Directive, "directives.Assertion") || typeIs(d.Directive, "directives.Include") || typeIs(d.Directive, "directives.Transaction"))
//
//@ func (*Parser).parseDirective
//@   requires wf(p.Scanner)
//@   modifies p.offset, p.current, p.currentLen
//@   ensures wf(p.Scanner) && p.offset >= old(p.offset)
//@   ensures errIn(result.1, p.Scanner)
//@   ensures result.1 == nil ==> node(result.0.Range, p, old(p.offset)) && okDirective(result.0) && measure(p.Scanner) < old(measure(p.Scanner))
//@   ensures @ownbookings: result.1 == nil && typeIs(result.0.Directive, "directives.Transaction") ==> fresh(dyn(result.0.Directive, "directives.Transaction").Bookings) && live(dyn(result.0.Directive, "directives.Transaction").Bookings)
//
// The file: directives in increasing order, pairwise disjoint, each inside the file range with all
// children inside it; on success the whole remaining text has been consumed (the file range ends at
// the end of the text).
//@ def okFile(f directives.File) bool :=
//@     (forall i int :: {f.Directives[i]} 0 <= i && i < len(f.Directives) ==> within(f.Directives[i].Range, f.Range) && okDirective(f.Directives[i]))
//@     && (forall i int :: {f.Directives[i]} 0 < i && i < len(f.Directives) ==> f.Directives[i-1].Range.End <= f.Directives[i].Range.Start)
//
// ownBookings: the booking arrays of the transactions of a file were allocated by this parse (nothing
// that existed before shares memory with them).
//@ def ownBookings(f directives.File) bool := forall i int :: {f.Directives[i]} 0 <= i && i < len(f.Directives) && typeIs(f.Directives[i].Directive, "directives.Transaction")
//@         ==> fresh(dyn(f.Directives[i].Directive, "directives.Transaction").Bookings) && live(dyn(f.Directives[i].Directive, "directives.Transaction").Bookings)
//@ def apartBookings(f directives.File) bool := forall i int, j int :: {f.Directives[i], f.Directives[j]} 0 <= i && i < j && j < len(f.Directives)
//@         && typeIs(f.Directives[i].Directive, "directives.Transaction") && typeIs(f.Directives[j].Directive, "directives.Transaction")
//@         ==> len(dyn(f.Directives[i].Directive, "directives.Transaction").Bookings) == 0 || len(dyn(f.Directives[j].Directive, "directives.Transaction").Bookings) == 0
//@             || obj(dyn(f.Directives[i].Directive, "directives.Transaction").Bookings) != obj(dyn(f.Directives[j].Directive, "directives.Transaction").Bookings)
//@ func (*Parser).ParseFile
//@   requires wf(p.Scanner)
//@   callback Callback
//@   modifies p.offset, p.current, p.currentLen
//@   ensures wf(p.Scanner) && p.offset >= old(p.offset)
//@   ensures errIn(result.1, p.Scanner)
//@   ensures result.1 == nil ==> node(result.0.Range, p, old(p.offset)) && p.current == EOF && result.0.Range.End == len(p.text)
//@   ensures @tree: result.1 == nil ==> okFile(result.0)
//@   ensures @own: result.1 == nil ==> fresh(result.0.Directives) && ownBookings(result.0) && apartBookings(result.0)
//@   loop 1 invariant wf(p.Scanner) && p.offset >= old(p.offset) && s.Start == old(p.offset) && s.Scanner == &p.Scanner && fresh(file.Directives)
//@   loop 1 invariant ownBookings(file) && apartBookings(file)
//@   loop 1 invariant forall i int :: {file.Directives[i]} 0 <= i && i < len(file.Directives) ==>
//@        rangeIn(file.Directives[i].Range, p.Scanner) && s.Start <= file.Directives[i].Range.Start && file.Directives[i].Range.End <= p.offset && okDirective(file.Directives[i])
//@   loop 1 invariant forall i int :: {file.Directives[i]} 0 < i && i < len(file.Directives) ==> file.Directives[i-1].Range.End <= file.Directives[i].Range.Start
//@   loop 1 decreases measure(p.Scanner)
