//go:build verif

// Contracts for package syntax (machine-checked by /verif/engine; comment-only file).
package syntax

// ParseFile: on success the tree satisfies the parser's file invariant and spans the text from its
// first byte - which is exactly what the formatter requires.
//@ func ParseFile
//@   modifies nothing
//@   ensures result.1 == nil ==> okFile(result.0) && inText(result.0.Range) && result.0.Range.Start == 0 && result.0.Range.End == len(result.0.Range.Text)
//@   ensures @printable: result.1 == nil ==> prFile(result.0)
//@   ensures @own: result.1 == nil ==> fresh(result.0.Directives) && ownBookings(result.0) && apartBookings(result.0)
//@   callback ReadFile=0
//@   callback New=1
//@   ensures [C08] [C18] [C07] @read: tlen() >= old(tlen()) + 1 && tkind(old(tlen())) == kind("ReadFile") && targ("ReadFile", 0, old(tlen())) == file
//@   ensures [C08] [C18] [C07] @two: result.1 == nil ==> tlen() == old(tlen()) + 2
//@   ensures [C08] [C18] [C07] @verbatim: result.1 == nil ==> targ("New", 0, old(tlen()) + 1) == textOf(tres("ReadFile", old(tlen()))) && targ("New", 1, old(tlen()) + 1) == file
//@   ensures [C08] [C18] [C07] @text: result.1 == nil ==> result.0.Range.Text == textOf(tres("ReadFile", old(tlen())))
//
// FormatFile always formats - whatever the number of directives (a file of comments only is copied
// verbatim by Format's tail gap).
//@ func FormatFile
//@   requires prFile(f)
//@   callback Format=0
//@   ensures [C08] [C18] @always: tlen() == old(tlen()) + 1 && targ("Format", 0, old(tlen())) == f && result == tres("Format", old(tlen()))
//
// The include callback of the recursive loader: the path of an included file is the include text joined
// to the DIRECTORY OF THE INCLUDING FILE (not of the root journal, not the working directory); other
// directives start nothing. (The loader itself - goroutines, channels, errgroup - is outside the
// verified subset; this closure is its only sequential decision.)
// onChain (C14): the sequential decision of the include-cycle guard - is this file one of the files on the way
// from the root journal to the file being loaded. (That the loader consults it before reading, and terminates,
// is exercised by the bounded stand-in include-cycles only: goroutines.)
//@ func onChain
//@   modifies nothing
//@   ensures [C14] @member: result <==> (exists i int :: 0 <= i && i < len(chain) && chain[i] == file)
//@   loop 1 invariant 0 <= $i && $i <= len(chain)
//@   loop 1 invariant forall k int :: {chain[k]} 0 <= k && k < $i ==> chain[k] != file
//@   loop 1 decreases len(chain) - $i
//
//@ func parseRec$1
//@   requires inText(d.Range) && okDirective(d)
//@   modifies *
//@   callback Dir=0
//@   callback Join=0
//@   callback Go=0
//@   ensures [C05] @relative: typeIs(d.Directive, "directives.Include") ==> tlen() == old(tlen()) + 3
//@        && targ("Dir", 0, old(tlen())) == file && len(targ("Join", 0, old(tlen()) + 1)) == 2 && targ("Join", 0, old(tlen()) + 1)[0] == tres("Dir", old(tlen()))
//@   ensures [C05] @others: !typeIs(d.Directive, "directives.Include") ==> tlen() == old(tlen())
