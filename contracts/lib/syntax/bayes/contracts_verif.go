//go:build verif

// Contracts for package bayes (machine-checked by /verif/engine; comment-only file).
package bayes

// The score of a candidate is a function of the (unchanged) model, the candidate and the token set;
// the floating point computation itself is outside the verified set (trusted, floats as reals).
//@ spec candScore(m *Model, candidate string, tokens mapref) float64
//@ func (*Model).scoreCandidate
//@   trusted
//@   modifies nothing
//@   ensures result == candScore(m, candidate, tokens) && result > neginf()
//
//@ func tokenize
//@   trusted
//@   modifies nothing
//@   ensures fresh(result) && result != nil
//
// inferAccount: the chosen account is a key of the training model, differs from the other account of
// the booking, has the maximal score and - among candidates of maximal score - the smallest name (so
// the choice does not depend on map iteration order); it is returned as a synthetic range over its own
// text. Without any candidate the result is the empty range.
//@ def cand(m *Model, c string, other string) bool := (c in m.countByAccount) && c != other
//@ func (*Model).inferAccount
//@   requires m != nil && t != nil && b != nil && m.countByAccount != nil
//@   modifies nothing
//@   callback tokenize=0
//@   ensures [C15] @range: result.Range.Start == 0 && result.Range.End == len(result.Range.Text) && !result.Macro
//@   ensures [C15] @nocand: (forall c string :: {key(m.countByAccount, c)} !cand(m, c, other)) ==> result.Range.End == 0
//@   ensures [C15] @member: (exists c string :: cand(m, c, other)) ==> cand(m, result.Range.Text, other)
//@   ensures [C15] [C06] @best: forall c string :: {key(m.countByAccount, c)} cand(m, c, other) && c != result.Range.Text ==>
//@        candScore(m, c, tres("tokenize", old(tlen()))) < candScore(m, result.Range.Text, tres("tokenize", old(tlen())))
//@        || (candScore(m, c, tres("tokenize", old(tlen()))) == candScore(m, result.Range.Text, tres("tokenize", old(tlen()))) && result.Range.Text < c)
//@   loop 1 invariant tlen() == old(tlen()) + 1 && tokens == tres("tokenize", old(tlen()))
//@   loop 1 invariant (forall c string :: {$seen[c]} $seen[c] ==> !cand(m, c, other)) ==> best == "" && max == neginf()
//@   loop 1 invariant (exists c string :: $seen[c] && cand(m, c, other)) ==> $seen[best] && cand(m, best, other) && max == candScore(m, best, tokens)
//@   loop 1 invariant [C15] [C06] @tie: forall c string :: {$seen[c]} $seen[c] && cand(m, c, other) && c != best ==>
//@        candScore(m, c, tokens) < candScore(m, best, tokens) || (candScore(m, c, tokens) == candScore(m, best, tokens) && best < c)
//
// Infer: only accounts that equal the placeholder are replaced; every other field of every booking, and
// a placeholder for which the model has no candidate, stays as it was; a replaced account is printable.
//@ def acctText(a directives.Account) string := a.Range.Text[a.Range.Start:a.Range.End]
//@ func (*Model).Infer
//@   requires m != nil && t != nil && m.countByAccount != nil && (forall i int :: {t.Bookings[i].Range.Start} 0 <= i && i < len(t.Bookings) ==> prBooking(t.Bookings[i]))
//@   modifies t.Bookings[*]
//@   ensures [C15] @printable: forall i int :: {t.Bookings[i].Range.Start} 0 <= i && i < len(t.Bookings) ==> prBooking(t.Bookings[i])
//@   ensures [C15] @only: forall i int :: {t.Bookings[i].Range.Start} 0 <= i && i < len(t.Bookings) ==>
//@        t.Bookings[i].Range == old(t.Bookings[i].Range) && t.Bookings[i].Quantity == old(t.Bookings[i].Quantity) && t.Bookings[i].Commodity == old(t.Bookings[i].Commodity)
//@        && (old(t.Bookings[i].Credit.Range.Text[t.Bookings[i].Credit.Range.Start:t.Bookings[i].Credit.Range.End]) != m.account ==> t.Bookings[i].Credit == old(t.Bookings[i].Credit))
//@        && (old(t.Bookings[i].Debit.Range.Text[t.Bookings[i].Debit.Range.Start:t.Bookings[i].Debit.Range.End]) != m.account ==> t.Bookings[i].Debit == old(t.Bookings[i].Debit))
//@   ensures [C15] @nonempty: forall i int :: {t.Bookings[i].Range.Start} 0 <= i && i < len(t.Bookings) ==>
//@        (t.Bookings[i].Credit != old(t.Bookings[i].Credit) ==> t.Bookings[i].Credit.Range.End > 0) && (t.Bookings[i].Debit != old(t.Bookings[i].Debit) ==> t.Bookings[i].Debit.Range.End > 0)
//@   ensures [C15] @differs: forall i int :: {t.Bookings[i].Range.Start} 0 <= i && i < len(t.Bookings) ==>
//@        (t.Bookings[i].Credit != old(t.Bookings[i].Credit) || t.Bookings[i].Debit != old(t.Bookings[i].Debit)) ==> acctText(t.Bookings[i].Credit) != acctText(t.Bookings[i].Debit)
//@   loop 1 invariant [C15] @differs: forall i int :: {t.Bookings[i].Range.Start} 0 <= i && i < $i ==>
//@        (t.Bookings[i].Credit != old(t.Bookings[i].Credit) || t.Bookings[i].Debit != old(t.Bookings[i].Debit)) ==> acctText(t.Bookings[i].Credit) != acctText(t.Bookings[i].Debit)
//@   loop 1 invariant 0 <= $i && $i <= len(t.Bookings) && len(t.Bookings) == old(len(t.Bookings)) && t.Bookings == old(t.Bookings)
//@   loop 1 invariant forall i int :: {t.Bookings[i].Range.Start} 0 <= i && i < len(t.Bookings) ==> prBooking(t.Bookings[i])
//@   loop 1 invariant forall i int :: {t.Bookings[i].Range.Start} $i <= i && i < len(t.Bookings) ==> t.Bookings[i] == old(t.Bookings[i])
//@   loop 1 invariant forall i int :: {t.Bookings[i].Range.Start} 0 <= i && i < $i ==>
//@        t.Bookings[i].Range == old(t.Bookings[i].Range) && t.Bookings[i].Quantity == old(t.Bookings[i].Quantity) && t.Bookings[i].Commodity == old(t.Bookings[i].Commodity)
//@   loop 1 invariant forall i int :: {t.Bookings[i].Range.Start} 0 <= i && i < $i ==>
//@        (old(t.Bookings[i].Credit.Range.Text[t.Bookings[i].Credit.Range.Start:t.Bookings[i].Credit.Range.End]) != m.account ==> t.Bookings[i].Credit == old(t.Bookings[i].Credit))
//@        && (old(t.Bookings[i].Debit.Range.Text[t.Bookings[i].Debit.Range.Start:t.Bookings[i].Debit.Range.End]) != m.account ==> t.Bookings[i].Debit == old(t.Bookings[i].Debit))
//@   loop 1 invariant [C15] @nonempty: forall i int :: {t.Bookings[i].Range.Start} 0 <= i && i < $i ==>
//@        (t.Bookings[i].Credit != old(t.Bookings[i].Credit) ==> t.Bookings[i].Credit.Range.End > 0) && (t.Bookings[i].Debit != old(t.Bookings[i].Debit) ==> t.Bookings[i].Debit.Range.End > 0)
