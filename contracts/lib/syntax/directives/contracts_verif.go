//go:build verif

// Contracts for package directives (machine-checked by /verif/engine; comment-only file).
package directives

// A range can be rendered (location, context lines) whenever it lies inside its own text.
//@ def inText(r Range) bool := 0 <= r.Start && r.Start <= r.End && r.End <= len(r.Text)
//
//@ func (Range).Extract
//@   requires inText(r)
//@   ensures len(result) == r.End - r.Start && result == r.Text[r.Start:r.End]
//
//@ func (Range).Location
//@   ensures result.Line >= 1 && result.Col >= 1
//@   loop 1 invariant loc.Line >= 1 && loc.Col >= 1 && loc.Line <= $pos + 1 && loc.Col <= $pos + 1 && 0 <= $pos && $pos <= len(r.Text)
//
//@ func (Range).firstOfLine
//@   requires 0 <= pos && pos <= len(r.Text)
//@   ensures 0 <= result && result <= pos
//@   loop 1 invariant 0 <= pos && pos <= old(pos)
//@   loop 1 decreases pos
//
//@ func (Range).lastOfLine
//@   requires 0 <= pos && pos <= len(r.Text)
//@   ensures pos <= result && result <= len(r.Text)
//@   loop 1 invariant old(pos) <= pos && pos <= len(r.Text)
//@   loop 1 decreases len(r.Text) - pos
//
//@ func (Range).Context
//@   requires inText(r) && previous <= 1000000
//@   ensures true
//@   loop 1 invariant 0 <= start && start <= r.Start && 0 <= i
//@   loop 1 decreases previous + 1 - i
//
// Rendering an error never panics, whatever its range is (Location only iterates over the text).
//@ func (Error).Error
//@   ensures true
//
// Extend widens a range to the smallest range covering both.
//@ func (*Range).Extend
//@   modifies r.Start, r.End
//@   ensures r.Start == (old(r.Start) > r2.Start ? r2.Start : old(r.Start))
//@   ensures r.End == (old(r.End) < r2.End ? r2.End : old(r.End))
