//go:build verif

// Contracts for package scanner (machine-checked by /verif/engine; comment-only file).
package scanner

// Representation invariant of the scanner and the termination measure of its loops.
//
//@ def wf(s *Scanner) bool := 0 <= s.offset && 0 <= s.currentLen && s.offset + s.currentLen <= len(s.text)
//@     && (s.current == EOF ==> s.currentLen == 0 && s.offset == len(s.text))
//@ def measure(s *Scanner) int := 2 * (len(s.text) - s.offset) + ((s.currentLen == 0 && s.current != EOF) ? 1 : 0)
//@ def rangeIn(r Range, s *Scanner) bool := 0 <= r.Start && r.Start <= r.End && r.End <= len(s.text) && r.Text == s.text && r.Path == s.Path
//@ def errIn(e error, s *Scanner) bool := e != nil ==> typeIs(e, "directives.Error") && rangeIn(dyn(e, "directives.Error").Range, s) && fresh(e)
//
// Annotate wraps an error: the result is an error over the scope's own range that carries the given
// error, unchanged, as its cause.
//@ func (Scope).Annotate
//@   requires s.Scanner != nil
//@   modifies nothing
//@   ensures typeIs(result, "directives.Error") && result != nil && fresh(result)
//@   ensures dyn(result, "directives.Error").Range.Start == s.Start && dyn(result, "directives.Error").Range.End == s.Scanner.offset
//@        && dyn(result, "directives.Error").Range.Text == s.Scanner.text && dyn(result, "directives.Error").Range.Path == s.Scanner.Path
//@   ensures dyn(result, "directives.Error").Wrapped == err
//
//@ func (*Scanner).Advance
//@   requires wf(s)
//@   modifies s.offset, s.current, s.currentLen
//@   ensures wf(s) && s.offset == old(s.offset) + old(s.currentLen)
//@   ensures errIn(result, s)
//@   ensures result == nil && old(s.current) != EOF ==> measure(s) < old(measure(s))
//@   ensures old(s.current) == EOF ==> result != nil
//@   ensures old(s.current) != EOF ==> measure(s) <= old(measure(s))
//@   ensures result == nil ==> s.current == EOF || s.currentLen >= 1
//
//@ func (*Scanner).Backtrack
//@   requires wf(s) && 0 <= offset && offset <= len(s.text)
//@   modifies s.offset, s.current, s.currentLen
//@   ensures wf(s) && s.offset == offset && s.current != EOF && (offset < len(s.text) ==> s.currentLen >= 1)
//
//@ func (*Scanner).ReadWhile
//@   requires wf(s)
//@   pure pred
//@   modifies s.offset, s.current, s.currentLen
//@   ensures wf(s) && s.offset >= old(s.offset)
//@   ensures rangeIn(result.0, s) && result.0.Start == old(s.offset) && result.0.End == s.offset
//@   ensures errIn(result.1, s)
//@   ensures result.1 == nil ==> s.current == EOF || !pred(s.current)
//@   ensures measure(s) <= old(measure(s))
//@   loop 1 invariant wf(s) && s.offset >= old(s.offset) && sc.Start == old(s.offset) && sc.Scanner == s
//@   loop 1 invariant measure(s) <= old(measure(s)) && (measure(s) == old(measure(s)) ==> s.current == old(s.current) && s.currentLen == old(s.currentLen) && s.offset == old(s.offset))
//@   loop 1 decreases measure(s)
//
//@ func (*Scanner).ReadWhile1
//@   requires wf(s)
//@   pure pred
//@   modifies s.offset, s.current, s.currentLen
//@   ensures wf(s) && s.offset >= old(s.offset)
//@   ensures rangeIn(result.0, s) && result.0.Start == old(s.offset) && result.0.End == s.offset
//@   ensures errIn(result.1, s)
//@   ensures result.1 == nil ==> (s.current == EOF || !pred(s.current)) && old(s.current) != EOF && pred(old(s.current))
//@   ensures result.1 == nil ==> measure(s) < old(measure(s))
//@   loop 1 invariant wf(s) && s.offset >= old(s.offset) && sc.Start == old(s.offset) && sc.Scanner == s
//@   loop 1 invariant measure(s) <= old(measure(s)) && (measure(s) == old(measure(s)) ==> s.current == old(s.current) && s.currentLen == old(s.currentLen) && s.offset == old(s.offset))
//@   loop 1 decreases measure(s)
//
//@ func (*Scanner).ReadUntil
//@   requires wf(s)
//@   pure pred
//@   modifies s.offset, s.current, s.currentLen
//@   ensures wf(s) && s.offset >= old(s.offset)
//@   ensures rangeIn(result.0, s) && result.0.Start == old(s.offset) && result.0.End == s.offset
//@   ensures errIn(result.1, s)
//@   ensures result.1 == nil ==> pred(s.current)
//@   loop 1 invariant wf(s) && s.offset >= old(s.offset) && sc.Start == old(s.offset) && sc.Scanner == s
//@   loop 1 decreases measure(s)
//
//@ func (*Scanner).ReadCharacter
//@   requires wf(s)
//@   modifies s.offset, s.current, s.currentLen
//@   ensures wf(s) && s.offset >= old(s.offset)
//@   ensures rangeIn(result.0, s) && result.0.Start == old(s.offset) && result.0.End == s.offset
//@   ensures errIn(result.1, s)
//@   ensures result.1 == nil ==> old(s.current) == r && old(s.current) != EOF && measure(s) < old(measure(s))
//@   ensures measure(s) <= old(measure(s))
//
//@ func (*Scanner).ReadCharacterWith
//@   requires wf(s)
//@   pure pred
//@   modifies s.offset, s.current, s.currentLen
//@   ensures wf(s) && s.offset >= old(s.offset)
//@   ensures rangeIn(result.0, s) && result.0.Start == old(s.offset) && result.0.End == s.offset
//@   ensures errIn(result.1, s)
//@   ensures result.1 == nil ==> pred(old(s.current)) && old(s.current) != EOF && measure(s) < old(measure(s))
//@   ensures measure(s) <= old(measure(s))
//
//@ func (*Scanner).ReadString
//@   requires wf(s)
//@   modifies s.offset, s.current, s.currentLen
//@   ensures wf(s) && s.offset >= old(s.offset)
//@   ensures rangeIn(result.0, s) && result.0.Start == old(s.offset) && result.0.End == s.offset
//@   ensures errIn(result.1, s)
//@   ensures result.1 == nil && len(str) > 0 ==> measure(s) < old(measure(s))
//@   ensures measure(s) <= old(measure(s))
//@   loop 1 invariant wf(s) && s.offset >= old(s.offset) && sc.Start == old(s.offset) && sc.Scanner == s
//@   loop 1 invariant measure(s) <= old(measure(s)) && ($pos > 0 ==> measure(s) < old(measure(s)))
//
//@ func (*Scanner).ReadAlternative
//@   requires wf(s)
//@   requires forall i int :: {ss[i]} 0 <= i && i < len(ss) ==> len(ss[i]) > 0
//@   modifies s.offset, s.current, s.currentLen
//@   ensures wf(s) && s.offset >= old(s.offset)
//@   ensures rangeIn(result.0, s) && result.0.Start == old(s.offset) && result.0.End == s.offset
//@   ensures errIn(result.1, s)
//@   ensures result.1 == nil ==> old(s.current) != EOF && measure(s) < old(measure(s))
//@   ensures measure(s) <= old(measure(s))
//@   loop 1 invariant wf(s) && s.offset == old(s.offset) && sc.Start == old(s.offset) && sc.Scanner == s && old(s.current) != EOF
//@   loop 1 invariant measure(s) <= old(measure(s))
//
//@ func (*Scanner).ReadN
//@   requires wf(s)
//@   modifies s.offset, s.current, s.currentLen
//@   ensures wf(s) && s.offset >= old(s.offset)
//@   ensures rangeIn(result.0, s) && result.0.Start == old(s.offset) && result.0.End == s.offset
//@   ensures errIn(result.1, s)
//@   loop 1 invariant wf(s) && s.offset >= old(s.offset) && sc.Start == old(s.offset) && sc.Scanner == s
//@   loop 1 decreases n - i
//
//@ func format
//@   ensures true
