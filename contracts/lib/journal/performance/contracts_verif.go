//go:build verif

// Contracts for package performance (machine-checked by /verif/engine; comment-only file).
// float64 values are treated as real numbers (listed assumption): rounding of floating point sums and
// products is outside what these contracts decide.
package performance

// Loading the universe reads a YAML file (external decoder): trusted to touch only the commodity registry.
//@ func LoadUniverseFromFile
//@   trusted
//@   requires wfCommodities(reg)
//@   modifies reg.index[*]
//@   ensures wfCommodities(reg)
//
// fromYAML (verified): the registry stays well formed; every listed commodity is classified exactly
// once - each completed inner iteration adds one NEW key (ghost counter `writes`), so a commodity listed
// twice, in the same class or in two classes, is an error whatever order the map of classes is ranged in.
//@ func fromYAML
//@   requires wfCommodities(reg)
//@   modifies reg.index[*]
//@   ensures wfCommodities(reg)
//@   ensures result.1 == nil ==> result.0 != nil && fresh(result.0)
//@   ghost writes int = 0
//@   loop 2 ghost-end writes := writes + 1
//@   loop 1 invariant wfCommodities(reg) && universe != nil && fresh(universe)
//@   loop 1 invariant [C06] @once: len(universe) == writes
//@   loop 2 invariant wfCommodities(reg) && universe != nil && fresh(universe)
//@   loop 2 invariant [C06] @once: len(universe) == writes
//
// The daily performance factor: with v0/v1 the sums of the values at the start/end of the day, inflow
// and outflow the external flows of the day (outflows are negative numbers):
//     perf = 1                                  if nothing changed and nothing flowed
//     perf = 1                                  if start value + inflow = 0 and end value - outflow = 0 (only flows on an empty base)
//     perf = (v1 - outflow) / (v0 + inflow)     otherwise
// Ghosts s0, s1, fin, fout are the sums the four loops compute (running sums over the maps); only EXTERNAL
// flows enter: the portfolio-level effects of `@performance()` transactions are part of v1, not flows.
//@ def perfOf(v0 float64, v1 float64, inflow float64, outflow float64) float64 := (v0 == v1 && inflow == 0.0 && outflow == 0.0) ? 1.0
//@     : ((v0 + inflow == 0.0 && v1 - outflow == 0.0) ? 1.0 : (v1 - outflow) / (v0 + inflow))
//@ func Performance
//@   requires dpv != nil
//@   modifies nothing
//@   ghost s0 real = 0.0
//@   ghost s1 real = 0.0
//@   ghost fin real = 0.0
//@   ghost fout real = 0.0
//@   loop 1 ghost-end s0 := v0
//@   loop 2 ghost-end s1 := v1
//@   loop 3 ghost-end fin := inflow
//@   loop 4 ghost-end fout := outflow
//@   ensures [C20] @formula: result == perfOf(s0, s1, fin, fout)
//@   ensures [C20] @noflows: len(dpv.Inflow) == 0 && len(dpv.Outflow) == 0 && s0 != s1 ==> result == s1 / s0
//@   loop 1 invariant s0 == v0 && s1 == 0.0 && fin == 0.0 && fout == 0.0
//@   loop 2 invariant s0 == v0 && s1 == v1 && fin == 0.0 && fout == 0.0
//@   loop 3 invariant s0 == v0 && s1 == v1 && fin == inflow && fout == 0.0 && (len(dpv.Inflow) == 0 ==> inflow == 0.0)
//@   loop 4 invariant s0 == v0 && s1 == v1 && fin == inflow && fout == outflow && (len(dpv.Outflow) == 0 ==> outflow == 0.0) && (len(dpv.Inflow) == 0 ==> inflow == 0.0)
//
// The factor is 1 (a return of 0%) when prices are unchanged and the value only changed by external
// deposits and withdrawals (v1 = v0 + inflow + outflow), and end value over start value without flows.
// (perf_flow_only carries NO side condition: the statement promises 0% for every flow-only period, also
// for a withdrawal from an empty portfolio or a deposit that exactly settles a negative one, where start
// value plus inflow is zero.)
//@ lemma perf_flow_only [C20]: forall v0 float64, fin float64, fout float64 :: perfOf(v0, v0 + fin + fout, fin, fout) == 1.0
//@ lemma perf_no_flow [C20]: forall v0 float64, v1 float64 :: v0 != v1 ==> perfOf(v0, v1, 0.0, 0.0) == v1 / v0
//
// Perf (day end): days outside the reporting window AND days before the first reported period (with
// --last n the partition shows only the last n periods of the window) are ignored; inside, the running product is
// multiplied by the day's factor; on a period end day the percentage 100*(product-1) is printed and the
// product restarts at 1 - so a period's return is the chained product of its days.
// Perf (constructor): adds the period end days to the builder and captures the period start dates - the
// captured-state precondition @starts of the day-end callback is an obligation here.
//@ func Perf
//@   requires wfBuilder(j)
//@   modifies j.days[*]
//@   ensures [C20] result != nil && wfBuilder(j)
//
//@ def inShown(part date.Partition, t time.Time) bool := part.span.Start <= t && t <= part.span.End && (len(part.periods) == 0 || part.periods[0].Start <= t)
//@ func Perf$1
//@   requires d != nil && d.Performance != nil && ds != nil
//@   requires @starts: len(starts) == len(part.periods) && (len(starts) > 0 ==> starts[0] == part.periods[0].Start)
//@   modifies running
//@   callback Performance=0
//@   callback Printf=1
//@   ensures result == nil
//@   ensures [C20] @outside: !inShown(old(part), d.Date) ==> running == old(running) && tlen() == old(tlen())
//@   ensures [C20] @chain: inShown(old(part), d.Date) && !(d in ds) ==> tlen() == old(tlen()) + 1 && running == old(running) * tres("Performance", old(tlen()))
//@   ensures [C20] @report: inShown(old(part), d.Date) && (d in ds) ==> tlen() == old(tlen()) + 2 && running == 1.0
//@        && typeIs(targ("Printf", 1, old(tlen()) + 1)[1], "float64") && dyn(targ("Printf", 1, old(tlen()) + 1)[1], "float64") == 100.0 * (old(running) * tres("Performance", old(tlen())) - 1.0)
//
// ComputeFlows: the portfolio-level flow accumulator restarts at zero EVERY day, and the day's flows are
// collected into the day's own performance record (created when missing); at day end the accumulated
// portfolio flow is split by sign.
//@ func (*Calculator).ComputeFlows$1
//@   requires d != nil
//@   modifies portfolioFlows, performance
//@   ensures [C20] @reset: result == nil && portfolioFlows == 0.0 && performance != nil && (d.Performance != nil ==> performance == d.Performance) && (d.Performance == nil ==> fresh(performance))
//
// ComputeFlows, per transaction, is NOT under contract: it hands the addresses of the record's map fields
// (&performance.Inflow, ...) to a helper, which the engine's memory model does not support (no first-class
// pointers to struct fields holding maps). A reported defect there - `--commodity` filters the values but not
// the flows - is therefore not decided by this machinery (DESIGN 11.8).
//@ func (*Calculator).ComputeFlows$3
//@   requires d != nil && performance != nil
//@   modifies performance.PortfolioInflow, performance.PortfolioOutflow, d.Performance
//@   ensures [C20] @split: result == nil && d.Performance == performance && performance.PortfolioInflow == (portfolioFlows > 0.0 ? portfolioFlows : 0.0) && performance.PortfolioOutflow == (portfolioFlows < 0.0 ? portfolioFlows : 0.0)
//
// ComputeValues: the running value per commodity is the sum of the VALUES of the postings on portfolio
// accounts (asset/liability accounts passing the account filter) in commodities passing the commodity
// filter - exactly what `knut balance -v` sums for those accounts; other postings do not count.
//@ func (*Calculator).ComputeValues$1
//@   requires d != nil
//@   modifies d.Performance, d.Performance.V0
//@   ensures [C20] result == nil && d.Performance != nil && d.Performance.V0 == prev && (old(d.Performance) != nil ==> d.Performance == old(d.Performance))
//
//@ def isPortfolio(calc *Calculator, p *posting.Posting) bool := calc.CommodityFilter(p.Commodity) && isAL(p.Account) && calc.AccountFilter(p.Account)
//@ func (*Calculator).ComputeValues$2
//@   requires p != nil && validAccount(p.Account) && calc != nil && values != nil
//@   pure CommodityFilter, AccountFilter
//@   modifies values[*]
//@   ensures [C20] @counted: result == nil && (isPortfolio(calc, p) ==> values[amounts.Key{Commodity: p.Commodity}] == old(values[amounts.Key{Commodity: p.Commodity}]) + p.Value)
//@   ensures [C20] @others: forall k amounts.Key :: {key(values, k)} (!isPortfolio(calc, p) || k != amounts.Key{Commodity: p.Commodity}) ==> values[k] == old(values[k]) && ((k in values) <==> old(k in values))
