//go:build verif

// Contracts for package journal (machine-checked by /verif/engine; comment-only file).
package journal

// Processor.Process: the callbacks of a day are dispatched in the fixed order
//   DayStart < Price < Open < Transaction/Posting < Assertion/Balance < Close < DayEnd,
// each price, opening and closing exactly once in slice order, postings in slice order within their
// transaction, balances within their assertion; the first error aborts. The dispatch is recorded in a
// ghost event trace (tlen/tkind/targ0/targ1); callbacks are assumed not to modify the day (their own
// frame contracts show this for the checker).
//
//@ def ordered(from int, to int) bool := forall i int, j int :: {tkind(i), tkind(j)} from <= i && i < j && j < to ==> rank(tkind(i)) <= rank(tkind(j))
//@ def upto(from int, to int, r int) bool := forall i int :: {tkind(i)} from <= i && i < to ==> rank(tkind(i)) <= r
//
// segment(b, xs, k, from, to): the events b..b+len(xs)-1 are exactly the events of kind k in [from,to) and carry xs in order.
//@ def segment(b int, xs []*price.Price, k int, from int, to int) bool := from <= b && b + len(xs) <= to
//@     && (forall m int :: {xs[m]} 0 <= m && m < len(xs) ==> tkind(b + m) == k && targ0(b + m) == xs[m])
//@     && (forall i int :: {tkind(i)} from <= i && i < to && tkind(i) == k ==> b <= i && i < b + len(xs))
//@ def segmentO(b int, xs []*open.Open, k int, from int, to int) bool := from <= b && b + len(xs) <= to
//@     && (forall m int :: {xs[m]} 0 <= m && m < len(xs) ==> tkind(b + m) == k && targ0(b + m) == xs[m])
//@     && (forall i int :: {tkind(i)} from <= i && i < to && tkind(i) == k ==> b <= i && i < b + len(xs))
//@ def segmentC(b int, xs []*cls.Close, k int, from int, to int) bool := from <= b && b + len(xs) <= to
//@     && (forall m int :: {xs[m]} 0 <= m && m < len(xs) ==> tkind(b + m) == k && targ0(b + m) == xs[m])
//@     && (forall i int :: {tkind(i)} from <= i && i < to && tkind(i) == k ==> b <= i && i < b + len(xs))
//@ def noKind(from int, to int, k int) bool := forall i int :: {tkind(i)} from <= i && i < to ==> tkind(i) != k
//@ def atleast(from int, to int, r int) bool := forall i int :: {tkind(i)} from <= i && i < to ==> rank(tkind(i)) >= r
//@ def noErr(from int, to int) bool := forall i int :: {terr(i)} from <= i && i < to ==> !terr(i)
//@ def wfDay(d *Day) bool := d != nil
//@     && (forall i int :: {d.Transactions[i]} 0 <= i && i < len(d.Transactions) ==> d.Transactions[i] != nil)
//@     && (forall i int :: {d.Assertions[i]} 0 <= i && i < len(d.Assertions) ==> d.Assertions[i] != nil)
//
//@ func (*Processor).Process
//@   requires wfDay(d)
//@   callback DayStart=0, Price=1, Open=2, Transaction=3, Posting=3, Assertion=4, Balance=4, Close=5, DayEnd=6
//@   ensures @order: ordered(old(tlen()), tlen())
//@   ensures @abort: result == nil ==> noErr(old(tlen()), tlen())
//@   ensures @abort2: result != nil ==> tlen() > old(tlen()) && terr(tlen() - 1) && noErr(old(tlen()), tlen() - 1)
//@   ensures @daystart: result == nil && proc.DayStart != nil ==> tlen() > old(tlen()) && tkind(old(tlen())) == kind("DayStart") && targ0(old(tlen())) == d
//@   ensures @dayend: result == nil && proc.DayEnd != nil ==> tlen() > old(tlen()) && tkind(tlen() - 1) == kind("DayEnd") && targ0(tlen() - 1) == d
//@   ensures @prices: result == nil && proc.Price != nil ==> segment(old(tlen()) + (proc.DayStart != nil ? 1 : 0), d.Prices, kind("Price"), old(tlen()), tlen())
//@   ensures @opens: result == nil && proc.Open != nil ==> segmentO(old(tlen()) + (proc.DayStart != nil ? 1 : 0) + (proc.Price != nil ? len(d.Prices) : 0), d.Openings, kind("Open"), old(tlen()), tlen())
//@   ensures @closes: result == nil && proc.Close != nil ==> segmentC(tlen() - (proc.DayEnd != nil ? 1 : 0) - len(d.Closings), d.Closings, kind("Close"), old(tlen()), tlen())
//@   loop 1 invariant noErr(old(tlen()), tlen())
//@   loop 1 invariant atleast(entry(tlen()), tlen(), 1)
//@   loop 1 invariant 0 <= $i && $i <= len(d.Prices)
//@   loop 1 invariant entry(tlen()) == old(tlen()) + (proc.DayStart != nil ? 1 : 0) && noKind(old(tlen()), entry(tlen()), kind("Price"))
//@   loop 1 invariant tlen() == entry(tlen()) + $i && ordered(old(tlen()), tlen()) && upto(old(tlen()), tlen(), 1)
//@   loop 1 invariant forall k int :: {d.Prices[k]} 0 <= k && k < $i ==> tkind(entry(tlen()) + k) == kind("Price") && targ0(entry(tlen()) + k) == d.Prices[k]
//@   loop 2 invariant noErr(old(tlen()), tlen())
//@   loop 2 invariant atleast(entry(tlen()), tlen(), 2)
//@   loop 2 invariant 0 <= $i && $i <= len(d.Openings)
//@   loop 2 invariant entry(tlen()) == old(tlen()) + (proc.DayStart != nil ? 1 : 0) + (proc.Price != nil ? len(d.Prices) : 0) && noKind(old(tlen()), entry(tlen()), kind("Open"))
//@   loop 2 invariant tlen() == entry(tlen()) + $i && ordered(old(tlen()), tlen()) && upto(old(tlen()), tlen(), 2)
//@   loop 2 invariant forall k int :: {d.Openings[k]} 0 <= k && k < $i ==> tkind(entry(tlen()) + k) == kind("Open") && targ0(entry(tlen()) + k) == d.Openings[k]
//@   loop 3 invariant noErr(old(tlen()), tlen())
//@   loop 3 invariant atleast(entry(tlen()), tlen(), 3)
//@   loop 3 invariant tlen() >= entry(tlen()) && ordered(old(tlen()), tlen()) && upto(old(tlen()), tlen(), 3)
//@   loop 4 invariant noErr(old(tlen()), tlen())
//@   loop 4 invariant atleast(entry(tlen()), tlen(), 3)
//@   loop 4 invariant tlen() == entry(tlen()) + $i && ordered(old(tlen()), tlen()) && upto(old(tlen()), tlen(), 3)
//@   loop 5 invariant noErr(old(tlen()), tlen())
//@   loop 5 invariant atleast(entry(tlen()), tlen(), 3)
//@   loop 5 invariant tlen() >= entry(tlen()) && ordered(old(tlen()), tlen()) && upto(old(tlen()), tlen(), 3)
//@   loop 6 invariant noErr(old(tlen()), tlen())
//@   loop 6 invariant atleast(entry(tlen()), tlen(), 3)
//@   loop 6 invariant tlen() == entry(tlen()) + $i && ordered(old(tlen()), tlen()) && upto(old(tlen()), tlen(), 3)
//@   loop 7 invariant noErr(old(tlen()), tlen())
//@   loop 7 invariant atleast(entry(tlen()), tlen(), 4)
//@   loop 7 invariant tlen() >= entry(tlen()) && ordered(old(tlen()), tlen()) && upto(old(tlen()), tlen(), 4)
//@   loop 8 invariant noErr(old(tlen()), tlen())
//@   loop 8 invariant atleast(entry(tlen()), tlen(), 4)
//@   loop 8 invariant tlen() == entry(tlen()) + $i && ordered(old(tlen()), tlen()) && upto(old(tlen()), tlen(), 4)
//@   loop 9 invariant noErr(old(tlen()), tlen())
//@   loop 9 invariant atleast(entry(tlen()), tlen(), 4)
//@   loop 9 invariant tlen() >= entry(tlen()) && ordered(old(tlen()), tlen()) && upto(old(tlen()), tlen(), 4)
//@   loop 10 invariant noErr(old(tlen()), tlen())
//@   loop 10 invariant atleast(entry(tlen()), tlen(), 4)
//@   loop 10 invariant tlen() == entry(tlen()) + $i && ordered(old(tlen()), tlen()) && upto(old(tlen()), tlen(), 4)
//@   loop 11 invariant noErr(old(tlen()), tlen())
//@   loop 11 invariant atleast(entry(tlen()), tlen(), 5)
//@   loop 11 invariant 0 <= $i && $i <= len(d.Closings)
//@   loop 11 invariant noKind(old(tlen()), entry(tlen()), kind("Close"))
//@   loop 11 invariant tlen() == entry(tlen()) + $i && ordered(old(tlen()), tlen()) && upto(old(tlen()), tlen(), 5)
//@   loop 11 invariant forall k int :: {d.Closings[k]} 0 <= k && k < $i ==> tkind(entry(tlen()) + k) == kind("Close") && targ0(entry(tlen()) + k) == d.Closings[k]
//@   loop 4 invariant 0 <= $i && $i <= len(t.Postings)
//@   loop 4 invariant forall m int :: {t.Postings[m]} 0 <= m && m < $i ==> tkind(entry(tlen()) + m) == kind("Posting") && targ0(entry(tlen()) + m) == t && targ1(entry(tlen()) + m) == t.Postings[m]
//@   loop 6 invariant 0 <= $i && $i <= len(t.Postings)
//@   loop 6 invariant forall m int :: {t.Postings[m]} 0 <= m && m < $i ==> tkind(entry(tlen()) + m) == kind("Posting") && targ0(entry(tlen()) + m) == t && targ1(entry(tlen()) + m) == t.Postings[m]
//@   loop 8 invariant 0 <= $i && $i <= len(a.Balances)
//@   loop 8 invariant forall m int :: {elemAddr(a.Balances, m)} 0 <= m && m < $i ==> tkind(entry(tlen()) + m) == kind("Balance") && targ0(entry(tlen()) + m) == a && targ1(entry(tlen()) + m) == elemAddr(a.Balances, m)
//@   loop 10 invariant 0 <= $i && $i <= len(a.Balances)
//@   loop 10 invariant forall m int :: {elemAddr(a.Balances, m)} 0 <= m && m < $i ==> tkind(entry(tlen()) + m) == kind("Balance") && targ0(entry(tlen()) + m) == a && targ1(entry(tlen()) + m) == elemAddr(a.Balances, m)
//
// ---- processors (closures of process.go) --------------------------------------------------------
//
// ComputePrices: prices are inserted on their day; at the end of a day with price directives the
// normalised prices are recomputed, otherwise the previous ones are carried forward.
//@ func ComputePrices$1
//@   requires wfPrices(prc) && p != nil && p.Commodity != nil && p.Target != nil
//@   modifies prc[*], prc[p.Target][*], prc[p.Commodity][*]
//@   ensures wfPrices(prc)
//@   ensures (result == nil) <==> p.Price != 0
//
//@ func ComputePrices$2
//@   requires wfPrices(prc) && d != nil
//@   modifies previous, d.Normalized
//@   ensures result == nil && d.Normalized == previous && wfPrices(prc)
//@   ensures len(d.Prices) == 0 ==> previous == old(previous)
//@   ensures len(d.Prices) > 0 ==> fresh(previous) && (v in previous) && previous[v] == 1.0
//
// Valuate, posting callback: the value of a posting is its quantity in the valuation commodity, else
// quantity x today's normalised price truncated to 8 decimals; a missing price is an error and the
// value is left untouched; asset/liability quantities are accumulated for the daily revaluation.
//@ def keysOK(q amounts.Amounts) bool := q != nil && (forall k amounts.Key :: {key(q, k)} (k in q) ==> validAccount(k.Account) && k.Commodity != nil)
//
//@ func Valuate$2
//@   requires p != nil && validAccount(p.Account) && p.Commodity != nil && keysOK(quantities)
//@   modifies p.Value, quantities[*]
//@   ensures keysOK(quantities)
//@   ensures @zero: p.Quantity == 0 ==> result == nil && p.Value == old(p.Value)
//@   ensures @same: p.Quantity != 0 && valuation == p.Commodity ==> result == nil && p.Value == p.Quantity
//@   ensures @priced: p.Quantity != 0 && valuation != p.Commodity && (p.Commodity in prices) ==> result == nil && p.Value == mult(p.Quantity, prices[p.Commodity])
//@   ensures @missing: p.Quantity != 0 && valuation != p.Commodity && !(p.Commodity in prices) ==> result != nil && p.Value == old(p.Value)
//@   ensures @track: p.Quantity != 0 && isAL(p.Account) ==> dom(quantities) == upd(old(dom(quantities)), amounts.Key{Account: p.Account, Commodity: p.Commodity}, true)
//@        && vals(quantities) == upd(old(vals(quantities)), amounts.Key{Account: p.Account, Commodity: p.Commodity}, old(quantities[amounts.Key{Account: p.Account, Commodity: p.Commodity}]) + p.Quantity)
//@   ensures @notrack: p.Quantity == 0 || !isAL(p.Account) ==> dom(quantities) == old(dom(quantities)) && vals(quantities) == old(vals(quantities))
//
//@ func Valuate$3
//@   requires d != nil
//@   modifies prevPrices
//@   ensures result == nil && prevPrices == d.Normalized
//
// Filter: days outside the window lose their transactions, days inside keep them.
//@ func Filter$1
//@   requires d != nil
//@   modifies d.Transactions
//@   ensures result == nil
//@   ensures (part.span.Start <= d.Date && d.Date <= part.span.End) ==> d.Transactions == old(d.Transactions)
//@   ensures !(part.span.Start <= d.Date && d.Date <= part.span.End) ==> d.Transactions == nil
//
// Valuate, day start: today's prices become current; every asset/liability position in a foreign
// commodity with a non-zero quantity is revalued: if the price moved, one balanced adjustment
// transaction (quantity 0, value = (price today - price before) x quantity, truncated) is appended;
// existing transactions are kept. If a needed price is missing the callback fails.
//@ def needsReval(k amounts.Key, q amounts.Amounts, v *commodity.Commodity) bool := k.Commodity != v && isAL(k.Account) && q[k] != 0
//@ def adjustment(tr *transaction.Transaction, d *Day) bool := okTx(tr) && tr.Postings[1].Quantity == 0 && tr.Postings[0].Quantity == 0 && tr.Date == d.Date
//
// adjFor: the adjustment books exactly (price today - price before) x quantity of position k, truncated,
// on the account of k (and its negative on the other account), in the commodity of k.
//@ def adjFor(tr *transaction.Transaction, k amounts.Key, q amounts.Amounts, prev price.NormalizedPrices, cur price.NormalizedPrices) bool :=
//@     built(tr.Postings[0], tr.Postings[1], posting.Builder{Credit: (tr.Postings[0].Account == k.Account ? tr.Postings[1].Account : tr.Postings[0].Account),
//@         Debit: k.Account, Commodity: k.Commodity, Value: mult(cur[k.Commodity] - prev[k.Commodity], q[k])})
//@ func Valuate$1
//@   requires d != nil && keysOK(quantities) && reg != nil && wfAccounts(reg.accounts)
//@   modifies prices, d.Transactions, d.Transactions[*], reg.accounts.index[*]
//@   ensures @today: prices == d.Normalized
//@   ensures @missing: result == nil ==> (forall k amounts.Key :: {key(quantities, k)} (k in quantities) && needsReval(k, quantities, valuation) ==> (k.Commodity in prevPrices) && (k.Commodity in d.Normalized))
//@   ensures @kept: len(d.Transactions) >= old(len(d.Transactions)) && (forall j int :: {d.Transactions[j]} 0 <= j && j < old(len(d.Transactions)) ==> d.Transactions[j] == old(d.Transactions[j]))
//@   ensures @adj: forall j int :: {d.Transactions[j]} old(len(d.Transactions)) <= j && j < len(d.Transactions) ==> adjustment(d.Transactions[j], d)
//@   ensures [C03] [C16] @from: forall j int :: {d.Transactions[j]} old(len(d.Transactions)) <= j && j < len(d.Transactions) ==>
//@        (exists k amounts.Key :: {key(quantities, k)} (k in quantities) && needsReval(k, quantities, valuation) && prevPrices[k.Commodity] != d.Normalized[k.Commodity]
//@            && adjFor(d.Transactions[j], k, quantities, prevPrices, d.Normalized))
//@   loop 1 invariant [C03] [C16] @from: forall j int :: {d.Transactions[j]} old(len(d.Transactions)) <= j && j < len(d.Transactions) ==>
//@        (exists k amounts.Key :: {key(quantities, k)} (k in quantities) && needsReval(k, quantities, valuation) && prevPrices[k.Commodity] != d.Normalized[k.Commodity]
//@            && adjFor(d.Transactions[j], k, quantities, prevPrices, d.Normalized))
//@   ensures wfAccounts(reg.accounts)
//@   loop 1 invariant wfAccounts(reg.accounts)
//@   loop 1 invariant prices == d.Normalized && keysOK(quantities) && d.Date == old(d.Date) && d.Normalized == old(d.Normalized)
//@   loop 1 invariant forall k amounts.Key :: {$seen[k]} $seen[k] && needsReval(k, quantities, valuation) ==> (k.Commodity in prevPrices) && (k.Commodity in d.Normalized)
//@   loop 1 invariant len(d.Transactions) >= old(len(d.Transactions)) && (forall j int :: {d.Transactions[j]} 0 <= j && j < old(len(d.Transactions)) ==> d.Transactions[j] == old(d.Transactions[j]))
//@   loop 1 invariant forall j int :: {d.Transactions[j]} old(len(d.Transactions)) <= j && j < len(d.Transactions) ==> okTx(d.Transactions[j])
//@   loop 1 invariant forall j int :: {d.Transactions[j]} old(len(d.Transactions)) <= j && j < len(d.Transactions) ==> d.Transactions[j].Postings[1].Quantity == 0 && d.Transactions[j].Postings[0].Quantity == 0 && d.Transactions[j].Date == d.Date
//
// CloseAccounts: on a closing day every accumulated income/expense/equity position with a non-zero
// quantity or value is transferred to Equity:Equity by one balanced transaction; postings on
// asset/liability accounts and on Equity:Equity itself are not accumulated.
// Add: a directive lands in the day of its own date (created when missing) and is appended to the list
// of its own kind; every other list of that day and every list of every other day is unchanged - so
// the arrival order of directives only shows in the order within one kind of one day. An unknown
// directive type is an error and changes nothing.
//@ def dirOK(d model.Directive) bool := (typeIs(d, "*price.Price") ==> dyn(d, "*price.Price") != nil) && (typeIs(d, "*open.Open") ==> dyn(d, "*open.Open") != nil)
//@     && (typeIs(d, "*transaction.Transaction") ==> dyn(d, "*transaction.Transaction") != nil) && (typeIs(d, "*assertion.Assertion") ==> dyn(d, "*assertion.Assertion") != nil)
//@     && (typeIs(d, "*close.Close") ==> dyn(d, "*close.Close") != nil)
//@ def known(d model.Directive) bool := typeIs(d, "*price.Price") || typeIs(d, "*open.Open") || typeIs(d, "*transaction.Transaction") || typeIs(d, "*assertion.Assertion") || typeIs(d, "*close.Close")
//@ def dateOf(d model.Directive) time.Time := typeIs(d, "*price.Price") ? dyn(d, "*price.Price").Date : (typeIs(d, "*open.Open") ? dyn(d, "*open.Open").Date
//@     : (typeIs(d, "*transaction.Transaction") ? dyn(d, "*transaction.Transaction").Date : (typeIs(d, "*assertion.Assertion") ? dyn(d, "*assertion.Assertion").Date : dyn(d, "*close.Close").Date)))
//@ func (*Builder).Add
//@   requires wfBuilder(j) && dirOK(d)
//@   modifies j.days[*], j.min, j.max, fields(j.days[j.min]), elems(j.days[j.min].Prices), elems(j.days[j.min].Openings), elems(j.days[j.min].Transactions), elems(j.days[j.min].Assertions), elems(j.days[j.min].Closings)
//@   ensures [C05] wfBuilder(j)
//@   ensures [C05] @unknown: (result != nil <==> !known(d)) && (!known(d) ==> dom(j.days) == old(dom(j.days)) && vals(j.days) == old(vals(j.days)))
//@   ensures [C05] @day: known(d) ==> (dateOf(d) in j.days) && (forall k time.Time :: {key(j.days, k)} (k in j.days) <==> (old(k in j.days) || k == dateOf(d)))
//@        && (forall k time.Time :: {key(j.days, k)} old(k in j.days) ==> j.days[k] == old(j.days[k]))
//@   ensures [C05] @others: forall k time.Time :: {key(j.days, k)} old(k in j.days) && (!known(d) || k != dateOf(d)) ==>
//@        j.days[k].Prices == old(j.days[k].Prices) && j.days[k].Openings == old(j.days[k].Openings) && j.days[k].Transactions == old(j.days[k].Transactions)
//@        && j.days[k].Assertions == old(j.days[k].Assertions) && j.days[k].Closings == old(j.days[k].Closings)
//@   ensures [C05] @tx: typeIs(d, "*transaction.Transaction") ==> len(j.days[dateOf(d)].Transactions) == (old(dateOf(d) in j.days) ? old(len(j.days[dateOf(d)].Transactions)) : 0) + 1
//@        && j.days[dateOf(d)].Transactions[len(j.days[dateOf(d)].Transactions) - 1] == dyn(d, "*transaction.Transaction")
//@        && (old(dateOf(d) in j.days) ==> j.days[dateOf(d)].Prices == old(j.days[dateOf(d)].Prices) && j.days[dateOf(d)].Openings == old(j.days[dateOf(d)].Openings)
//@            && j.days[dateOf(d)].Assertions == old(j.days[dateOf(d)].Assertions) && j.days[dateOf(d)].Closings == old(j.days[dateOf(d)].Closings))
//@   ensures [C05] @price: typeIs(d, "*price.Price") ==> len(j.days[dateOf(d)].Prices) == (old(dateOf(d) in j.days) ? old(len(j.days[dateOf(d)].Prices)) : 0) + 1
//@        && j.days[dateOf(d)].Prices[len(j.days[dateOf(d)].Prices) - 1] == dyn(d, "*price.Price")
//@        && (old(dateOf(d) in j.days) ==> j.days[dateOf(d)].Openings == old(j.days[dateOf(d)].Openings) && j.days[dateOf(d)].Transactions == old(j.days[dateOf(d)].Transactions) && j.days[dateOf(d)].Assertions == old(j.days[dateOf(d)].Assertions) && j.days[dateOf(d)].Closings == old(j.days[dateOf(d)].Closings))
//@   ensures [C05] @open: typeIs(d, "*open.Open") ==> len(j.days[dateOf(d)].Openings) == (old(dateOf(d) in j.days) ? old(len(j.days[dateOf(d)].Openings)) : 0) + 1
//@        && j.days[dateOf(d)].Openings[len(j.days[dateOf(d)].Openings) - 1] == dyn(d, "*open.Open")
//@        && (old(dateOf(d) in j.days) ==> j.days[dateOf(d)].Prices == old(j.days[dateOf(d)].Prices) && j.days[dateOf(d)].Transactions == old(j.days[dateOf(d)].Transactions) && j.days[dateOf(d)].Assertions == old(j.days[dateOf(d)].Assertions) && j.days[dateOf(d)].Closings == old(j.days[dateOf(d)].Closings))
//@   ensures [C05] @assertion: typeIs(d, "*assertion.Assertion") ==> len(j.days[dateOf(d)].Assertions) == (old(dateOf(d) in j.days) ? old(len(j.days[dateOf(d)].Assertions)) : 0) + 1
//@        && j.days[dateOf(d)].Assertions[len(j.days[dateOf(d)].Assertions) - 1] == dyn(d, "*assertion.Assertion")
//@        && (old(dateOf(d) in j.days) ==> j.days[dateOf(d)].Prices == old(j.days[dateOf(d)].Prices) && j.days[dateOf(d)].Openings == old(j.days[dateOf(d)].Openings) && j.days[dateOf(d)].Transactions == old(j.days[dateOf(d)].Transactions) && j.days[dateOf(d)].Closings == old(j.days[dateOf(d)].Closings))
//@   ensures [C05] @close: typeIs(d, "*close.Close") ==> len(j.days[dateOf(d)].Closings) == (old(dateOf(d) in j.days) ? old(len(j.days[dateOf(d)].Closings)) : 0) + 1
//@        && j.days[dateOf(d)].Closings[len(j.days[dateOf(d)].Closings) - 1] == dyn(d, "*close.Close")
//@        && (old(dateOf(d) in j.days) ==> j.days[dateOf(d)].Prices == old(j.days[dateOf(d)].Prices) && j.days[dateOf(d)].Openings == old(j.days[dateOf(d)].Openings) && j.days[dateOf(d)].Transactions == old(j.days[dateOf(d)].Transactions) && j.days[dateOf(d)].Assertions == old(j.days[dateOf(d)].Assertions))
//@   ensures [C05] @prefix: known(d) && old(dateOf(d) in j.days) ==> (forall i int :: {j.days[dateOf(d)].Prices[i]} 0 <= i && i < old(len(j.days[dateOf(d)].Prices)) ==> j.days[dateOf(d)].Prices[i] == old(j.days[dateOf(d)].Prices[i]))
//@        && (forall i int :: {j.days[dateOf(d)].Openings[i]} 0 <= i && i < old(len(j.days[dateOf(d)].Openings)) ==> j.days[dateOf(d)].Openings[i] == old(j.days[dateOf(d)].Openings[i]))
//@        && (forall i int :: {j.days[dateOf(d)].Transactions[i]} 0 <= i && i < old(len(j.days[dateOf(d)].Transactions)) ==> j.days[dateOf(d)].Transactions[i] == old(j.days[dateOf(d)].Transactions[i]))
//@        && (forall i int :: {j.days[dateOf(d)].Assertions[i]} 0 <= i && i < old(len(j.days[dateOf(d)].Assertions)) ==> j.days[dateOf(d)].Assertions[i] == old(j.days[dateOf(d)].Assertions[i]))
//@        && (forall i int :: {j.days[dateOf(d)].Closings[i]} 0 <= i && i < old(len(j.days[dateOf(d)].Closings)) ==> j.days[dateOf(d)].Closings[i] == old(j.days[dateOf(d)].Closings[i]))
//@   ensures [C05] [C06] @range: j.max == ((typeIs(d, "*price.Price") || typeIs(d, "*transaction.Transaction")) && old(j.max) < dateOf(d) ? dateOf(d) : old(j.max))
//@        && j.min == (typeIs(d, "*transaction.Transaction") && old(j.min) > dateOf(d) ? dateOf(d) : old(j.min))
//
// Days: the days of the given dates, in the order of the dates (created where missing).
//@ func (*Builder).Days
//@   requires wfBuilder(j)
//@   modifies j.days[*]
//@   ensures wfBuilder(j) && len(result) == len(dates)
//@   ensures forall k int :: {result[k]} 0 <= k && k < len(dates) ==> (dates[k] in j.days) && result[k] == j.days[dates[k]] && result[k] != nil
//@   ensures forall t time.Time :: {key(j.days, t)} old(t in j.days) ==> (t in j.days) && j.days[t] == old(j.days[t])
//@   loop 1 invariant wfBuilder(j) && len(res) == $i && 0 <= $i && $i <= len(dates)
//@   loop 1 invariant forall k int :: {res[k]} 0 <= k && k < $i ==> (dates[k] in j.days) && res[k] == j.days[dates[k]] && res[k] != nil
//@   loop 1 invariant forall t time.Time :: {key(j.days, t)} old(t in j.days) ==> (t in j.days) && j.days[t] == old(j.days[t])
//
// CloseAccounts (the constructor): the closing days are the days of ALL period start dates of the
// partition - the result of StartDates goes unchanged into Builder.Days and that into the set.
//@ func CloseAccounts
//@   requires wfBuilder(j) && reg != nil && wfAccounts(reg.accounts)
//@   modifies j.days[*], reg.accounts.index[*]
//@   callback StartDates=0
//@   callback Days=1
//@   callback FromSlice=2
//@   ensures wfBuilder(j)
//@   ensures !enable ==> result == nil && tlen() == old(tlen())
//@   ensures @days: enable ==> tlen() == old(tlen()) + 3 && targ("Days", 0, old(tlen()) + 1) == tres("StartDates", old(tlen()))
//@        && targ("FromSlice", 0, old(tlen()) + 2) == tres("Days", old(tlen()) + 1)
//
// (C02: "with period closing, income and expense rows restart at each period start and their previous
// total is carried by the equity account" - ONLY income and expense accounts are accumulated for closing;
// every other row, the other equity accounts included, keeps the plain sum of its bookings.)
//@ func CloseAccounts$2
//@   requires p != nil && validAccount(p.Account) && p.Commodity != nil && keysOK(quantities) && values != nil && quantities != values
//@   ensures keysOK(quantities)
//@   modifies quantities[*], values[*]
//@   ensures result == nil
//@   ensures [C02] @skip: !isIE(p.Account) ==> dom(quantities) == old(dom(quantities)) && vals(quantities) == old(vals(quantities))
//@        && dom(values) == old(dom(values)) && vals(values) == old(vals(values))
//@   ensures [C02] @acc: isIE(p.Account) ==>
//@        dom(quantities) == upd(old(dom(quantities)), amounts.Key{Account: p.Account, Commodity: p.Commodity}, true)
//@        && vals(quantities) == upd(old(vals(quantities)), amounts.Key{Account: p.Account, Commodity: p.Commodity}, old(quantities[amounts.Key{Account: p.Account, Commodity: p.Commodity}]) + p.Quantity)
//@        && dom(values) == upd(old(dom(values)), amounts.Key{Account: p.Account, Commodity: p.Commodity}, true)
//@        && vals(values) == upd(old(vals(values)), amounts.Key{Account: p.Account, Commodity: p.Commodity}, old(values[amounts.Key{Account: p.Account, Commodity: p.Commodity}]) + p.Value)
//
//@ func CloseAccounts$1
//@   requires d != nil && keysOK(quantities) && values != nil && closingDays != nil
//@   modifies d.Transactions, d.Transactions[*]
//@   ensures result == nil
//@   ensures @notclosing: !(d in closingDays) ==> d.Transactions == old(d.Transactions)
//@   ensures @kept: len(d.Transactions) >= old(len(d.Transactions)) && (forall j int :: {d.Transactions[j]} 0 <= j && j < old(len(d.Transactions)) ==> d.Transactions[j] == old(d.Transactions[j]))
//@   ensures @closing: forall j int :: {d.Transactions[j]} old(len(d.Transactions)) <= j && j < len(d.Transactions) ==> okTx(d.Transactions[j]) && d.Transactions[j].Date == d.Date
//@   loop 1 invariant d.Date == old(d.Date)
//@   loop 1 invariant len(d.Transactions) >= old(len(d.Transactions)) && (forall j int :: {d.Transactions[j]} 0 <= j && j < old(len(d.Transactions)) ==> d.Transactions[j] == old(d.Transactions[j]))
//@   loop 1 invariant forall j int :: {d.Transactions[j]} old(len(d.Transactions)) <= j && j < len(d.Transactions) ==> okTx(d.Transactions[j]) && d.Transactions[j].Date == d.Date
//
// Query.Into: each posting that passes the filter is inserted exactly once, under the selected key,
// with its quantity - or with its value when a valuation commodity is set; other postings not at all.
// (Where and Select are caller-supplied and treated as pure functions; Insert is recorded in the trace.)
//@ def keyOf(t *transaction.Transaction, b *posting.Posting, v *commodity.Commodity) amounts.Key :=
//@     amounts.Key{Date: t.Date, Account: b.Account, Other: b.Other, Commodity: b.Commodity, Valuation: v, Description: t.Description}
//
//@ func (Query).Into$1
//@   requires t != nil && b != nil
//@   pure Where, Select
//@   callback Insert=0
//@   ensures result == nil
//@   ensures @one: query.Where(keyOf(t, b, query.Valuation)) ==> tlen() == old(tlen()) + 1
//@        && targ("Insert", 0, old(tlen())) == query.Select(keyOf(t, b, query.Valuation))
//@        && targ("Insert", 1, old(tlen())) == (query.Valuation != nil ? b.Value : b.Quantity)
//@   ensures @none: !query.Where(keyOf(t, b, query.Valuation)) ==> tlen() == old(tlen())
//
// Sort: the transactions of a day are sorted in place (a permutation of the same slice).
// @allkinds (C06 mechanism: "every order that reaches the output must come from a total order, not from
// map or arrival order"): journal.Print and the transcoder write ALL five lists of a day in list order, and
// Builder.Add appends in arrival order - so every list with more than one element has to be handed to a
// sort before it is printed. Only the transactions are: see the known finding.
//@ func Sort$1
//@   requires d != nil
//@   modifies d.Transactions[*]
//@   callback Sort=0
//@   ensures result == nil && d.Transactions == old(d.Transactions)
//@   ensures [C06] [C05] @transactions: len(d.Transactions) >= 2 ==> (exists i int :: old(tlen()) <= i && i < tlen() && targ("Sort", 0, i) == d.Transactions)
//@   ensures [C06] [C05] @allkinds: (len(d.Prices) >= 2 ==> (exists i int :: old(tlen()) <= i && i < tlen() && targ("Sort", 0, i) == d.Prices))
//@        && (len(d.Openings) >= 2 ==> (exists i int :: old(tlen()) <= i && i < tlen() && targ("Sort", 0, i) == d.Openings))
//@        && (len(d.Assertions) >= 2 ==> (exists i int :: old(tlen()) <= i && i < tlen() && targ("Sort", 0, i) == d.Assertions))
//@        && (len(d.Closings) >= 2 ==> (exists i int :: old(tlen()) <= i && i < tlen() && targ("Sort", 0, i) == d.Closings))
//
// ---- Builder: directives are grouped by day and kind, independent of arrival order ----------------
//
//@ def wfBuilder(j *Builder) bool := j != nil && j.days != nil
//@     && (forall k time.Time :: {key(j.days, k)} (k in j.days) ==> j.days[k] != nil && live(j.days[k]) && j.days[k].Date == k)
//@     && (forall a time.Time, b time.Time :: {rawval(j.days, a), rawval(j.days, b)} (a in j.days) && (b in j.days) && a != b ==> j.days[a] != j.days[b])
//
// Day: the day of a date exists afterwards, is the one stored under that date, and no other entry changes.
//@ func (*Builder).Day
//@   requires wfBuilder(j)
//@   modifies j.days[*]
//@   ensures wfBuilder(j) && result != nil && (d in j.days) && j.days[d] == result && result.Date == d
//@   ensures old(d in j.days) ==> result == old(j.days[d]) && dom(j.days) == old(dom(j.days)) && vals(j.days) == old(vals(j.days))
//@   ensures !old(d in j.days) ==> fresh(result) && dom(j.days) == upd(old(dom(j.days)), d, true) && vals(j.days) == upd(old(vals(j.days)), d, result)
//@        && len(result.Prices) == 0 && len(result.Openings) == 0 && len(result.Transactions) == 0 && len(result.Assertions) == 0 && len(result.Closings) == 0
//
//
// CompareDays: days are ordered by date; the days of a builder have distinct dates (wfBuilder), so
// they never tie.
//@ func CompareDays
//@   requires d != nil && d2 != nil
//@   ensures [C06] [C05] @lex: result == (d.Date < d2.Date ? 0 - 1 : (d.Date == d2.Date ? 0 : 1))
//
// The journal-level pipeline (cpr.Seq: one goroutine per processor stage) and the concurrent loader are
// outside the verified subset. They are trusted to hand over a well-formed builder / journal; the
// per-day processors themselves are verified above.
//@ func FromPath
//@   trusted
//@   modifies nothing
//@   ensures result.1 == nil ==> wfBuilder(result.0)
//
// Build: the journal holds exactly the days of the builder - every listed day is a day of the builder and
// every day of the builder is listed, in the order of their dates (dict.SortedValues under contract: sorted by
// the comparator handed over, CompareDays, whose own contract is the order of the dates; sort.Slice itself is
// trusted to sort). The well-formedness of the days' contents that the
// transcoder relies on is a trusted clause (established by Builder.Add, not restated here).
//@ func (*Builder).Build
//@   requires wfBuilder(j)
//@   modifies nothing
//@   ensures result != nil && fresh(result)
//@   ensures [trusted] transcodable(result)
//@   ensures [C05] [C06] @sorted: forall a int, b int :: {result.Days[a], result.Days[b]} 0 <= a && a < b && b < len(result.Days) ==> result.Days[a].Date <= result.Days[b].Date
//@   ensures [C05] @days: forall i int :: {result.Days[i]} 0 <= i && i < len(result.Days) ==> (exists k time.Time :: (k in j.days) && j.days[k] == result.Days[i])
//@   ensures [C05] @all: forall k time.Time :: {key(j.days, k)} (k in j.days) ==> (exists i int :: 0 <= i && i < len(result.Days) && result.Days[i] == j.days[k])
//
//@ func (*Journal).Process
//@   trusted
//@   requires j != nil
//@   modifies *
//@   ensures result == nil ==> transcodable(j)
//
// The two halves of a posting pair produce keys that agree in date, commodity, valuation and
// description and amounts that are exact negatives - for quantities and for values alike: whatever a
// report aggregates by those fields, a pair contributes zero.
//@ lemma pair_nets_zero: forall t *transaction.Transaction, p *posting.Posting, q *posting.Posting, v *commodity.Commodity :: t != nil && pair(p, q) ==>
//@     keyOf(t, p, v).Date == keyOf(t, q, v).Date && keyOf(t, p, v).Commodity == keyOf(t, q, v).Commodity && keyOf(t, p, v).Valuation == keyOf(t, q, v).Valuation
//@     && keyOf(t, p, v).Description == keyOf(t, q, v).Description && (v != nil ? p.Value : p.Quantity) == 0.0 - (v != nil ? q.Value : q.Quantity)
//
// Commutation within one kind on one day (C05): the per-posting / per-price callbacks of the report
// pipeline can be applied to two directives in either order with the same verdict and the same state.
//@ commute valuate_postings_commute [C05]: Valuate$2 given p1 != p2
//@ commute close_accumulate_commute [C05]: CloseAccounts$2
//
// Print: days in journal order; within a day the kinds in the fixed order prices, openings,
// transactions, assertions, closings; within a kind every directive exactly once in list order -
// nothing is dropped, duplicated or reordered beyond what Builder.Add and Sort already fixed.
// (The text of a directive is produced by the trusted printer; the pipeline call Sort + padding is the
// trusted Journal.Process.)
//@ func Print
//@   requires j != nil
//@   modifies *
//@   callback PrintDirectiveLn=0
//@   ghost printed int = 0
//@   loop 1 ghost-end printed := printed + len(day.Prices) + len(day.Openings) + len(day.Transactions) + len(day.Assertions) + len(day.Closings)
//@   ensures [C05] @count: result == nil ==> tlen() == old(tlen()) + printed
//@   loop 1 invariant 0 <= $i && $i <= len($range) && tlen() == old(tlen()) + printed && $range == j.Days && transcodable(j)
//@   loop 2 invariant [C05] @prices: 0 <= $i && $i <= len($range) && $range == day.Prices && day != nil && tlen() == entry(tlen()) + $i
//@        && (forall k int :: {$range[k]} 0 <= k && k < $i ==> dyn(targ("PrintDirectiveLn", 0, entry(tlen()) + k), "*price.Price") == $range[k])
//@   loop 3 invariant [C05] @openings: 0 <= $i && $i <= len($range) && $range == day.Openings && day != nil && tlen() == entry(tlen()) + $i
//@        && (forall k int :: {$range[k]} 0 <= k && k < $i ==> dyn(targ("PrintDirectiveLn", 0, entry(tlen()) + k), "*open.Open") == $range[k])
//@   loop 4 invariant [C05] @transactions: 0 <= $i && $i <= len($range) && $range == day.Transactions && day != nil && tlen() == entry(tlen()) + $i
//@        && (forall k int :: {$range[k]} 0 <= k && k < $i ==> dyn(targ("PrintDirectiveLn", 0, entry(tlen()) + k), "*transaction.Transaction") == $range[k])
//@   loop 5 invariant [C05] @assertions: 0 <= $i && $i <= len($range) && $range == day.Assertions && day != nil && tlen() == entry(tlen()) + $i
//@        && (forall k int :: {$range[k]} 0 <= k && k < $i ==> dyn(targ("PrintDirectiveLn", 0, entry(tlen()) + k), "*assertion.Assertion") == $range[k])
//@   loop 6 invariant [C05] @closings: 0 <= $i && $i <= len($range) && $range == day.Closings && day != nil && tlen() == entry(tlen()) + $i
//@        && (forall k int :: {$range[k]} 0 <= k && k < $i ==> dyn(targ("PrintDirectiveLn", 0, entry(tlen()) + k), "*close.Close") == $range[k])
//
// The processor constructors: which callbacks a stage installs, and that the valuation stages switch
// themselves off (nil processor) exactly when no valuation commodity is given.
//@ func ComputePrices
//@   modifies nothing
//@   ensures [C03] @off: v == nil ==> result == nil
//@   ensures [C03] @wired: v != nil ==> result != nil && fresh(result) && result.Price != nil && result.DayEnd != nil && result.DayStart == nil && result.Posting == nil && result.Transaction == nil
//
//@ func Valuate
//@   modifies nothing
//@   ensures [C03] @off: valuation == nil ==> result == nil
//@   ensures [C03] @wired: valuation != nil ==> result != nil && fresh(result) && result.DayStart != nil && result.Posting != nil && result.DayEnd != nil && result.Price == nil && result.Transaction == nil
//
//@ func Filter
//@   modifies nothing
//@   ensures [C02] @wired: result != nil && fresh(result) && result.DayEnd != nil && result.DayStart == nil && result.Posting == nil && result.Transaction == nil && result.Price == nil
//
//@ func Sort
//@   modifies nothing
//@   ensures [C05] [C06] @wired: result != nil && fresh(result) && result.DayEnd != nil && result.DayStart == nil && result.Posting == nil && result.Transaction == nil
//
//@ func (Query).Into
//@   modifies nothing
//@   ensures [C02] [C01] @wired: result != nil && fresh(result) && result.Posting != nil && result.DayStart == nil && result.DayEnd == nil && result.Transaction == nil && result.Price == nil
//
// New: an empty builder; its period is the empty interval 9999-12-31 .. 0001-01-01 (so that any
// transaction date narrows it, and the start of an empty journal's period is not the zero time).
//@ func New
//@   modifies nothing
//@   ensures [C14] [C05] @empty: wfBuilder(result) && fresh(result) && len(result.days) == 0
//@   ensures [C14] [C05] @min: result.min == 3652058
//@   ensures [C14] [C05] @max: result.max == 0
