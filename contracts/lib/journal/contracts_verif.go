//go:build verif

// Contracts for package journal (machine-checked by /verif/engine; comment-only file).
package journal

// Processor.Process: the callbacks of a day are dispatched in the fixed order
//   DayStart < Price < Open < Transaction/Posting < Assertion/Balance < Close < DayEnd,
// each price, opening and closing exactly once in slice order, postings in slice order within their
// transaction, balances within their assertion; the first error aborts. The dispatch is recorded in a
// ghost event trace (tlen/tkind/targ0/targ1); callbacks are assumed not to modify the day (their own
// frame contracts show this for the checker).
//
//@ def ordered(from int, to int) bool := forall i int, j int :: {tkind(i), tkind(j)} from <= i && i < j && j < to ==> rank(tkind(i)) <= rank(tkind(j))
//@ def upto(from int, to int, r int) bool := forall i int :: {tkind(i)} from <= i && i < to ==> rank(tkind(i)) <= r
//
// segment(b, xs, k, from, to): the events b..b+len(xs)-1 are exactly the events of kind k in [from,to) and carry xs in order.
//@ def segment(b int, xs []*price.Price, k int, from int, to int) bool := from <= b && b + len(xs) <= to
//@     && (forall m int :: {xs[m]} 0 <= m && m < len(xs) ==> tkind(b + m) == k && targ0(b + m) == xs[m])
//@     && (forall i int :: {tkind(i)} from <= i && i < to && tkind(i) == k ==> b <= i && i < b + len(xs))
//@ def segmentO(b int, xs []*open.Open, k int, from int, to int) bool := from <= b && b + len(xs) <= to
//@     && (forall m int :: {xs[m]} 0 <= m && m < len(xs) ==> tkind(b + m) == k && targ0(b + m) == xs[m])
//@     && (forall i int :: {tkind(i)} from <= i && i < to && tkind(i) == k ==> b <= i && i < b + len(xs))
//@ def segmentC(b int, xs []*cls.Close, k int, from int, to int) bool := from <= b && b + len(xs) <= to
//@     && (forall m int :: {xs[m]} 0 <= m && m < len(xs) ==> tkind(b + m) == k && targ0(b + m) == xs[m])
//@     && (forall i int :: {tkind(i)} from <= i && i < to && tkind(i) == k ==> b <= i && i < b + len(xs))
//@ def noKind(from int, to int, k int) bool := forall i int :: {tkind(i)} from <= i && i < to ==> tkind(i) != k
//@ def atleast(from int, to int, r int) bool := forall i int :: {tkind(i)} from <= i && i < to ==> rank(tkind(i)) >= r
//@ def noErr(from int, to int) bool := forall i int :: {terr(i)} from <= i && i < to ==> !terr(i)
//@ def wfDay(d *Day) bool := d != nil
//@     && (forall i int :: {d.Transactions[i]} 0 <= i && i < len(d.Transactions) ==> d.Transactions[i] != nil)
//@     && (forall i int :: {d.Assertions[i]} 0 <= i && i < len(d.Assertions) ==> d.Assertions[i] != nil)
//
//@ func (*Processor).Process
//@   requires wfDay(d)
//@   callback DayStart=0, Price=1, Open=2, Transaction=3, Posting=3, Assertion=4, Balance=4, Close=5, DayEnd=6
//@   ensures @order: ordered(old(tlen()), tlen())
//@   ensures @abort: result == nil ==> noErr(old(tlen()), tlen())
//@   ensures @abort2: result != nil ==> tlen() > old(tlen()) && terr(tlen() - 1) && noErr(old(tlen()), tlen() - 1)
//@   ensures @daystart: result == nil && proc.DayStart != nil ==> tlen() > old(tlen()) && tkind(old(tlen())) == kind("DayStart") && targ0(old(tlen())) == d
//@   ensures @dayend: result == nil && proc.DayEnd != nil ==> tlen() > old(tlen()) && tkind(tlen() - 1) == kind("DayEnd") && targ0(tlen() - 1) == d
//@   ensures @prices: result == nil && proc.Price != nil ==> segment(old(tlen()) + (proc.DayStart != nil ? 1 : 0), d.Prices, kind("Price"), old(tlen()), tlen())
//@   ensures @opens: result == nil && proc.Open != nil ==> segmentO(old(tlen()) + (proc.DayStart != nil ? 1 : 0) + (proc.Price != nil ? len(d.Prices) : 0), d.Openings, kind("Open"), old(tlen()), tlen())
//@   ensures @closes: result == nil && proc.Close != nil ==> segmentC(tlen() - (proc.DayEnd != nil ? 1 : 0) - len(d.Closings), d.Closings, kind("Close"), old(tlen()), tlen())
//@   loop 1 invariant noErr(old(tlen()), tlen())
//@   loop 1 invariant atleast(entry(tlen()), tlen(), 1)
//@   loop 1 invariant 0 <= $i && $i <= len(d.Prices)
//@   loop 1 invariant entry(tlen()) == old(tlen()) + (proc.DayStart != nil ? 1 : 0) && noKind(old(tlen()), entry(tlen()), kind("Price"))
//@   loop 1 invariant tlen() == entry(tlen()) + $i && ordered(old(tlen()), tlen()) && upto(old(tlen()), tlen(), 1)
//@   loop 1 invariant forall k int :: {d.Prices[k]} 0 <= k && k < $i ==> tkind(entry(tlen()) + k) == kind("Price") && targ0(entry(tlen()) + k) == d.Prices[k]
//@   loop 2 invariant noErr(old(tlen()), tlen())
//@   loop 2 invariant atleast(entry(tlen()), tlen(), 2)
//@   loop 2 invariant 0 <= $i && $i <= len(d.Openings)
//@   loop 2 invariant entry(tlen()) == old(tlen()) + (proc.DayStart != nil ? 1 : 0) + (proc.Price != nil ? len(d.Prices) : 0) && noKind(old(tlen()), entry(tlen()), kind("Open"))
//@   loop 2 invariant tlen() == entry(tlen()) + $i && ordered(old(tlen()), tlen()) && upto(old(tlen()), tlen(), 2)
//@   loop 2 invariant forall k int :: {d.Openings[k]} 0 <= k && k < $i ==> tkind(entry(tlen()) + k) == kind("Open") && targ0(entry(tlen()) + k) == d.Openings[k]
//@   loop 3 invariant noErr(old(tlen()), tlen())
//@   loop 3 invariant atleast(entry(tlen()), tlen(), 3)
//@   loop 3 invariant tlen() >= entry(tlen()) && ordered(old(tlen()), tlen()) && upto(old(tlen()), tlen(), 3)
//@   loop 4 invariant noErr(old(tlen()), tlen())
//@   loop 4 invariant atleast(entry(tlen()), tlen(), 3)
//@   loop 4 invariant tlen() == entry(tlen()) + $i && ordered(old(tlen()), tlen()) && upto(old(tlen()), tlen(), 3)
//@   loop 5 invariant noErr(old(tlen()), tlen())
//@   loop 5 invariant atleast(entry(tlen()), tlen(), 3)
//@   loop 5 invariant tlen() >= entry(tlen()) && ordered(old(tlen()), tlen()) && upto(old(tlen()), tlen(), 3)
//@   loop 6 invariant noErr(old(tlen()), tlen())
//@   loop 6 invariant atleast(entry(tlen()), tlen(), 3)
//@   loop 6 invariant tlen() == entry(tlen()) + $i && ordered(old(tlen()), tlen()) && upto(old(tlen()), tlen(), 3)
//@   loop 7 invariant noErr(old(tlen()), tlen())
//@   loop 7 invariant atleast(entry(tlen()), tlen(), 4)
//@   loop 7 invariant tlen() >= entry(tlen()) && ordered(old(tlen()), tlen()) && upto(old(tlen()), tlen(), 4)
//@   loop 8 invariant noErr(old(tlen()), tlen())
//@   loop 8 invariant atleast(entry(tlen()), tlen(), 4)
//@   loop 8 invariant tlen() == entry(tlen()) + $i && ordered(old(tlen()), tlen()) && upto(old(tlen()), tlen(), 4)
//@   loop 9 invariant noErr(old(tlen()), tlen())
//@   loop 9 invariant atleast(entry(tlen()), tlen(), 4)
//@   loop 9 invariant tlen() >= entry(tlen()) && ordered(old(tlen()), tlen()) && upto(old(tlen()), tlen(), 4)
//@   loop 10 invariant noErr(old(tlen()), tlen())
//@   loop 10 invariant atleast(entry(tlen()), tlen(), 4)
//@   loop 10 invariant tlen() == entry(tlen()) + $i && ordered(old(tlen()), tlen()) && upto(old(tlen()), tlen(), 4)
//@   loop 11 invariant noErr(old(tlen()), tlen())
//@   loop 11 invariant atleast(entry(tlen()), tlen(), 5)
//@   loop 11 invariant 0 <= $i && $i <= len(d.Closings)
//@   loop 11 invariant noKind(old(tlen()), entry(tlen()), kind("Close"))
//@   loop 11 invariant tlen() == entry(tlen()) + $i && ordered(old(tlen()), tlen()) && upto(old(tlen()), tlen(), 5)
//@   loop 11 invariant forall k int :: {d.Closings[k]} 0 <= k && k < $i ==> tkind(entry(tlen()) + k) == kind("Close") && targ0(entry(tlen()) + k) == d.Closings[k]
//@   loop 4 invariant 0 <= $i && $i <= len(t.Postings)
//@   loop 4 invariant forall m int :: {t.Postings[m]} 0 <= m && m < $i ==> tkind(entry(tlen()) + m) == kind("Posting") && targ0(entry(tlen()) + m) == t && targ1(entry(tlen()) + m) == t.Postings[m]
//@   loop 6 invariant 0 <= $i && $i <= len(t.Postings)
//@   loop 6 invariant forall m int :: {t.Postings[m]} 0 <= m && m < $i ==> tkind(entry(tlen()) + m) == kind("Posting") && targ0(entry(tlen()) + m) == t && targ1(entry(tlen()) + m) == t.Postings[m]
//@   loop 8 invariant 0 <= $i && $i <= len(a.Balances)
//@   loop 8 invariant forall m int :: {elemAddr(a.Balances, m)} 0 <= m && m < $i ==> tkind(entry(tlen()) + m) == kind("Balance") && targ0(entry(tlen()) + m) == a && targ1(entry(tlen()) + m) == elemAddr(a.Balances, m)
//@   loop 10 invariant 0 <= $i && $i <= len(a.Balances)
//@   loop 10 invariant forall m int :: {elemAddr(a.Balances, m)} 0 <= m && m < $i ==> tkind(entry(tlen()) + m) == kind("Balance") && targ0(entry(tlen()) + m) == a && targ1(entry(tlen()) + m) == elemAddr(a.Balances, m)
