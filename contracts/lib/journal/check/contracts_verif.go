//go:build verif

// Contracts for package check (machine-checked by /verif/engine; comment-only file).
//
// Abstract state of the checker: open = dom(ch.accounts); qty(a, c) = ch.quantities[Key{Account: a,
// Commodity: c}] (zero if absent). The postconditions are taken from the statement of property C04.
package check

//@ def pos(a *account.Account, c *commodity.Commodity) amounts.Key := amounts.Key{Account: a, Commodity: c}
//@ def qty(ch *Checker, a *account.Account, c *commodity.Commodity) real := ch.quantities[pos(a, c)]
//@ def wfChecker(ch *Checker) bool := ch.accounts != nil && ch.quantities != nil && !(nil in ch.accounts)
//@     && (forall k amounts.Key :: {k in ch.quantities} (k in ch.quantities) ==> k.Commodity != nil && k.Account != nil)
//
// open: accepted iff the account is not open yet; on success exactly that account becomes open.
//@ func (*Checker).open
//@   requires wfChecker(ch) && o != nil && validAccount(o.Account)
//@   modifies ch.accounts[*]
//@   ensures @iff: result == nil <==> !old(o.Account in ch.accounts)
//@   ensures @succ: result == nil ==> dom(ch.accounts) == upd(old(dom(ch.accounts)), o.Account, true)
//@   ensures @fail: result != nil ==> dom(ch.accounts) == old(dom(ch.accounts))
//@   ensures wfChecker(ch)
//
// posting: accepted iff the account is open; asset/liability quantities are accumulated.
//@ func (*Checker).posting
//@   requires wfChecker(ch) && p != nil && validAccount(p.Account) && p.Commodity != nil
//@   modifies ch.quantities[*]
//@   ensures @iff: result == nil <==> old(p.Account in ch.accounts)
//@   ensures @al: result == nil && isAL(p.Account) ==> dom(ch.quantities) == upd(old(dom(ch.quantities)), pos(p.Account, p.Commodity), true)
//@        && vals(ch.quantities) == upd(old(vals(ch.quantities)), pos(p.Account, p.Commodity), old(qty(ch, p.Account, p.Commodity)) + p.Quantity)
//@   ensures @other: result != nil || !isAL(p.Account) ==> dom(ch.quantities) == old(dom(ch.quantities)) && vals(ch.quantities) == old(vals(ch.quantities))
//@   ensures wfChecker(ch)
//
// balance: accepted iff the account is open and, for an asset/liability account (unless checking is
// switched off), the asserted quantity equals the running quantity (zero if there never was one).
//@ func (*Checker).balance
//@   requires wfChecker(ch) && bal != nil && bal.Commodity != nil && validAccount(bal.Account)
//@   ensures @open: result == nil ==> (bal.Account in ch.accounts)
//@   ensures @al: (bal.Account in ch.accounts) && isAL(bal.Account) && !ch.NoCheck ==> (result == nil <==> qty(ch, bal.Account, bal.Commodity) == bal.Quantity)
//@   ensures @nocheck: (bal.Account in ch.accounts) && ch.NoCheck ==> result == nil
//@   ensures [C04] @other: (bal.Account in ch.accounts) && !isAL(bal.Account) ==> result == nil
//
// close: accepted iff the account is open and all its (asset/liability) positions are zero; on success
// the account is no longer open and its positions are dropped; other positions are untouched.
//@ func (*Checker).close
//@   requires wfChecker(ch) && c != nil && validAccount(c.Account)
//@   modifies ch.accounts[*], ch.quantities[*]
//@   ensures @iff: result == nil <==> (old(c.Account in ch.accounts)
//@        && (forall k amounts.Key :: old(k in ch.quantities) && k.Account == c.Account ==> old(ch.quantities[k]) == 0))
//@   ensures @succ: result == nil ==> dom(ch.accounts) == upd(old(dom(ch.accounts)), c.Account, false)
//@        && (forall k amounts.Key :: (k in ch.quantities) <==> (old(k in ch.quantities) && k.Account != c.Account))
//@   ensures @vals: forall k amounts.Key :: (k in ch.quantities) ==> ch.quantities[k] == old(ch.quantities[k])
//@   ensures @others: forall k amounts.Key :: k.Account != c.Account ==> ((k in ch.quantities) <==> old(k in ch.quantities))
//@   ensures wfChecker(ch)
//@   loop 1 invariant forall k amounts.Key :: {$seen[k]} $seen[k] ==> old(k in ch.quantities)
//@   loop 1 invariant forall k amounts.Key :: {$seen[k]} $seen[k] && k.Account == c.Account ==> old(ch.quantities[k]) == 0 && !(k in ch.quantities)
//@   loop 1 invariant forall k amounts.Key :: {k in ch.quantities} !($seen[k] && k.Account == c.Account) ==> ((k in ch.quantities) <==> old(k in ch.quantities))
//@   loop 1 invariant vals(ch.quantities) == old(vals(ch.quantities)) && dom(ch.accounts) == old(dom(ch.accounts))
//
//@ func (*Checker).dayEnd
//@   requires wfChecker(ch) && d != nil
//@   modifies ch.assertions, ch.assertions[*]
//@   ensures result == nil
//@   ensures dom(ch.quantities) == old(dom(ch.quantities)) && vals(ch.quantities) == old(vals(ch.quantities))
//@   loop 1 invariant fresh(bal)
//
// Commutation within one kind on one day (C05): two directives of the same kind can be checked in
// either order - the verdict is the same and, when accepted, so is the checker's state.
//@ commute postings_commute [C05]: (*Checker).posting shared ch
//@ commute opens_commute [C05]: (*Checker).open shared ch
//@ commute balances_commute [C05]: (*Checker).balance shared ch
//@ commute closes_commute [C05]: (*Checker).close shared ch
//
// Check (the constructor): the checker starts from the empty state - no account open, no quantity
// tracked - and all four lifecycle callbacks are wired into the processor (a missing one would silently
// switch that part of the check off); the assertion collector runs only with --write.
//@ func (*Checker).Check
//@   requires ch != nil
//@   modifies ch.quantities, ch.accounts, ch.assertions
//@   ensures [C04] @fresh: wfChecker(ch) && fresh(ch.quantities) && fresh(ch.accounts) && len(ch.quantities) == 0 && len(ch.accounts) == 0 && len(ch.assertions) == 0
//@   ensures [C04] @wired: result != nil && fresh(result) && result.Open != nil && result.Posting != nil && result.Balance != nil && result.Close != nil
//@        && result.DayStart == nil && result.Price == nil && result.Transaction == nil && result.Assertion == nil && (result.DayEnd != nil <==> ch.Write)
