//go:build verif

// Contracts for package beancount (machine-checked by /verif/engine; comment-only file).
package beancount

//@ def okPst(p *model.Posting) bool := p != nil && p.Account != nil
//@ def okTrx(t *model.Transaction) bool := t != nil && (forall i int :: {t.Postings[i]} 0 <= i && i < len(t.Postings) ==> okPst(t.Postings[i]))
// Open-before-use (property C16): an account used by a posting of a checked journal was either opened by
// the journal itself on or before that day (openedInJournal: what `check` enforces) or it is one of the
// valuation accounts that Valuate invents for its adjustments (isValuation: the Income:<path> mirror of
// an asset/liability account) - for those Transcode itself has to write the open directive.
//@ spec openedInJournal(a *account.Account) bool
//@ spec isValuation(a *account.Account) bool
//@ def okDay(d *journal.Day) bool := d != nil
//@     && (forall i int, m int :: {d.Transactions[i].Postings[m]} 0 <= i && i < len(d.Transactions) && 0 <= m && m < len(d.Transactions[i].Postings) ==>
//@          openedInJournal(d.Transactions[i].Postings[m].Account) || isValuation(d.Transactions[i].Postings[m].Account))
//@     && (forall i int :: {d.Transactions[i]} 0 <= i && i < len(d.Transactions) ==> okTrx(d.Transactions[i]))
//@     && (forall i int :: {d.Openings[i]} 0 <= i && i < len(d.Openings) ==> d.Openings[i] != nil)
//@     && (forall i int :: {d.Closings[i]} 0 <= i && i < len(d.Closings) ==> d.Closings[i] != nil)
//
// A journal can be transcoded when its days, transactions, postings and accounts are present and the
// days own disjoint transaction slices (each day's slice is sorted in place).
//@ def transcodable(j *journal.Journal) bool := j != nil && (forall i int :: {j.Days[i]} 0 <= i && i < len(j.Days) ==> okDay(j.Days[i]))
//@     && (forall a int, b int :: {j.Days[a], j.Days[b]} 0 <= a && a < b && b < len(j.Days) ==> j.Days[a] != j.Days[b] && base(j.Days[a].Transactions) != base(j.Days[b].Transactions))
//
// writePosting: the amount written is the posting's VALUE in the valuation commodity (its quantity
// only when no valuation commodity is given), next to the posting's own account.
//@ func writePosting
//@   requires okPst(p) && c != nil
//@   callback Fprintf=0
//@   ensures [C16] @value: tlen() == old(tlen()) + 1 && len(targ("Fprintf", 2, old(tlen()))) == 3
//@        && typeIs(targ("Fprintf", 2, old(tlen()))[1], "decimal.Decimal") && dyn(targ("Fprintf", 2, old(tlen()))[1], "decimal.Decimal") == p.Value
//
// writeTrx: every posting of the transaction is written exactly once, in order, and nothing else.
//@ func writeTrx
//@   requires okTrx(t) && c != nil
//@   callback writePosting=0
//@   ensures [C16] @all: result == nil ==> tlen() == old(tlen()) + len(t.Postings)
//@        && (forall k int :: {t.Postings[k]} 0 <= k && k < len(t.Postings) ==> targ("writePosting", 1, old(tlen()) + k) == t.Postings[k])
//@   loop 1 invariant 0 <= $i && $i <= len($range) && $range == t.Postings && tlen() == old(tlen()) + $i
//@   loop 1 invariant forall k int :: {t.Postings[k]} 0 <= k && k < $i ==> targ("writePosting", 1, old(tlen()) + k) == t.Postings[k]
//
// Transcode: days in the order of the journal; per day the transactions are sorted by
// transaction.Compare (a permutation of the day's transactions: nothing lost, nothing duplicated) and
// each is written exactly once in that order; `written` counts them.
//@ func Transcode
//@   requires [C14] @val: c != nil
//@   requires transcodable(j)
//@   modifies *
//@   callback writeTrx=0
//@   ghost written int = 0
//@   loop 1 ghost-end written := written + len(day.Transactions)
//@   ensures [C16] @count: result == nil ==> tlen() == old(tlen()) + written
//@   loop 1 invariant 0 <= $i && $i <= len($range) && tlen() == old(tlen()) + written && c != nil && openValAccounts != nil
//@   loop 1 invariant $range == j.Days && (forall i int :: {$range[i]} $i <= i && i < len($range) ==> okDay($range[i]))
//@   loop 2 invariant 0 <= $i && $i <= len($range) && tlen() == entry(tlen()) && c != nil && openValAccounts != nil
//@   loop 3 invariant 0 <= $i && $i <= len($range) && tlen() == entry(tlen()) && c != nil && openValAccounts != nil && okDay(day)
//@   loop 4 invariant 0 <= $i && $i <= len($range) && tlen() == entry(tlen()) && c != nil && openValAccounts != nil && okDay(day)
//@   loop 5 invariant [C16] @opened: forall k int, m int :: {$range[k].Postings[m]} 0 <= k && k < len($range) && 0 <= m && m < len($range[k].Postings) && isValuation($range[k].Postings[m].Account)
//@        ==> ($range[k].Postings[m].Account in openValAccounts)
//@   loop 5 invariant [C16] @each: 0 <= $i && $i <= len($range) && $range == day.Transactions && okDay(day) && c != nil && openValAccounts != nil && tlen() == entry(tlen()) + $i
//@        && (forall k int :: {$range[k]} 0 <= k && k < $i ==> targ("writeTrx", 1, entry(tlen()) + k) == $range[k])
//@   loop 6 invariant 0 <= $i && $i <= len($range) && tlen() == entry(tlen()) && c != nil && openValAccounts != nil
