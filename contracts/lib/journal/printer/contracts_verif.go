//go:build verif

// Contracts for package journal/printer (comment-only file).
package printer

// Printing a model directive is outside the verified set (formatting of text); it is trusted to touch
// nothing but the printer's byte counter.
//@ func (*Printer).PrintDirective
//@   trusted
//@   requires p != nil
//@   modifies p.count
//
//@ func (*Printer).PrintDirectiveLn
//@   trusted
//@   requires p != nil
//@   modifies p.count
//
//@ func (*Printer).UpdatePadding
//@   trusted
//@   requires p != nil
//@   modifies p.padding
