//go:build verif

// Contracts for package journal/printer (comment-only file).
package printer

// Printing a model directive is outside the verified set (formatting of text); it is trusted to touch
// nothing but the printer's byte counter.
//@ func (*Printer).PrintDirective
//@   trusted
//@   requires p != nil
//@   modifies p.count
//
//@ func (*Printer).PrintDirectiveLn
//@   trusted
//@   requires p != nil
//@   modifies p.count
//
//@ func (*Printer).UpdatePadding
//@   trusted
//@   requires p != nil
//@   modifies p.padding
//
// quotable(s): the text can be written between double quotes and read back by knut's parser (no double
// quote, no line break: the syntax has no escape sequences). The transaction printer writes the
// description as "%s" without any check; journals that come from the parser satisfy this by construction,
// texts that come from bank statements need not (property C13).
//@ spec quotable(s string) bool

