//go:build verif

// Contracts for package weights (machine-checked by /verif/engine; comment-only file).
package weights

// The sibling comparator of the weights tree (C06): siblings have distinct segments, so the row order
// is a function of the report alone iff a tie between two siblings implies equal segments.
// (float64 weights are treated as reals - listed assumption.)
//@ func (*Report).SortWeighted$2
//@   requires n1 != nil && n2 != nil
//@   ensures [C06] @tie: result == 0 ==> n1.Segment == n2.Segment
//
// Report.Add walks the weights tree (trusted: tree traversal); it touches only the report.
//@ func (*Report).Add
//@   trusted
//@   requires r != nil
//@   modifies fields(r.weights), r.dates[*]
//
// Execute (the day-end callback): on a period end day every commodity with a value contributes its
// share value/total under its (mapped) classification path; the universe - the classification of every
// commodity - is only read: the same commodity is classified the same way on every reporting date.
// The commodities are visited in the order of dict.SortedKeys(V1, commodity.Compare) - a fixed order, because
// float64 sums depend on the order of their terms (the reals of this model do not: see the bounded stand-in
// weights-order of C06); the slice the loops range over ($range) holds keys of V1 only (contract of
// dict.SortedKeys) - the invariants name no local of the body except `total`, the day's total value.
//@ func (Query).Execute$1
//@   requires d != nil && d.Performance != nil && r != nil && wfMapping(q.Mapping) && days != nil && (forall c *commodity.Commodity :: {key(d.Performance.V1, c)} (c in d.Performance.V1) ==> c != nil)
//@   modifies fields(r.weights), r.dates[*]
//@   callback Add=0
//@   ensures result == nil
//@   ensures [C20] @skipped: !(d in days) ==> tlen() == old(tlen())
//@   loop 1 invariant tlen() == old(tlen()) && fresh($range)
//@   loop 1 invariant forall k int :: {$range[k]} 0 <= k && k < len($range) ==> ($range[k] in d.Performance.V1)
//@   loop 1 invariant [C06] @ordered: forall a int, b int :: {$range[a], $range[b]} 0 <= a && a < b && b < len($range) ==> $range[a].name <= $range[b].name
//@   loop 2 invariant tlen() >= old(tlen()) && fresh($range)
//@   loop 2 invariant [C06] @ordered: forall a int, b int :: {$range[a], $range[b]} 0 <= a && a < b && b < len($range) ==> $range[a].name <= $range[b].name
//@   loop 2 invariant forall k int :: {$range[k]} 0 <= k && k < len($range) ==> ($range[k] in d.Performance.V1)
//@   loop 2 invariant [C20] @share: forall i int :: {targ("Add", 2, i)} entry(tlen()) <= i && i < tlen() ==> (exists k int :: 0 <= k && k < $i && targ("Add", 2, i) == d.Performance.V1[$range[k]] / total) && targ("Add", 1, i) == d.Date
//
// Execute (constructor): the period end days are added to the builder (so that they exist when the
// journal is built afterwards); nothing else is touched.
//@ func (Query).Execute
//@   requires wfBuilder(j) && r != nil
//@   modifies j.days[*]
//@   callback Days=0
//@   ensures [C20] result != nil && wfBuilder(j) && tlen() == old(tlen()) + 1 && trecv("Days", old(tlen())) == j
//
// PropagateWeights (the visitor): a node's weight at a date grows by the weights of its children at
// that date - every child counts, whether or not the node is a leaf of the universe; dates that no child
// has keep their weight; the children's own weights are not changed. The children are visited in the order of
// their segments (dict.SortedValues: exactly the values of n.Children, each of them).
//@ def childOK(n *Node) bool := n != nil && (forall k string :: {key(n.Children, k)} (k in n.Children) ==> n.Children[k] != nil && n.Children[k] != n
//@     && (n.Children[k].Value.Weights == nil || n.Children[k].Value.Weights != n.Value.Weights) && live(n.Children[k].Value.Weights))
//@ func (*Report).PropagateWeights$1
//@   requires childOK(n)
//@   modifies n.Value.Weights, n.Value.Weights[*]
//@   ensures [C20] @nonnil: n.Value.Weights != nil && (old(n.Value.Weights) != nil ==> n.Value.Weights == old(n.Value.Weights))
//@   ensures [C20] @covers: forall k string, dt time.Time :: {key(n.Children, k), key(n.Value.Weights, dt)} (k in n.Children) && (dt in n.Children[k].Value.Weights) ==> (dt in n.Value.Weights)
//@   loop 1 invariant n.Value.Weights != nil && childOK(n) && (old(n.Value.Weights) != nil ==> n.Value.Weights == old(n.Value.Weights)) && dom(n.Children) == old(dom(n.Children)) && vals(n.Children) == old(vals(n.Children))
//@   loop 1 invariant fresh($range) && 0 <= $i && $i <= len($range)
//@   loop 1 invariant forall j int :: {$range[j]} 0 <= j && j < len($range) ==> (exists k string :: (k in n.Children) && n.Children[k] == $range[j])
//@   loop 1 invariant forall k string :: {key(n.Children, k)} (k in n.Children) ==> (exists j int :: 0 <= j && j < len($range) && $range[j] == n.Children[k])
//@   loop 1 invariant forall j int, dt time.Time :: {$range[j], key(n.Value.Weights, dt)} 0 <= j && j < $i && (dt in $range[j].Value.Weights) ==> (dt in n.Value.Weights)
//@   loop 2 invariant n.Value.Weights != nil && childOK(n) && (old(n.Value.Weights) != nil ==> n.Value.Weights == old(n.Value.Weights)) && dom(n.Children) == old(dom(n.Children)) && vals(n.Children) == old(vals(n.Children))
//@   loop 2 invariant fresh($range1) && 0 <= $i1 && $i1 < len($range1) && ch == $range1[$i1]
//@   loop 2 invariant forall j int :: {$range1[j]} 0 <= j && j < len($range1) ==> (exists k string :: (k in n.Children) && n.Children[k] == $range1[j])
//@   loop 2 invariant forall k string :: {key(n.Children, k)} (k in n.Children) ==> (exists j int :: 0 <= j && j < len($range1) && $range1[j] == n.Children[k])
//@   loop 2 invariant ch != nil && ch != n && ch.Value.Weights != n.Value.Weights
//@   loop 2 invariant forall dt time.Time :: {key(n.Value.Weights, dt)} entry(dt in n.Value.Weights) ==> (dt in n.Value.Weights)
//@   loop 2 invariant forall dt time.Time :: {$seen[dt]} $seen[dt] ==> (dt in n.Value.Weights) && (dt in ch.Value.Weights)
//@   loop 2 invariant forall j int, dt time.Time :: {$range1[j], key(n.Value.Weights, dt)} 0 <= j && j < $i1 && (dt in $range1[j].Value.Weights) ==> (dt in n.Value.Weights)
