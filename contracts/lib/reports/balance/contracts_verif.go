//go:build verif

// Contracts for package balance (machine-checked by /verif/engine; comment-only file).
package balance

// render: one complete table row per commodity of vals (or one filler row if vals is empty); the
// numeric cells of a row are, per period end date in order, the running sum of the amounts up to that
// date (cumulative mode) or the amount of that date alone (--diff), negated when neg is set.
// Ghost: cum[j] = running sum up to date j of the current row, defined by cum[0] = v0, cum[j] = cum[j-1] + vj.
//@ def widthOK(rn *Renderer, t *table.Table) bool := len(t.columns) == 1 + (rn.drawCommsColumn ? 1 : 0) + len(rn.partition.periods)
//@ def allComplete(t *table.Table) bool := forall k int :: {t.rows[k]} 0 <= k && k < len(t.rows) ==> complete(t.rows[k], t) && live(t.rows[k])
//
//@ func (*Renderer).render
//@   requires t != nil && widthOK(rn, t) && allComplete(t)
//@   modifies t.rows, elems(t.rows), elems(t.rows[0].cells)
//@   ghost cum []real = 0
//@   callback CommoditiesSorted=0
//@   ensures [C06] [C02] @sorted: len(vals) != 0 ==> tlen() == old(tlen()) + 1 && trecv("CommoditiesSorted", old(tlen())) == vals
//@   loop 1 invariant [C06] [C02] @order: tlen() == old(tlen()) + 1 && $range == tres("CommoditiesSorted", old(tlen()))
//@   loop 2 ghost-end cum := upd(cum, $i - 1, ($i == 1 ? 0.0 : cum[$i - 2]) + vals[amounts.Key{Date: date, Commodity: commodity}])
//@   ensures @rect: allComplete(t) && len(t.rows) >= old(len(t.rows)) && t.columns == old(t.columns)
//@   ensures @kept: forall k int :: {t.rows[k]} 0 <= k && k < old(len(t.rows)) ==> t.rows[k] == old(t.rows[k])
//@   loop 1 invariant widthOK(rn, t) && len(t.rows) >= old(len(t.rows)) && t.columns == old(t.columns)
//@   loop 1 invariant forall k int :: {t.rows[k]} 0 <= k && k < old(len(t.rows)) ==> t.rows[k] == old(t.rows[k])
//@   loop 1 invariant forall k int :: {t.rows[k]} 0 <= k && k < len(t.rows) ==> t.rows[k] != nil && live(t.rows[k]) && len(t.rows[k].cells) == len(t.columns)
//@   loop 2 invariant widthOK(rn, t) && len(t.rows) >= old(len(t.rows)) && t.columns == old(t.columns) && rowOf(row, t) && fresh(row) && 0 <= $i && $i <= len($range) && len($range) == len(rn.partition.periods)
//@   loop 2 invariant len(row.cells) == 1 + (rn.drawCommsColumn ? 1 : 0) + $i && t.rows[len(t.rows) - 1] == row
//@   loop 2 invariant forall k int :: {t.rows[k]} 0 <= k && k < old(len(t.rows)) ==> t.rows[k] == old(t.rows[k])
//@   loop 2 invariant forall k int :: {t.rows[k]} 0 <= k && k < len(t.rows) - 1 ==> t.rows[k] != nil && live(t.rows[k]) && len(t.rows[k].cells) == len(t.columns)
//@   loop 2 invariant @cell: $i > 0 ==> typeIs(row.cells[len(row.cells) - 1], "table.numberCell")
//@        && dyn(row.cells[len(row.cells) - 1], "table.numberCell").n == (neg ? 0.0 - (rn.Diff ? vals[amounts.Key{Date: $range[$i - 1], Commodity: commodity}] : cum[$i - 1]) : (rn.Diff ? vals[amounts.Key{Date: $range[$i - 1], Commodity: commodity}] : cum[$i - 1]))
//@   loop 2 invariant @total: !rn.Diff ==> total == ($i == 0 ? 0.0 : cum[$i - 1])
//
// The sibling comparators of the report tree (C06): siblings have distinct segments (they are the keys
// of one Children map), so the row order is a function of the report alone iff a tie between two
// siblings implies equal segments (top-level nodes: equal account types).
//@ def nodeReady(n *Node) bool := n != nil && n.Value.Account != nil
//@ func (*Report).SortAlpha$1
//@   requires nodeReady(n1) && nodeReady(n2)
//@   ensures [C06] @tie: result == 0 ==> (len(n1.Value.Account.segments) == 1 && len(n2.Value.Account.segments) == 1 ? n1.Value.Account.accountType == n2.Value.Account.accountType : n1.Segment == n2.Segment)
//
//@ func (*Report).SortWeighted$2
//@   requires nodeReady(n1) && nodeReady(n2)
//@   ensures [C06] @tie: result == 0 ==> (len(n1.Value.Account.segments) == 1 && len(n2.Value.Account.segments) == 1 ? n1.Value.Account.accountType == n2.Value.Account.accountType : n1.Segment == n2.Segment)
