//go:build verif

// Contracts for package balance (machine-checked by /verif/engine; comment-only file).
package balance

// render: one complete table row per commodity of vals (or one filler row if vals is empty); the
// numeric cells of a row are, per period end date in order, the running sum of the amounts up to that
// date (cumulative mode) or the amount of that date alone (--diff), negated when neg is set.
// Ghost: cum[j] = running sum up to date j of the current row, defined by cum[0] = v0, cum[j] = cum[j-1] + vj.
//@ def widthOK(rn *Renderer, t *table.Table) bool := len(t.columns) == 1 + (rn.drawCommsColumn ? 1 : 0) + len(rn.partition.periods)
//@ def allComplete(t *table.Table) bool := forall k int :: {t.rows[k]} 0 <= k && k < len(t.rows) ==> complete(t.rows[k], t) && live(t.rows[k])
//
//@ func (*Renderer).render
//@   requires t != nil && widthOK(rn, t) && allComplete(t)
//@   modifies t.rows, elems(t.rows), elems(t.rows[0].cells)
//@   ghost cum []real = 0
//@   callback CommoditiesSorted=0
//@   ensures [C06] [C02] @sorted: len(vals) != 0 ==> tlen() == old(tlen()) + 1 && trecv("CommoditiesSorted", old(tlen())) == vals
//@   loop 1 invariant [C06] [C02] @order: tlen() == old(tlen()) + 1 && $range == tres("CommoditiesSorted", old(tlen()))
//@   loop 2 ghost-end cum := upd(cum, $i - 1, ($i == 1 ? 0.0 : cum[$i - 2]) + vals[amounts.Key{Date: date, Commodity: commodity}])
//@   ensures @rect: allComplete(t) && len(t.rows) >= old(len(t.rows)) && t.columns == old(t.columns)
//@   ensures @kept: forall k int :: {t.rows[k]} 0 <= k && k < old(len(t.rows)) ==> t.rows[k] == old(t.rows[k])
//@   loop 1 invariant widthOK(rn, t) && len(t.rows) >= old(len(t.rows)) && t.columns == old(t.columns)
//@   loop 1 invariant forall k int :: {t.rows[k]} 0 <= k && k < old(len(t.rows)) ==> t.rows[k] == old(t.rows[k])
//@   loop 1 invariant forall k int :: {t.rows[k]} 0 <= k && k < len(t.rows) ==> t.rows[k] != nil && live(t.rows[k]) && len(t.rows[k].cells) == len(t.columns)
//@   loop 2 invariant widthOK(rn, t) && len(t.rows) >= old(len(t.rows)) && t.columns == old(t.columns) && rowOf(row, t) && fresh(row) && 0 <= $i && $i <= len($range) && len($range) == len(rn.partition.periods)
//@   loop 2 invariant len(row.cells) == 1 + (rn.drawCommsColumn ? 1 : 0) + $i && t.rows[len(t.rows) - 1] == row
//@   loop 2 invariant forall k int :: {t.rows[k]} 0 <= k && k < old(len(t.rows)) ==> t.rows[k] == old(t.rows[k])
//@   loop 2 invariant forall k int :: {t.rows[k]} 0 <= k && k < len(t.rows) - 1 ==> t.rows[k] != nil && live(t.rows[k]) && len(t.rows[k].cells) == len(t.columns)
//@   loop 2 invariant @cell: $i > 0 ==> typeIs(row.cells[len(row.cells) - 1], "table.numberCell")
//@        && dyn(row.cells[len(row.cells) - 1], "table.numberCell").n == (neg ? 0.0 - (rn.Diff ? vals[amounts.Key{Date: $range[$i - 1], Commodity: commodity}] : cum[$i - 1]) : (rn.Diff ? vals[amounts.Key{Date: $range[$i - 1], Commodity: commodity}] : cum[$i - 1]))
//@   loop 2 invariant @total: !rn.Diff ==> total == ($i == 0 ? 0.0 : cum[$i - 1])
//
// The sibling comparators of the report tree (C06): siblings have distinct segments (they are the keys
// of one Children map), so the row order is a function of the report alone iff a tie between two
// siblings implies equal segments (top-level nodes: equal account types).
//@ def nodeReady(n *Node) bool := n != nil && n.Value.Account != nil
//@ func (*Report).SortAlpha$1
//@   requires nodeReady(n1) && nodeReady(n2)
//@   ensures [C06] @tie: result == 0 ==> (len(n1.Value.Account.segments) == 1 && len(n2.Value.Account.segments) == 1 ? n1.Value.Account.accountType == n2.Value.Account.accountType : n1.Segment == n2.Segment)
//
//@ func (*Report).SortWeighted$2
//@   requires nodeReady(n1) && nodeReady(n2)
//@   ensures [C06] @tie: result == 0 ==> (len(n1.Value.Account.segments) == 1 && len(n2.Value.Account.segments) == 1 ? n1.Value.Account.accountType == n2.Value.Account.accountType : n1.Segment == n2.Segment)
//
// Insert: an amount is filed under the account of its key - in the A/L tree iff that account is an
// asset or liability account, else in the E/I/E tree - at the node of the account's own segments, and
// added to that node's amounts under the full key with the given value: exactly one Add, nothing else.
// A key without account (hidden by a mapping) is not filed at all.
//@ func (*Report).Insert
//@   requires r != nil && r.AL != nil && r.EIE != nil && (k.Account != nil ==> validAccount(k.Account))
//@   modifies *
//@   callback GetOrCreate=0
//@   callback Add=1
//@   ensures [C01] [C02] @hidden: k.Account == nil ==> tlen() == old(tlen())
//@   ensures [C01] [C02] @filed: k.Account != nil ==> tlen() == old(tlen()) + 2
//@        && trecv("GetOrCreate", old(tlen())) == (old(isAL(k.Account)) ? old(r.AL) : old(r.EIE))
//@        && targ("GetOrCreate", 0, old(tlen())) == old(k.Account.segments)
//@        && trecv("Add", old(tlen()) + 1) == tres("GetOrCreate", old(tlen())).Value.Amounts
//@        && targ("Add", 0, old(tlen()) + 1) == k && targ("Add", 1, old(tlen()) + 1) == v
//@   ensures [C14] [C01] @account: k.Account != nil ==> tres("GetOrCreate", old(tlen())).Value.Account != nil
//
// Totals: the visitor adds the amounts of EVERY node it is given - whether or not the node has
// children - into the running total of its tree, unfiltered and under the caller's key mapper; the
// A/L tree is summed into the first result and the E/I/E tree into the second, both fresh.
//@ func (*Report).Totals$1
//@   requires n != nil && al != nil && n.Value.Amounts != al
//@   modifies al[*]
//@   callback SumIntoBy=0
//@   ensures [C01] [C02] @sum: tlen() == old(tlen()) + 1 && trecv("SumIntoBy", old(tlen())) == n.Value.Amounts && targ("SumIntoBy", 0, old(tlen())) == al
//@        && targ("SumIntoBy", 1, old(tlen())) == nil && targ("SumIntoBy", 2, old(tlen())) == m
//
//@ func (*Report).Totals$2
//@   requires n != nil && eie != nil && n.Value.Amounts != eie
//@   modifies eie[*]
//@   callback SumIntoBy=0
//@   ensures [C01] [C02] @sum: tlen() == old(tlen()) + 1 && trecv("SumIntoBy", old(tlen())) == n.Value.Amounts && targ("SumIntoBy", 0, old(tlen())) == eie
//@        && targ("SumIntoBy", 1, old(tlen())) == nil && targ("SumIntoBy", 2, old(tlen())) == m
//
//@ func (*Report).Totals
//@   requires r != nil && r.AL != nil && r.EIE != nil
//@   modifies nothing
//@   callback PostOrder=0
//@   ensures [C01] [C02] @trees: tlen() == old(tlen()) + 2 && trecv("PostOrder", old(tlen())) == old(r.AL) && trecv("PostOrder", old(tlen()) + 1) == old(r.EIE)
//@   ensures result.0 != nil && result.1 != nil && result.0 != result.1 && fresh(result.0) && fresh(result.1)
//
// The sorted children lists of the report tree hold nodes, all the way down (tree invariant
// established by multimap.Node.Sort; the tree is not modified while the table is rendered). It is an
// uninterpreted predicate with the one unfolding the renderer needs - a trusted data-structure invariant.
//@ spec sortedTree(n *Node) bool
//@ axiom sorted_tree_unfold: forall n *Node :: {sortedTree(n)} sortedTree(n) ==> n != nil && (forall i int :: {n.Sorted[i]} 0 <= i && i < len(n.Sorted) ==> sortedTree(n.Sorted[i]))
//
// renderNode: rows are only appended and every row is complete (the subtree is rendered recursively).
//@ func (*Renderer).renderNode
//@   requires t != nil && widthOK(rn, t) && allComplete(t) && sortedTree(n)
//@   modifies t.rows, elems(t.rows), elems(t.rows[0].cells)
//@   ensures @rect: allComplete(t) && widthOK(rn, t) && len(t.rows) >= old(len(t.rows)) && t.columns == old(t.columns)
//@   ensures @kept: forall k int :: {t.rows[k]} 0 <= k && k < old(len(t.rows)) ==> t.rows[k] == old(t.rows[k])
//@   loop 1 invariant 0 <= $i && $i <= len($range) && $range == n.Sorted && sortedTree(n)
//@   loop 1 invariant allComplete(t) && widthOK(rn, t) && len(t.rows) >= old(len(t.rows)) && t.columns == old(t.columns)
//@   loop 1 invariant forall k int :: {t.rows[k]} 0 <= k && k < old(len(t.rows)) ==> t.rows[k] == old(t.rows[k])
//
// SetAccounts / SortAlpha / SortWeighted walk the whole tree recursively (outside the contracts'
// reach); they are trusted to touch only tree nodes and, for SetAccounts, the account registry, and
// the sorts to establish the sorted-children invariant.
//@ func (*Report).SetAccounts
//@   trusted
//@   requires r != nil
//@   modifies fields(r.AL), r.Registry.accounts.index[*]
//
//@ func (*Report).SortAlpha
//@   trusted
//@   requires r != nil
//@   modifies fields(r.AL)
//@   ensures sortedTree(r.AL) && sortedTree(r.EIE)
//@   ensures (forall i int :: {r.AL.Sorted[i]} 0 <= i && i < len(r.AL.Sorted) ==> sortedTree(r.AL.Sorted[i])) && (forall i int :: {r.EIE.Sorted[i]} 0 <= i && i < len(r.EIE.Sorted) ==> sortedTree(r.EIE.Sorted[i]))
//
//@ func (*Report).SortWeighted
//@   trusted
//@   requires r != nil
//@   modifies fields(r.AL)
//@   ensures sortedTree(r.AL) && sortedTree(r.EIE)
//@   ensures (forall i int :: {r.AL.Sorted[i]} 0 <= i && i < len(r.AL.Sorted) ==> sortedTree(r.AL.Sorted[i])) && (forall i int :: {r.EIE.Sorted[i]} 0 <= i && i < len(r.EIE.Sorted) ==> sortedTree(r.EIE.Sorted[i]))
//
// Render: a rectangular table (every row complete); the "Delta" row renders, un-negated, the A/L
// total plus the E/I/E total - the two results of Report.Totals over the caller's key mapper, combined
// with Amounts.Plus (pointwise sum) - after "Total (A+L)" was rendered from the first (un-negated) and
// "Total (E+I+E)" from the second (negated).
//@ func (*Renderer).Render
//@   requires rn != nil && reportOK(r)
//@   modifies *
//@   callback Totals=0
//@   callback render=0
//@   callback Plus=0
//@   ensures [C01] [C02] [C17] @rect: result != nil && allComplete(result)
//@   ensures [C01] @delta: tlen() == old(tlen()) + 5
//@        && targ("render", 2, old(tlen()) + 1) == "Total (A+L)" && targ("render", 3, old(tlen()) + 1) == false && targ("render", 4, old(tlen()) + 1) == tres("Totals", old(tlen()))
//@        && targ("render", 2, old(tlen()) + 2) == "Total (E+I+E)" && targ("render", 3, old(tlen()) + 2) == true && targ("render", 4, old(tlen()) + 2) == tres1("Totals", old(tlen()))
//@        && trecv("Plus", old(tlen()) + 3) == tres("Totals", old(tlen())) && targ("Plus", 0, old(tlen()) + 3) == tres1("Totals", old(tlen()))
//@        && targ("render", 2, old(tlen()) + 4) == "Delta" && targ("render", 3, old(tlen()) + 4) == false && targ("render", 4, old(tlen()) + 4) == tres("Totals", old(tlen()))
//@   loop 1 invariant 0 <= $i && $i <= len($range) && tlen() == old(tlen()) && len($range) == len(rn.partition.periods)
//@   loop 1 invariant tbl != nil && fresh(tbl) && header != nil && fresh(header) && live(header) && rowOf(header, tbl)
//@   loop 1 invariant len(tbl.columns) == 1 + (rn.drawCommsColumn ? 1 : 0) + len(rn.partition.periods)
//@   loop 1 invariant len(tbl.rows) == 2 && tbl.rows[1] == header && complete(tbl.rows[0], tbl) && live(tbl.rows[0]) && tbl.rows[0] != header
//@   loop 1 invariant len(header.cells) == 1 + (rn.drawCommsColumn ? 1 : 0) + $i
//@   loop 2 invariant 0 <= $i && $i <= len($range) && tlen() == old(tlen()) + 1 && widthOK(rn, tbl) && allComplete(tbl) && (forall i int :: {$range[i]} 0 <= i && i < len($range) ==> sortedTree($range[i]))
//@   loop 3 invariant 0 <= $i && $i <= len($range) && tlen() == old(tlen()) + 2 && widthOK(rn, tbl) && allComplete(tbl) && (forall i int :: {$range[i]} 0 <= i && i < len($range) ==> sortedTree($range[i]))
//
// A report built by NewReport keeps its two trees, its registry and its partition for life (these
// fields are assigned nowhere else): reportOK is an uninterpreted, state-independent predicate with this
// one unfolding - a trusted data-structure invariant that survives calls with unknown effects.
//@ spec reportOK(r *Report) bool
//@ axiom report_ok_unfold: forall r *Report :: {reportOK(r)} reportOK(r) ==> r != nil && r.AL != nil && r.EIE != nil && r.AL != r.EIE && r.Registry != nil && r.Registry.accounts != nil && len(r.partition.periods) >= 0
//@ func NewReport
//@   requires reg != nil && wfAccounts(reg.accounts)
//@   modifies nothing
//@   ensures result != nil && fresh(result) && result.AL != nil && result.EIE != nil && result.AL != result.EIE && result.Registry == reg && result.partition == part
//@   ensures [trusted] @ok: reportOK(result)
