//go:build verif

// Contracts for package registry (machine-checked by /verif/engine; comment-only file).
package registry

// New: a fresh context whose commodity registry is well formed (and empty) and whose two indexes are
// different maps.
//@ func New
//@   modifies nothing
//@   ensures result != nil && fresh(result) && wfAccounts(result.accounts) && fresh(result.accounts)
//@   ensures wfCommodities(result.commodities) && fresh(result.commodities) && len(result.commodities.index) == 0
//@   ensures result.accounts.index != result.commodities.index
