//go:build verif

// Contracts for package registry (machine-checked by /verif/engine; comment-only file).
package registry

// New: a fresh context whose commodity registry is well formed (and empty) and whose two indexes are
// different maps.
//@ func New
//@   modifies nothing
//@   ensures result != nil && fresh(result) && result.accounts != nil && fresh(result.accounts) && result.accounts.index != nil && result.accounts.swaps != nil
//@   ensures wfCommodities(result.commodities) && fresh(result.commodities) && len(result.commodities.index) == 0
//@   ensures result.accounts.index != result.commodities.index
