//go:build verif

// Contracts for package posting (machine-checked by /verif/engine; comment-only file).
package posting

// pair(p, q): the two halves of one double-entry booking: same commodity and source, exact negatives
// in quantity and value, accounts crossed; q is the non-negative half.
//@ def pair(p *Posting, q *Posting) bool := p != nil && q != nil && p != q && p.Commodity == q.Commodity && p.Src == q.Src
//@     && p.Quantity == -q.Quantity && p.Value == -q.Value && p.Account == q.Other && p.Other == q.Account
//@     && (q.Quantity > 0 || (q.Quantity == 0 && q.Value >= 0))
//@ def flipped(pb Builder) bool := pb.Quantity < 0 || (pb.Quantity == 0 && pb.Value < 0)
//@ def built(p *Posting, q *Posting, pb Builder) bool := pair(p, q) && q.Commodity == pb.Commodity && q.Src == pb.Src
//@     && (flipped(pb) ==> p.Account == pb.Debit && p.Quantity == pb.Quantity && p.Value == pb.Value && q.Account == pb.Credit)
//@     && (!flipped(pb) ==> q.Account == pb.Debit && q.Quantity == pb.Quantity && q.Value == pb.Value && p.Account == pb.Credit)
//
// Build: the debit account receives the quantity and value of the builder, the credit account their
// negatives; the result is normalised so that the second posting is the non-negative one.
//@ func (Builder).Build
//@   ensures len(result) == 2 && fresh(result) && fresh(result[0]) && fresh(result[1]) && live(result[0]) && live(result[1])
//@   ensures built(result[0], result[1], pb)
//
//@ func (Builders).Build
//@   ensures len(result) == 2 * len(pbs) && fresh(result)
//@   ensures forall k int :: {pbs[k]} 0 <= k && k < len(pbs) ==> fresh(result[2*k]) && fresh(result[2*k+1]) && live(result[2*k]) && live(result[2*k+1]) && built(result[2*k], result[2*k+1], pbs[k])
//@   ensures @from: forall i int :: {result[i]} 0 <= i && i < len(result) ==> result[i] != nil && (exists k int :: 0 <= k && k < len(pbs)
//@        && (result[i].Account == pbs[k].Credit || result[i].Account == pbs[k].Debit) && result[i].Commodity == pbs[k].Commodity)
//@   loop 1 invariant forall i int :: {res[i]} 0 <= i && i < len(res) ==> res[i] != nil && (exists k int :: 0 <= k && k < len(pbs)
//@        && (res[i].Account == pbs[k].Credit || res[i].Account == pbs[k].Debit) && res[i].Commodity == pbs[k].Commodity)
//@   loop 1 invariant len(res) == 2 * $i && fresh(res) && 0 <= $i && $i <= len(pbs) && cap(res) == 2 * len(pbs)
//@   loop 1 invariant forall k int :: {pbs[k]} 0 <= k && k < $i ==> fresh(res[2*k]) && fresh(res[2*k+1]) && live(res[2*k]) && live(res[2*k+1]) && built(res[2*k], res[2*k+1], pbs[k])
//
// Create: every syntax booking becomes one balanced pair (or an error is returned).
//@ def paired(ps []*Posting) bool := len(ps) % 2 == 0
//@     && (forall k int :: {ps[2*k]} 0 <= k && 2*k+1 < len(ps) ==> pair(ps[2*k], ps[2*k+1]))
//
//@ func Create
//@   requires reg != nil && wfAccounts(reg.accounts) && wfCommodities(reg.commodities) && reg.accounts.index != reg.commodities.index
//@   ensures wfCommodities(reg.commodities) && wfAccounts(reg.accounts)
//@   requires forall i int :: {bs[i]} 0 <= i && i < len(bs) ==> inText(bs[i].Quantity.Range) && inText(bs[i].Credit.Range) && inText(bs[i].Debit.Range) && inText(bs[i].Commodity.Range)
//@   modifies reg.accounts.index[*], reg.commodities.index[*]
//@   ensures result.1 == nil ==> len(result.0) == 2 * len(bs) && paired(result.0) && fresh(result.0)
//@   ensures result.1 == nil ==> (forall i int :: {result.0[i]} 0 <= i && i < len(result.0) ==> result.0[i] != nil && validAccount(result.0[i].Account) && result.0[i].Commodity != nil)
//@   loop 1 invariant len(builder) == $i && fresh(builder) && 0 <= $i && $i <= len(bs) && wfCommodities(reg.commodities) && wfAccounts(reg.accounts)
//@   loop 1 invariant forall k int :: {builder[k]} 0 <= k && k < $i ==> validAccount(builder[k].Credit) && validAccount(builder[k].Debit) && builder[k].Commodity != nil
//
// Compare: lexicographic on (account, other account, quantity, value, commodity name) - a total order
// whose only ties are postings that agree in all five (lemma post_cmp_tie).
//@ def decCmp(x real, y real) int := x == y ? 0 : (x < y ? 0 - 1 : 1)
//@ def postCmp(p *Posting, q *Posting) int := acctCmp(p.Account, q.Account) != 0 ? acctCmp(p.Account, q.Account)
//@     : (acctCmp(p.Other, q.Other) != 0 ? acctCmp(p.Other, q.Other)
//@     : (decCmp(p.Quantity, q.Quantity) != 0 ? decCmp(p.Quantity, q.Quantity)
//@     : (decCmp(p.Value, q.Value) != 0 ? decCmp(p.Value, q.Value) : comCmp(p.Commodity, q.Commodity))))
//@ def okPosting(p *Posting) bool := p != nil && p.Account != nil && p.Other != nil && p.Commodity != nil
//@ def samePosting(p *Posting, q *Posting) bool := p.Account.accountType == q.Account.accountType && p.Account.name == q.Account.name
//@     && p.Other.accountType == q.Other.accountType && p.Other.name == q.Other.name
//@     && p.Quantity == q.Quantity && p.Value == q.Value && p.Commodity.name == q.Commodity.name
//@ func Compare
//@   requires okPosting(p) && okPosting(p2)
//@   ensures [C06] [C05] @lex: result == postCmp(p, p2)
//
//@ lemma post_cmp_antisym: forall p *Posting, q *Posting :: okPosting(p) && okPosting(q) ==> postCmp(p, q) == 0 - postCmp(q, p)
//@ lemma post_cmp_tie: forall p *Posting, q *Posting :: okPosting(p) && okPosting(q) ==> (postCmp(p, q) == 0 <==> samePosting(p, q))
