//go:build verif

// Contracts for package account (machine-checked by /verif/engine; comment-only file).
package account

//@ def validAccount(a *Account) bool := a != nil && 0 <= a.accountType && a.accountType <= 4 && len(a.segments) >= 1
//@ def isAL(a *Account) bool := a.accountType == 0 || a.accountType == 1
//@ def isIE(a *Account) bool := a.accountType == 3 || a.accountType == 4
//
// The registry. GetPath needs a non-empty path: for the empty path the tree lookup finds the root, whose Value
// is nil, and (nil, nil) comes back - callers are checked never to ask for it. Nothing here touches the swaps
// cache except SwapType.
// wfAccounts: the index maps a name to a live, valid account of exactly that name whose segments slice has
// no spare capacity. Get itself is VERIFIED against this invariant (an indexed name is answered from the
// index: the same account on every call); what stays trusted is the slow path getOrCreatePath (locks, the
// multimap tree, strings.Split/Join) and GetPath/NewRegistry.
//@ def okAccount(a *Account) bool := validAccount(a) && live(a) && cap(a.segments) == len(a.segments)
//@ def wfAccounts(as *Registry) bool := as != nil && as.index != nil && live(as.index) && as.swaps != nil
//@     && (forall n string :: {key(as.index, n)} (n in as.index) ==> okAccount(as.index[n]) && as.index[n].name == n)
//@ func NewRegistry
//@   modifies nothing
//@   ensures wfAccounts(result) && fresh(result) && fresh(result.index) && fresh(result.swaps) && live(result.swaps)
//@   loop 1 invariant wfAccounts(reg) && fresh(reg) && fresh(reg.index) && fresh(reg.swaps) && live(reg.swaps)
//
//@ func (*Registry).getOrCreatePath
//@   trusted
//@   requires wfAccounts(as)
//@   modifies as.index[*]
//@   ensures wfAccounts(as) && (result.1 == nil ==> okAccount(result.0))
//@   ensures forall n string :: {key(as.index, n)} old(n in as.index) ==> (n in as.index) && as.index[n] == old(as.index[n])
//
//@ func (*Registry).Get
//@   requires wfAccounts(as)
//@   modifies as.index[*]
//@   ensures wfAccounts(as) && (result.1 == nil ==> okAccount(result.0))
//@   ensures [C05] [C06] @indexed: old(name in as.index) ==> result.1 == nil && result.0 == old(as.index[name]) && result.0.name == name
//@   ensures @kept: forall n string :: {key(as.index, n)} old(n in as.index) ==> (n in as.index) && as.index[n] == old(as.index[n])
//
//@ func (*Registry).GetPath
//@   trusted
//@   requires wfAccounts(as) && len(segments) >= 1
//@   modifies as.index[*]
//@   ensures wfAccounts(as) && (result.1 == nil ==> okAccount(result.0))
//@   ensures forall n string :: {key(as.index, n)} old(n in as.index) ==> (n in as.index) && as.index[n] == old(as.index[n])
//
//@ func (*Registry).Create
//@   requires wfAccounts(as) && inText(a.Range)
//@   modifies as.index[*]
//@   ensures wfAccounts(as) && (result.1 == nil ==> okAccount(result.0))
//
// MustGet / MustGetPath panic on an invalid name (documented); otherwise they are the lookup.
//@ func (*Registry).MustGet
//@   panics
//@   requires wfAccounts(as)
//@   modifies as.index[*]
//@   ensures wfAccounts(as) && okAccount(result)
//
//@ func (*Registry).MustGetPath
//@   panics
//@   requires wfAccounts(as) && len(ss) >= 1
//@   modifies as.index[*]
//@   ensures wfAccounts(as) && okAccount(result)
//
// ValuationAccountFor: the result is always obtained by a by-name registry lookup (first "Income",
// then the joined path); it neither reads a cache nor writes one (frame: swaps untouched), and the
// segments of the given account are not written.
//@ func (*Registry).ValuationAccountFor
//@   requires wfAccounts(as) && a != nil && len(a.segments) >= 1
//@   modifies as.index[*]
//@   callback MustGet=0
//@   ensures wfAccounts(as) && okAccount(result)
//@   ensures @lookup: tlen() == old(tlen()) + 2 && targ("MustGet", 0, old(tlen())) == "Income" && result == tres("MustGet", old(tlen()) + 1)
//
// swapName: the name looked up for the counterpart: assets <-> liabilities, income <-> expenses, the
// type prefix replaced; an equity account is its own counterpart.
//@ def swapName(a *Account) string := a.accountType == 0 ? cat("Liabilities", trimPrefix(a.name, "Assets"))
//@     : (a.accountType == 1 ? cat("Assets", trimPrefix(a.name, "Liabilities"))
//@     : (a.accountType == 3 ? cat("Expenses", trimPrefix(a.name, "Income"))
//@     : (a.accountType == 4 ? cat("Income", trimPrefix(a.name, "Expenses")) : a.name)))
//
// SwapType: a cache hit returns the cached account, a miss looks the swapped name up and caches it
// under the given account only.
//@ func (*Registry).SwapType
//@   panics
//@   requires wfAccounts(as) && validAccount(a)
//@   modifies as.index[*], as.swaps[*]
//@   callback Get=0
//@   ensures @hit: old(a in as.swaps) ==> result == old(as.swaps[a]) && tlen() == old(tlen()) && dom(as.swaps) == old(dom(as.swaps)) && vals(as.swaps) == old(vals(as.swaps))
//@   ensures @miss: !old(a in as.swaps) ==> tlen() == old(tlen()) + 1 && result == tres("Get", old(tlen())) && validAccount(result)
//@        && dom(as.swaps) == upd(old(dom(as.swaps)), a, true) && vals(as.swaps) == upd(old(vals(as.swaps)), a, result)
//@   ensures [C02] @counterpart: !old(a in as.swaps) ==> targ("Get", 0, old(tlen())) == swapName(a)
//
// A mapping is well formed when levels and suffixes are not negative (the flag parser must ensure it).
//@ def wfMapping(m Mapping) bool := forall i int :: {m[i]} 0 <= i && i < len(m) ==> m[i].Level >= 0 && m[i].Suffix >= 0
//
//@ def ruleMatches(r Rule, s string) bool := r.Regex == nil || rematch(r.Regex, s)
//
//@ func (Rule).Match
//@   ensures result.2 <==> ruleMatches(rule, s)
//@   ensures result.2 ==> result.0 == rule.Level && result.1 == rule.Suffix
//@   ensures !result.2 ==> result.0 == 0 && result.1 == 0
//
// Level: the first rule that matches decides.
//@ func (Mapping).Level
//@   requires wfMapping(m)
//@   ensures @nonneg: result.0 >= 0 && result.1 >= 0
//@   ensures result.2 <==> (exists i int :: 0 <= i && i < len(m) && ruleMatches(m[i], s))
//@   ensures result.2 ==> (exists i int :: 0 <= i && i < len(m) && ruleMatches(m[i], s) && result.0 == m[i].Level && result.1 == m[i].Suffix
//@        && (forall j int :: {m[j]} 0 <= j && j < i ==> !ruleMatches(m[j], s)))
//@   ensures !result.2 ==> result.0 == 0 && result.1 == 0
//@   loop 1 invariant 0 <= $i && $i <= len(m) && (forall j int :: {m[j]} 0 <= j && j < $i ==> !ruleMatches(m[j], s))
//
// Shorten (the mapper returned by account.Shorten): an account not matched by any rule is returned
// unchanged, level 0 hides it (nil); in every case NOTHING reachable from the given account is
// modified - in particular not the account's own segments (frame: only the registry tables change).
//@ func Shorten$1
//@   requires validAccount(a) && wfMapping(m) && wfAccounts(reg) && len(a.segments) >= 1
//@   modifies reg.index[*]
//@   ensures wfAccounts(reg)
//@   callback MustGetPath=0
//@   ensures @nomatch: (forall i int :: {m[i]} 0 <= i && i < len(m) ==> !ruleMatches(m[i], a.name)) ==> result == a
//@   ensures @hidden: (exists i int :: 0 <= i && i < len(m) && ruleMatches(m[i], a.name) && m[i].Level == 0
//@        && (forall j int :: {m[j]} 0 <= j && j < i ==> !ruleMatches(m[j], a.name))) ==> result == nil
//@   ensures @path: tlen() == old(tlen()) + 1 ==> (exists i int :: 0 <= i && i < len(m) && ruleMatches(m[i], a.name)
//@        && (forall j int :: {m[j]} 0 <= j && j < i ==> !ruleMatches(m[j], a.name))
//@        && len(targ("MustGetPath", 0, old(tlen()))) == m[i].Level + m[i].Suffix
//@        && (forall k int :: {targ("MustGetPath", 0, old(tlen()))[k]} 0 <= k && k < m[i].Level ==> targ("MustGetPath", 0, old(tlen()))[k] == a.segments[k])
//@        && (forall k int :: {targ("MustGetPath", 0, old(tlen()))[m[i].Level + k]} 0 <= k && k < m[i].Suffix ==> targ("MustGetPath", 0, old(tlen()))[m[i].Level + k] == a.segments[len(a.segments) - m[i].Suffix + k]))
//@   ensures @lookup: tlen() <= old(tlen()) + 1 && (tlen() == old(tlen()) ==> result == a || result == nil)
//@   ensures @short: (exists i int :: 0 <= i && i < len(m) && ruleMatches(m[i], a.name) && m[i].Level > 0 && m[i].Level + m[i].Suffix > len(a.segments)
//@        && (forall j int :: {m[j]} 0 <= j && j < i ==> !ruleMatches(m[j], a.name))) ==> result == a && tlen() == old(tlen())
//@   ensures @collapse: (exists i int :: 0 <= i && i < len(m) && ruleMatches(m[i], a.name) && m[i].Level > 0 && m[i].Level + m[i].Suffix <= len(a.segments)
//@        && (forall j int :: {m[j]} 0 <= j && j < i ==> !ruleMatches(m[j], a.name))) ==> tlen() == old(tlen()) + 1 && result == tres("MustGetPath", old(tlen()))
//
// Compare: the lexicographic order on (type, name) - a total order whose only ties are accounts with
// the same type and name (lemmas acct_cmp_antisym, acct_cmp_tie).
//@ def acctCmp(a *Account, b *Account) int := a.accountType < b.accountType ? 0 - 1 : (a.accountType > b.accountType ? 1 : (a.name < b.name ? 0 - 1 : (a.name == b.name ? 0 : 1)))
//@ func Compare
//@   requires a1 != nil && a2 != nil
//@   ensures [C06] [C05] @lex: result == acctCmp(a1, a2)
//
//@ lemma acct_cmp_antisym: forall a *Account, b *Account :: a != nil && b != nil ==> acctCmp(a, b) == 0 - acctCmp(b, a)
//@ lemma acct_cmp_tie: forall a *Account, b *Account :: a != nil && b != nil ==> (acctCmp(a, b) == 0 <==> (a.accountType == b.accountType && a.name == b.name))
//@ lemma acct_cmp_trans: forall a *Account, b *Account, c *Account :: a != nil && b != nil && c != nil && acctCmp(a, b) <= 0 && acctCmp(b, c) <= 0 ==> acctCmp(a, c) <= 0
