//go:build verif

// Contracts for package account (machine-checked by /verif/engine; comment-only file).
package account

//@ def validAccount(a *Account) bool := a != nil && 0 <= a.accountType && a.accountType <= 4
//@ def isAL(a *Account) bool := a.accountType == 0 || a.accountType == 1
//@ def isIE(a *Account) bool := a.accountType == 3 || a.accountType == 4
//
// The registry is trusted: it hands out valid, non-nil accounts and touches only its own tables.
//@ func (*Registry).Create
//@   trusted
//@   modifies as.index[*], as.swaps[*]
//@   ensures result.1 == nil ==> validAccount(result.0)
//
//@ func (*Registry).Get
//@   trusted
//@   modifies as.index[*], as.swaps[*]
//@   ensures result.1 == nil ==> validAccount(result.0)
//
//@ func (*Registry).MustGet
//@   trusted
//@   modifies as.index[*], as.swaps[*]
//@   ensures validAccount(result)
//
//@ func (*Registry).ValuationAccountFor
//@   trusted
//@   requires a != nil
//@   modifies as.index[*], as.swaps[*]
//@   ensures validAccount(result) && result.accountType == 3
