//go:build verif

// Contracts for package account (machine-checked by /verif/engine; comment-only file).
package account

//@ def validAccount(a *Account) bool := a != nil && 0 <= a.accountType && a.accountType <= 4
//@ def isAL(a *Account) bool := a.accountType == 0 || a.accountType == 1
//@ def isIE(a *Account) bool := a.accountType == 3 || a.accountType == 4
//
// The registry is trusted: it hands out valid, non-nil accounts and touches only its own tables.
//@ func (*Registry).Create
//@   trusted
//@   modifies as.index[*], as.swaps[*]
//@   ensures result.1 == nil ==> validAccount(result.0)
//
//@ func (*Registry).Get
//@   trusted
//@   modifies as.index[*], as.swaps[*]
//@   ensures result.1 == nil ==> validAccount(result.0)
//
//@ func (*Registry).MustGet
//@   trusted
//@   modifies as.index[*], as.swaps[*]
//@   ensures validAccount(result)
//
//@ func (*Registry).ValuationAccountFor
//@   trusted
//@   requires a != nil
//@   modifies as.index[*], as.swaps[*]
//@   ensures validAccount(result) && result.accountType == 3
//
//@ func (*Registry).MustGetPath
//@   trusted
//@   modifies as.index[*], as.swaps[*]
//@   ensures validAccount(result)
//
//@ func (*Registry).SwapType
//@   trusted
//@   requires validAccount(a)
//@   modifies as.index[*], as.swaps[*]
//@   ensures validAccount(result)
//
// A mapping is well formed when levels and suffixes are not negative (the flag parser must ensure it).
//@ def wfMapping(m Mapping) bool := forall i int :: {m[i]} 0 <= i && i < len(m) ==> m[i].Level >= 0 && m[i].Suffix >= 0
//
//@ def ruleMatches(r Rule, s string) bool := r.Regex == nil || rematch(r.Regex, s)
//
//@ func (Rule).Match
//@   ensures result.2 <==> ruleMatches(rule, s)
//@   ensures result.2 ==> result.0 == rule.Level && result.1 == rule.Suffix
//@   ensures !result.2 ==> result.0 == 0 && result.1 == 0
//
// Level: the first rule that matches decides.
//@ func (Mapping).Level
//@   ensures result.2 <==> (exists i int :: 0 <= i && i < len(m) && ruleMatches(m[i], s))
//@   ensures result.2 ==> (exists i int :: 0 <= i && i < len(m) && ruleMatches(m[i], s) && result.0 == m[i].Level && result.1 == m[i].Suffix
//@        && (forall j int :: {m[j]} 0 <= j && j < i ==> !ruleMatches(m[j], s)))
//@   ensures !result.2 ==> result.0 == 0 && result.1 == 0
//@   loop 1 invariant 0 <= $i && $i <= len(m) && (forall j int :: {m[j]} 0 <= j && j < $i ==> !ruleMatches(m[j], s))
//
// Shorten (the mapper returned by account.Shorten): an account not matched by any rule is returned
// unchanged, level 0 hides it (nil); in every case NOTHING reachable from the given account is
// modified - in particular not the account's own segments (frame: only the registry tables change).
//@ func Shorten$1
//@   requires validAccount(a) && wfMapping(m) && reg != nil && len(a.segments) >= 1
//@   modifies reg.index[*], reg.swaps[*]
//@   callback MustGetPath=0
//@   ensures @nomatch: (forall i int :: {m[i]} 0 <= i && i < len(m) ==> !ruleMatches(m[i], a.name)) ==> result == a
//@   ensures @hidden: (exists i int :: 0 <= i && i < len(m) && ruleMatches(m[i], a.name) && m[i].Level == 0
//@        && (forall j int :: {m[j]} 0 <= j && j < i ==> !ruleMatches(m[j], a.name))) ==> result == nil
//@   ensures @path: tlen() == old(tlen()) + 1 ==> (exists i int :: 0 <= i && i < len(m) && ruleMatches(m[i], a.name)
//@        && (forall j int :: {m[j]} 0 <= j && j < i ==> !ruleMatches(m[j], a.name))
//@        && len(targ("MustGetPath", 0, old(tlen()))) == m[i].Level + m[i].Suffix
//@        && (forall k int :: {targ("MustGetPath", 0, old(tlen()))[k]} 0 <= k && k < m[i].Level ==> targ("MustGetPath", 0, old(tlen()))[k] == a.segments[k])
//@        && (forall k int :: {targ("MustGetPath", 0, old(tlen()))[m[i].Level + k]} 0 <= k && k < m[i].Suffix ==> targ("MustGetPath", 0, old(tlen()))[m[i].Level + k] == a.segments[len(a.segments) - m[i].Suffix + k]))
//@   ensures @lookup: tlen() <= old(tlen()) + 1 && (tlen() == old(tlen()) ==> result == a || result == nil)
