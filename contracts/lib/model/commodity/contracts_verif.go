//go:build verif

// Contracts for package commodity (machine-checked by /verif/engine; comment-only file).
package commodity

// The commodity registry interns commodities by name: the index maps a name to THE commodity of exactly
// that name (so equal names give the same pointer, different names different commodities - whatever
// order the names arrive in). Verified; only the locks are not modelled.
//@ def wfCommodities(cs *Registry) bool := cs != nil && cs.index != nil && live(cs.index)
//@     && (forall n string :: {key(cs.index, n)} (n in cs.index) ==> cs.index[n] != nil && live(cs.index[n]) && cs.index[n].name == n)
//
//@ func (*Registry).Get
//@   requires wfCommodities(cs)
//@   modifies cs.index[*]
//@   ensures [C05] [C06] wfCommodities(cs)
//@   ensures [C05] [C06] @interned: result.1 == nil ==> result.0 != nil && result.0.name == name && (name in cs.index) && cs.index[name] == result.0
//@   ensures [C05] [C06] @kept: forall n string :: {key(cs.index, n)} old(n in cs.index) ==> (n in cs.index) && cs.index[n] == old(cs.index[n])
//@   ensures [C05] [C06] @only: forall n string :: {key(cs.index, n)} (n in cs.index) && !old(n in cs.index) ==> n == name
//@   ensures @err: result.1 != nil ==> dom(cs.index) == old(dom(cs.index)) && vals(cs.index) == old(vals(cs.index))
//
//@ func (*Registry).Create
//@   requires wfCommodities(as) && inText(a.Range)
//@   modifies as.index[*]
//@   ensures wfCommodities(as) && (result.1 == nil ==> result.0 != nil && result.0.name == a.Text[a.Start:a.End])
//@   ensures forall n string :: {key(as.index, n)} old(n in as.index) ==> (n in as.index) && as.index[n] == old(as.index[n])
//
//@ func (*Registry).MustGet
//@   panics
//@   requires wfCommodities(cs)
//@   modifies cs.index[*]
//@   ensures wfCommodities(cs) && result != nil && result.name == name
//
//@ func NewCommodities
//@   modifies nothing
//@   ensures wfCommodities(result) && fresh(result) && fresh(result.index) && len(result.index) == 0
//
// Compare: the order of the names; ties only between commodities of the same name.
//@ def comCmp(a *Commodity, b *Commodity) int := a.name < b.name ? 0 - 1 : (a.name == b.name ? 0 : 1)
//@ func Compare
//@   requires c1 != nil && c2 != nil
//@   ensures [C06] [C05] @lex: result == comCmp(c1, c2)
//
//@ func isValidCommodity
//@   modifies nothing
//@   loop 1 invariant true
