//go:build verif

// Contracts for package commodity (machine-checked by /verif/engine; comment-only file).
package commodity

// The registry is trusted: it hands out non-nil commodities and touches only its own tables.
//@ func (*Registry).Create
//@   trusted
//@   modifies as.index[*]
//@   ensures result.1 == nil ==> result.0 != nil
