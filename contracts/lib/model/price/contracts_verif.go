//go:build verif

// Contracts for package price (machine-checked by /verif/engine; comment-only file).
//
// Prices is a map target -> (commodity -> price of commodity in target). ps[t][c] below is the Go
// lookup (zero/absent when missing); has(ps, t, c) says the entry exists.
package price

//@ def has(ps Prices, t *commodity.Commodity, c *commodity.Commodity) bool := (t in ps) && (c in ps[t])
//@ def mult(x real, y real) real := trunc8(dmul(x, y))
//
// Multiply: product truncated (toward zero) to 8 decimals.
//@ func Multiply
//@   ensures result == mult(n1, n2)
//
// Price / Valuate: a missing price is an error, never a number.
//@ func (NormalizedPrices).Price
//@   ensures (result.1 == nil) <==> (c in np)
//@   ensures result.1 == nil ==> result.0 == np[c]
//
//@ func (NormalizedPrices).Valuate
//@   ensures (result.1 == nil) <==> (c in np)
//@   ensures result.1 == nil ==> result.0 == mult(a, np[c])
//
// Create: the model price carries exactly the declared number (no rounding at this point: the only
// truncation of the property is that of products and reciprocals) and the two named commodities.
//@ func Create
//@   requires reg != nil && wfCommodities(reg.commodities) && p != nil
//@   requires inText(p.Date.Range) && inText(p.Commodity.Range) && inText(p.Price.Range) && inText(p.Target.Range)
//@   modifies reg.commodities.index[*]
//@   ensures wfCommodities(reg.commodities)
//@   ensures [C12] [C03] @declared: result.1 == nil ==> result.0 != nil && fresh(result.0) && result.0.Src == p
//@        && result.0.Price == decOf(p.Price.Text[p.Price.Start:p.Price.End])
//@        && result.0.Commodity != nil && result.0.Commodity.name == p.Commodity.Text[p.Commodity.Start:p.Commodity.End]
//@        && result.0.Target != nil && result.0.Target.name == p.Target.Text[p.Target.Start:p.Target.End]
//
// Insert: a zero price is rejected and nothing changes; otherwise exactly the two entries of the pair
// are (over)written: the price, and its reciprocal truncated to 8 decimals.
//@ def wfPrices(ps Prices) bool := ps != nil
//@     && (forall t *commodity.Commodity :: {key(ps, t)} (t in ps) ==> ps[t] != nil && live(ps[t]))
//@     && (forall t1 *commodity.Commodity, t2 *commodity.Commodity :: {rawval(ps, t1), rawval(ps, t2)} (t1 in ps) && (t2 in ps) && t1 != t2 ==> ps[t1] != ps[t2])
//
//@ func (Prices).Insert
//@   requires wfPrices(ps) && commodity != nil && target != nil
//@   ensures wfPrices(ps)
//@   modifies ps[*], ps[target][*], ps[commodity][*]
//@   ensures @zero: price == 0 ==> result != nil && (forall t *commodity.Commodity, c *commodity.Commodity :: {key(rawval(ps, t), c)} (has(ps, t, c) <==> old(has(ps, t, c))) && ps[t][c] == old(ps[t][c]))
//@   ensures @ok: price != 0 ==> result == nil && has(ps, target, commodity) && has(ps, commodity, target)
//@        && ps[commodity][target] == trunc8(ddiv(1.0, price)) && (target != commodity ==> ps[target][commodity] == price)
//@   ensures @others: forall t *commodity.Commodity, c *commodity.Commodity :: {key(rawval(ps, t), c)} !(t == target && c == commodity) && !(t == commodity && c == target)
//@        ==> (has(ps, t, c) <==> old(has(ps, t, c))) && (has(ps, t, c) ==> ps[t][c] == old(ps[t][c]))
//
// normalize(c, res): depth-first traversal of the price graph from c. res only grows; afterwards every
// neighbour of c is priced; every node priced by this call has all its neighbours priced (closure) and
// its price is the product (truncated to 8 decimals) of a declared price ps[m][n] and the price of m
// (justification). Hence priced <=> connected, and each price is a product along a declared chain.
//@ def noAlias(ps Prices, res NormalizedPrices) bool := forall t *commodity.Commodity :: {rawval(ps, t)} (t in ps) ==> ps[t] != res
//
//@ func (Prices).normalize
//@   requires wfPrices(ps) && res != nil && (c in res) && noAlias(ps, res)
//@   modifies res[*]
//@   ensures @grows: forall n *commodity.Commodity :: {key(res, n)} old(n in res) ==> (n in res) && res[n] == old(res[n])
//@   ensures @closedc: forall n *commodity.Commodity :: {key(rawval(ps, c), n)} has(ps, c, n) ==> (n in res)
//@   ensures @closed: forall m *commodity.Commodity, n *commodity.Commodity :: {key(rawval(ps, m), n)} (m in res) && !old(m in res) && has(ps, m, n) ==> (n in res)
//@   ensures @just: forall n *commodity.Commodity :: {key(res, n)} (n in res) && !old(n in res) ==>
//@        (exists m *commodity.Commodity :: (m in res) && has(ps, m, n) && res[n] == mult(ps[m][n], res[m]))
//@   loop 1 invariant (c in res)
//@   loop 1 invariant forall n *commodity.Commodity :: {key(res, n)} old(n in res) ==> (n in res) && res[n] == old(res[n])
//@   loop 1 invariant forall n *commodity.Commodity :: {$seen[n]} $seen[n] ==> (n in res)
//@   loop 1 invariant forall m *commodity.Commodity, n *commodity.Commodity :: {key(rawval(ps, m), n)} (m in res) && !old(m in res) && has(ps, m, n) ==> (n in res)
//@   loop 1 invariant forall n *commodity.Commodity :: {key(res, n)} (n in res) && !old(n in res) ==>
//@        (exists m *commodity.Commodity :: (m in res) && has(ps, m, n) && res[n] == mult(ps[m][n], res[m]))
//
// Normalize(t): t itself has price 1; the result is closed and justified (see normalize).
//@ func (Prices).Normalize
//@   requires wfPrices(ps)
//@   ensures fresh(result) && (t in result) && result[t] == 1.0
//@   ensures @closed: forall m *commodity.Commodity, n *commodity.Commodity :: {key(rawval(ps, m), n)} (m in result) && has(ps, m, n) ==> (n in result)
//@   ensures @just: forall n *commodity.Commodity :: {key(result, n)} (n in result) && n != t ==>
//@        (exists m *commodity.Commodity :: (m in result) && has(ps, m, n) && result[n] == mult(ps[m][n], result[m]))
//@   ensures [C12] [C06] @direct: forall n *commodity.Commodity :: {key(rawval(ps, t), n)} has(ps, t, n) && n != t ==> (n in result) && result[n] == mult(ps[t][n], 1.0)
//
// Theory of decimal multiplication as far as the proofs need it (trusted; validated by the stand-in
// 'decimal' against shopspring/decimal): multiplication is odd in its first argument and x*1 = x.
//@ axiom dmul_neg: forall x real, y real :: {dmul(0.0 - x, y)} dmul(0.0 - x, y) == 0.0 - dmul(x, y)
//@ axiom dmul_one: forall x real :: {dmul(x, 1.0)} dmul(x, 1.0) == x
//@ axiom dmul_negone: forall x real :: {dmul(x, 0.0 - 1.0)} dmul(x, 0.0 - 1.0) == 0.0 - x
//@ axiom dmul_zero: forall y real :: {dmul(0.0, y)} dmul(0.0, y) == 0.0
//
// Valuation is odd in the quantity: the two halves of a posting pair stay exact negatives (C01).
//@ lemma val_odd: forall q real, pr real :: mult(0.0 - q, pr) == 0.0 - mult(q, pr)
//
// The algebraic step of mark-to-market (exact arithmetic; truncation abstracted): revaluing a position
// by (new price - old price) x quantity moves its book value from quantity x old to quantity x new,
// and booking dq at the current price keeps book value = quantity x price.
//@ lemma mtm_step: forall q real, pold real, pnew real, dq real :: q * pold + (pnew - pold) * q == q * pnew && q * pnew + dq * pnew == (q + dq) * pnew
