//go:build verif

// Contracts for package transaction (machine-checked by /verif/engine; comment-only file).
package transaction

//@ func (Builder).Build
//@   ensures fresh(result) && live(result) && result.Src == tb.Src && result.Date == tb.Date && result.Description == tb.Description
//@        && result.Postings == tb.Postings && result.Targets == tb.Targets
//
// expand (property C10): every leg of the original transaction is re-booked against the accrual
// account through the symmetric pair builder. Ghost bookkeeping: off[k] = number of generated
// transactions before leg k, sum = running total of the part quantities of the current
// income/expense leg, tot[k] = that total when leg k is finished, sz[k] = number of parts.
// Proved: every generated transaction is a balanced pair; a leg that is not an income/expense leg
// is re-booked by exactly one transaction carrying its full quantity on the original date; an
// income/expense leg by exactly sz[k] >= 1 transactions (one per period of the accrual window)
// whose quantities add up to the leg's quantity; each newly appended transaction books exactly the
// quantity that was added to the running total, on the leg's account against the accrual account.
//
//@ def leg(tr *Transaction, acct *account.Account, p *posting.Posting, q real) bool :=
//@     tr != nil && len(tr.Postings) == 2
//@     && built(tr.Postings[0], tr.Postings[1], posting.Builder{Credit: acct, Debit: p.Account, Commodity: p.Commodity, Quantity: q})
//
//@ def okTx(tr *Transaction) bool := tr != nil && live(tr) && live(tr.Postings) && len(tr.Postings) == 2
//@     && live(tr.Postings[0]) && live(tr.Postings[1]) && pair(tr.Postings[0], tr.Postings[1])
//@ def legAny(tr *Transaction, p *posting.Posting, q real) bool := tr != nil && len(tr.Postings) == 2
//@     && (exists acct *account.Account :: built(tr.Postings[0], tr.Postings[1], posting.Builder{Credit: acct, Debit: p.Account, Commodity: p.Commodity, Quantity: q}))
//
//@ func expand
//@   requires reg != nil && wfAccounts(reg.accounts) && t != nil && accrual != nil
//@   requires inText(accrual.Account.Range) && inText(accrual.Start.Range) && inText(accrual.End.Range) && inText(accrual.Interval.Range)
//@   requires forall i int :: {t.Postings[i]} 0 <= i && i < len(t.Postings) ==> t.Postings[i] != nil && validAccount(t.Postings[i].Account)
//@   modifies reg.accounts.index[*]
//@   ensures wfAccounts(reg.accounts)
//@   ghost off []int = 0
//@   ghost tot []real = 0
//@   ghost sz []int = 0
//@   ghost sum real = 0
//@   loop 1 ghost sum := 0
//@   loop 1 ghost-end off := upd(off, $i, len(result))
//@   loop 1 ghost-end tot := upd(tot, $i - 1, sum)
//@   loop 2 ghost sz := upd(sz, $i1, len(partition.periods))
//@   loop 2 ghost-end sum := sum + a
//@   ensures @balanced: result.1 == nil ==> (forall j int :: {result.0[j]} 0 <= j && j < len(result.0) ==> result.0[j] != nil
//@        && len(result.0[j].Postings) == 2 && pair(result.0[j].Postings[0], result.0[j].Postings[1]))
//@   ensures [C10] [C20] @annotations: result.1 == nil ==> (forall j int :: {result.0[j]} 0 <= j && j < len(result.0) ==> result.0[j].Targets == t.Targets && result.0[j].Src == t.Src)
//@   ensures @blocks: result.1 == nil ==> off[0] == 0 && off[len(t.Postings)] == len(result.0)
//@   ensures @otherlegs: result.1 == nil ==> (forall k int :: {t.Postings[k]} 0 <= k && k < len(t.Postings) && !isIE(t.Postings[k].Account) ==>
//@        off[k+1] == off[k] + 1 && legAny(result.0[off[k]], t.Postings[k], t.Postings[k].Quantity) && result.0[off[k]].Date == t.Date)
//@   ensures @ielegs: result.1 == nil ==> (forall k int :: {t.Postings[k]} 0 <= k && k < len(t.Postings) && isIE(t.Postings[k].Account) ==>
//@        off[k+1] - off[k] == sz[k] && sz[k] >= 1 && tot[k] == t.Postings[k].Quantity)
//@   loop 1 invariant fresh(result) && off[0] == 0 && off[$i] == len(result) && 0 <= $i && $i <= len(t.Postings)
//@   loop 1 invariant forall j int :: {result[j]} 0 <= j && j < len(result) ==> okTx(result[j])
//@   loop 1 invariant [C10] [C20] @annotations: forall j int :: {result[j]} 0 <= j && j < len(result) ==> result[j].Targets == t.Targets && result[j].Src == t.Src
//@   loop 1 invariant forall k int :: {t.Postings[k]} 0 <= k && k < $i && !isIE(t.Postings[k].Account) ==>
//@        off[k+1] == off[k] + 1 && off[k] >= 0 && leg(result[off[k]], account, t.Postings[k], t.Postings[k].Quantity) && result[off[k]].Date == t.Date
//@   loop 1 invariant forall k int :: {t.Postings[k]} 0 <= k && k < $i && isIE(t.Postings[k].Account) ==> off[k+1] - off[k] == sz[k]
//@   loop 1 invariant forall k int :: {t.Postings[k]} 0 <= k && k < $i && isIE(t.Postings[k].Account) ==> sz[k] >= 1
//@   loop 1 invariant forall k int :: {t.Postings[k]} 0 <= k && k < $i && isIE(t.Postings[k].Account) ==> tot[k] == t.Postings[k].Quantity
//@   loop 1 invariant forall a int :: {off[a]} 0 <= a && a <= $i ==> 0 <= off[a] && off[a] <= len(result)
//@   loop 2 invariant fresh(result) && 0 <= $i && $i <= len($range) && len($range) == len(partition.periods) && len(result) == entry(len(result)) + $i
//@   loop 2 invariant forall j int :: {result[j]} 0 <= j && j < len(result) ==> okTx(result[j])
//@   loop 2 invariant [C10] [C20] @annotations: forall j int :: {result[j]} 0 <= j && j < len(result) ==> result[j].Targets == t.Targets && result[j].Src == t.Src
//@   loop 2 invariant sum + (len(partition.periods) - $i) * amount + ($i > 0 ? 0.0 : rem) == p.Quantity
//@   loop 2 invariant $i > 0 ==> leg(result[len(result) - 1], account, p, $i == 1 ? amount + rem : amount)
//@   loop 2 invariant forall x int :: {sz[x]} x != $i1 ==> sz[x] == entry(sz[x])
//@   loop 2 invariant @partdate: $i > 0 ==> result[len(result) - 1].Date == partition.periods[$i - 1].End
//
// Create: the model transactions of one syntax transaction; all postings come from the pair builder.
// @targets (C20): the convention between this package and performance.ComputeFlows - no @performance annotation
// gives nil targets (an ordinary transaction: external flows), an annotation gives a non-nil list - also
// `@performance()`, whose list is empty (an effect on the portfolio as a whole, no flow). (That the list has one
// entry per named commodity is not stated: the length invariant made an unrelated obligation five times slower.)
//@ def okPostings(tr *Transaction) bool := tr != nil && paired(tr.Postings)
//@ def syntaxOK(t *syntax.Transaction) bool := t != nil && inText(t.Date.Range) && inText(t.Description.Content)
//@     && (forall i int :: {t.Bookings[i]} 0 <= i && i < len(t.Bookings) ==> inText(t.Bookings[i].Quantity.Range) && inText(t.Bookings[i].Credit.Range) && inText(t.Bookings[i].Debit.Range) && inText(t.Bookings[i].Commodity.Range))
//@     && (forall i int :: {t.Addons.Performance.Targets[i]} 0 <= i && i < len(t.Addons.Performance.Targets) ==> inText(t.Addons.Performance.Targets[i].Range))
//@     && inText(t.Addons.Accrual.Account.Range) && inText(t.Addons.Accrual.Start.Range) && inText(t.Addons.Accrual.End.Range) && inText(t.Addons.Accrual.Interval.Range)
//
//@ func Create
//@   requires reg != nil && wfAccounts(reg.accounts) && wfCommodities(reg.commodities) && reg.accounts.index != reg.commodities.index && syntaxOK(t)
//@   ensures wfCommodities(reg.commodities) && wfAccounts(reg.accounts)
//@   modifies reg.accounts.index[*], reg.commodities.index[*]
//@   ensures result.1 == nil ==> (forall j int :: {result.0[j]} 0 <= j && j < len(result.0) ==> okPostings(result.0[j]))
//@   callback expand=0
//@   ensures [C10] @accrual: t.Addons.Accrual.Range.Start != t.Addons.Accrual.Range.End && result.1 == nil ==> tlen() == old(tlen()) + 1 && result.0 == tres("expand", old(tlen()))
//@        && targ("expand", 2, old(tlen())) == &t.Addons.Accrual
//@   ensures [C10] @plain: t.Addons.Accrual.Range.Start == t.Addons.Accrual.Range.End ==> tlen() == old(tlen()) && (result.1 == nil ==> len(result.0) == 1)
//@   ensures [C20] @targets: result.1 == nil ==> (forall j int :: {result.0[j]} 0 <= j && j < len(result.0) ==>
//@        (result.0[j].Targets == nil) == (t.Addons.Performance.Range.Start == t.Addons.Performance.Range.End))
//@   loop 1 invariant fresh(targets) && wfCommodities(reg.commodities) && wfAccounts(reg.accounts) && tlen() == entry(tlen())
//@   loop 1 invariant targets != nil
//
// Compare: date, description, then the postings pairwise, then the number of postings; two
// transactions tie only if they agree in all of these (so equal-comparing transactions print alike).
// sameTargets: the @performance line the journal printer writes for the two transactions is the same (none for a
// nil list, otherwise the names of the targets in order) - what "tied transactions print alike" needs besides
// date, description and postings.
//@ def sameTargets(t *Transaction, t2 *Transaction) bool := (t.Targets == nil) == (t2.Targets == nil) && len(t.Targets) == len(t2.Targets)
//@     && (forall k int :: {t.Targets[k]} 0 <= k && k < len(t.Targets) ==> t.Targets[k].name == t2.Targets[k].name)
//@ def cmpReady(t *Transaction) bool := t != nil && (forall i int :: {t.Postings[i]} 0 <= i && i < len(t.Postings) ==> okPosting(t.Postings[i]))
//@     && (forall i int :: {t.Targets[i]} 0 <= i && i < len(t.Targets) ==> t.Targets[i] != nil)
//@ func Compare
//@   requires cmpReady(t) && cmpReady(t2)
//@   ensures [C06] [C05] 0 - 1 <= result && result <= 1
//@   ensures [C06] [C05] @tie: result == 0 <==> (t.Date == t2.Date && t.Description == t2.Description && len(t.Postings) == len(t2.Postings)
//@        && (forall k int :: {t.Postings[k]} 0 <= k && k < len(t.Postings) ==> postCmp(t.Postings[k], t2.Postings[k]) == 0) && sameTargets(t, t2))
//@   ensures [C06] [C05] @printsalike: result == 0 ==> sameTargets(t, t2)
//@   loop 1 invariant 0 <= i && i <= len(t.Postings) && i <= len(t2.Postings)
//@   loop 1 invariant forall k int :: {t.Postings[k]} 0 <= k && k < i ==> postCmp(t.Postings[k], t2.Postings[k]) == 0
//@   loop 1 decreases len(t.Postings) - i
//@   loop 2 invariant 0 <= i && i <= len(t.Targets) && i <= len(t2.Targets) && len(t.Postings) == len(t2.Postings) && t.Date == t2.Date && t.Description == t2.Description
//@   loop 2 invariant forall k int :: {t.Postings[k]} 0 <= k && k < len(t.Postings) ==> postCmp(t.Postings[k], t2.Postings[k]) == 0
//@   loop 2 invariant forall k int :: {t.Targets[k]} 0 <= k && k < i ==> t.Targets[k].name == t2.Targets[k].name
//@   loop 2 decreases len(t.Targets) - i
