//go:build verif

// Contracts for package amounts (machine-checked by /verif/engine; comment-only file).
//
// am[k] below is the Go lookup: the stored amount, or zero if k is absent.
package amounts

//@ func (Amounts).Amount
//@   inline
//@   ensures result == am[key]
//
// Add: exactly the entry at key changes, by +value.
//@ func (Amounts).Add
//@   inline
//@   requires am != nil
//@   modifies am[*]
//@   ensures dom(am) == upd(old(dom(am)), key, true) && vals(am) == upd(old(vals(am)), key, old(am[key]) + value)
//
// Plus / Minus: pointwise sum / difference with the other amounts (exact decimal arithmetic, hence
// independent of the iteration order of the map).
//@ func (Amounts).Plus
//@   requires am != nil && am != other
//@   modifies am[*]
//@   ensures forall k Key :: {key(am, k)} am[k] == old(am[k]) + other[k]
//@   ensures forall k Key :: {key(am, k)} (k in am) <==> (old(k in am) || (k in other))
//@   loop 1 invariant forall k Key :: {key(am, k)} am[k] == old(am[k]) + ($seen[k] ? other[k] : 0.0)
//@   loop 1 invariant forall k Key :: {key(am, k)} (k in am) <==> (old(k in am) || $seen[k])
//@   loop 1 invariant forall k Key :: {$seen[k]} $seen[k] ==> (k in other)
//
//@ func (Amounts).Minus
//@   requires am != nil && am != other
//@   modifies am[*]
//@   ensures forall k Key :: {key(am, k)} am[k] == old(am[k]) - other[k]
//@   ensures forall k Key :: {key(am, k)} (k in am) <==> (old(k in am) || (k in other))
//@   loop 1 invariant forall k Key :: {key(am, k)} am[k] == old(am[k]) - ($seen[k] ? other[k] : 0.0)
//@   loop 1 invariant forall k Key :: {key(am, k)} (k in am) <==> (old(k in am) || $seen[k])
//@   loop 1 invariant forall k Key :: {$seen[k]} $seen[k] ==> (k in other)
//
//@ func (Amounts).Clone
//@   ensures fresh(result) && (forall k Key :: {key(result, k)} ((k in result) <==> (k in am)) && result[k] == am[k])
//@   loop 1 invariant fresh(clone) && clone != nil && clone != am
//@   loop 1 invariant forall k Key :: {key(clone, k)} ((k in clone) <==> $seen[k]) && ($seen[k] ==> clone[k] == am[k])
//@   loop 1 invariant forall k Key :: {$seen[k]} $seen[k] ==> (k in am)
//
//@ func (Amounts).Commodities
//@   ensures fresh(result) && result != nil
//@   loop 1 invariant fresh(commodities) && commodities != nil
//
//@ func (Amounts).CommoditiesSorted
//@   ensures fresh(result)
//
// SumIntoBy: every entry of am that passes pred adds its amount to dest at the mapped key; a key of
// dest that no passing entry maps to keeps its amount; an entry whose mapped key is shared with no
// other passing entry changes dest there by exactly its own amount; no zero entries remain in dest.
// (pred == nil accepts everything, mapr == nil is the identity.)
//@ def passes(pred func(Key) bool, k Key) bool := pred == nil || pred(k)
//@ def mapped(mapr func(Key) Key, k Key) Key := mapr == nil ? k : mapr(k)
//@ func (Amounts).SumIntoBy
//@   requires dest != nil && dest != am
//@   pure pred, mapr
//@   modifies dest[*]
//@   ensures [C01] [C02] @untouched: forall k2 Key :: {key(dest, k2)} (forall k Key :: {key(am, k)} (k in am) && passes(pred, k) ==> mapped(mapr, k) != k2) ==> dest[k2] == old(dest[k2])
//@   ensures [C01] [C02] @single: forall k Key :: {key(am, k)} (k in am) && passes(pred, k)
//@        && (forall o Key :: {key(am, o)} (o in am) && passes(pred, o) && o != k ==> mapped(mapr, o) != mapped(mapr, k)) ==> dest[mapped(mapr, k)] == old(dest[mapped(mapr, k)]) + am[k]
//@   ensures [C01] [C02] @nozero: forall k2 Key :: {key(dest, k2)} (k2 in dest) ==> dest[k2] != 0.0
//@   loop 1 invariant dest != nil && dest != am && dom(am) == old(dom(am)) && vals(am) == old(vals(am))
//@   loop 1 invariant forall k Key :: {$seen[k]} $seen[k] ==> (k in am)
//@   loop 1 invariant forall k2 Key :: {key(dest, k2)} (forall k Key :: {$seen[k]} $seen[k] && passes(entry(pred), k) ==> mapped(entry(mapr), k) != k2) ==> dest[k2] == old(dest[k2])
//@   loop 1 invariant forall k Key :: {$seen[k]} $seen[k] && passes(entry(pred), k)
//@        && (forall o Key :: {key(am, o)} (o in am) && passes(entry(pred), o) && o != k ==> mapped(entry(mapr), o) != mapped(entry(mapr), k)) ==> dest[mapped(entry(mapr), k)] == old(dest[mapped(entry(mapr), k)]) + am[k]
//@   loop 2 invariant dest != nil && dest != am && dom(am) == old(dom(am)) && vals(am) == old(vals(am))
//@   loop 2 invariant forall k2 Key :: {key(dest, k2)} dest[k2] == entry(dest[k2])
//@   loop 2 invariant forall k2 Key :: {key(dest, k2)} $seen[k2] && (k2 in dest) ==> dest[k2] != 0.0
//@   loop 2 invariant forall k2 Key :: {key(dest, k2)} (k2 in dest) ==> entry(k2 in dest)
//
// KeyMapper.Build: the mapped key is computed field by field - each field only from the same field of
// the input, through its own mapper; a field without mapper is dropped (zero value). So two keys that
// agree in the mapped fields are mapped to the same key whatever their other fields are.
//@ func (KeyMapper).Build$1
//@   pure Date, Account, Other, Commodity, Valuation, Description
//@   ensures [C01] [C02] @fields: (km.Date != nil ==> result.Date == km.Date(k.Date)) && (km.Account != nil ==> result.Account == km.Account(k.Account))
//@        && (km.Other != nil ==> result.Other == km.Other(k.Other)) && (km.Commodity != nil ==> result.Commodity == km.Commodity(k.Commodity))
//@        && (km.Valuation != nil ==> result.Valuation == km.Valuation(k.Valuation)) && (km.Description != nil ==> result.Description == km.Description(k.Description))
//@   ensures [C01] [C02] @dropped: (km.Account == nil ==> result.Account == nil) && (km.Other == nil ==> result.Other == nil) && (km.Commodity == nil ==> result.Commodity == nil)
//@        && (km.Valuation == nil ==> result.Valuation == nil) && (km.Description == nil ==> result.Description == "")
//
// Adding two amounts to an Amounts map commutes (exact decimal arithmetic): what a report sums does
// not depend on the order in which postings arrive.
//@ commute amounts_add_commute [C05] [C06]: (Amounts).Add shared am
//
// SumOver: the exact decimal sum of the amounts whose key passes pred - no rounding: an empty selection
// gives zero, a single selected entry gives exactly its amount, and the result does not depend on the
// iteration order of the map (ghost acc mirrors the running sum; exact decimal additions commute).
//@ func (Amounts).SumOver
//@   pure pred
//@   modifies nothing
//@   ensures [C06] [C02] @none: (forall k Key :: {key(am, k)} (k in am) ==> !pred(k)) ==> result == 0.0
//@   ensures [C06] [C02] @single: forall k Key :: {key(am, k)} (k in am) && pred(k) && (forall o Key :: {key(am, o)} (o in am) && o != k ==> !pred(o)) ==> result == am[k]
//@   loop 1 invariant (forall k Key :: {$seen[k]} $seen[k] ==> (k in am))
//@   loop 1 invariant (forall k Key :: {$seen[k]} $seen[k] ==> !pred(k)) ==> res == 0.0
//@   loop 1 invariant forall k Key :: {$seen[k]} $seen[k] && pred(k) && (forall o Key :: {key(am, o)} (o in am) && o != k ==> !pred(o)) ==> res == am[k]
//@   loop 1 invariant forall k Key :: {key(am, k)} (k in am) && !$seen[k] && pred(k) && (forall o Key :: {key(am, o)} (o in am) && o != k ==> !pred(o)) ==> res == 0.0
//
// Index: a fresh slice holding keys of the map (sorted by the comparator when one is given: sort.Slice, trusted).
//@ func (Amounts).Index
//@   modifies nothing
//@   ensures fresh(result)
//@   ensures @keys: forall i int :: {result[i]} 0 <= i && i < len(result) ==> (result[i] in am)
//@   loop 1 invariant fresh(index)
//@   loop 1 invariant forall i int :: {index[i]} 0 <= i && i < len(index) ==> (index[i] in am)

