//go:build verif

// Contracts for package amounts (machine-checked by /verif/engine; comment-only file).
//
// am[k] below is the Go lookup: the stored amount, or zero if k is absent.
package amounts

//@ func (Amounts).Amount
//@   inline
//@   ensures result == am[key]
//
// Add: exactly the entry at key changes, by +value.
//@ func (Amounts).Add
//@   inline
//@   requires am != nil
//@   modifies am[*]
//@   ensures dom(am) == upd(old(dom(am)), key, true) && vals(am) == upd(old(vals(am)), key, old(am[key]) + value)
//
// Plus / Minus: pointwise sum / difference with the other amounts (exact decimal arithmetic, hence
// independent of the iteration order of the map).
//@ func (Amounts).Plus
//@   requires am != nil && am != other
//@   modifies am[*]
//@   ensures forall k Key :: {key(am, k)} am[k] == old(am[k]) + other[k]
//@   ensures forall k Key :: {key(am, k)} (k in am) <==> (old(k in am) || (k in other))
//@   loop 1 invariant forall k Key :: {key(am, k)} am[k] == old(am[k]) + ($seen[k] ? other[k] : 0.0)
//@   loop 1 invariant forall k Key :: {key(am, k)} (k in am) <==> (old(k in am) || $seen[k])
//@   loop 1 invariant forall k Key :: {$seen[k]} $seen[k] ==> (k in other)
//
//@ func (Amounts).Minus
//@   requires am != nil && am != other
//@   modifies am[*]
//@   ensures forall k Key :: {key(am, k)} am[k] == old(am[k]) - other[k]
//@   ensures forall k Key :: {key(am, k)} (k in am) <==> (old(k in am) || (k in other))
//@   loop 1 invariant forall k Key :: {key(am, k)} am[k] == old(am[k]) - ($seen[k] ? other[k] : 0.0)
//@   loop 1 invariant forall k Key :: {key(am, k)} (k in am) <==> (old(k in am) || $seen[k])
//@   loop 1 invariant forall k Key :: {$seen[k]} $seen[k] ==> (k in other)
//
//@ func (Amounts).Clone
//@   ensures fresh(result) && (forall k Key :: {key(result, k)} ((k in result) <==> (k in am)) && result[k] == am[k])
//@   loop 1 invariant fresh(clone) && clone != nil && clone != am
//@   loop 1 invariant forall k Key :: {key(clone, k)} ((k in clone) <==> $seen[k]) && ($seen[k] ==> clone[k] == am[k])
//@   loop 1 invariant forall k Key :: {$seen[k]} $seen[k] ==> (k in am)
//
//@ func (Amounts).Commodities
//@   ensures fresh(result) && result != nil
//@   loop 1 invariant fresh(commodities) && commodities != nil
//
//@ func (Amounts).CommoditiesSorted
//@   ensures fresh(result)
