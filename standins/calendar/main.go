// Exhaustive validation of the calendar theory (spec functions sof/eof and their axioms, DESIGN.md 4.3)
// against the real date.StartOf / date.EndOf, for every day 0000-01-01..9999-12-31 and every interval.
// This is a stand-in (labelled exhaustive over that range), never counted as a discharged obligation.
package main

import (
	"fmt"
	"os"
	"time"

	"github.com/sboehler/knut/lib/common/date"
)

func main() {
	first := date.Date(0, 1, 1)
	last := date.Date(9999, 12, 31)
	ivs := []date.Interval{date.Once, date.Daily, date.Weekly, date.Monthly, date.Quarterly, date.Yearly}
	n := 0
	bad := 0
	fail := func(format string, args ...any) {
		bad++
		if bad < 10 {
			fmt.Printf("FAIL "+format+"\n", args...)
		}
	}
	for _, iv := range ivs {
		var prevStart, prevEnd time.Time
		havePrev := false
		for d := first; !d.After(last); d = d.AddDate(0, 0, 1) {
			s := date.StartOf(d, iv)
			e := date.EndOf(d, iv)
			n++
			// sof_le, eof_ge
			if s.After(d) || e.Before(d) {
				fail("%v %v: not sof<=d<=eof (%v,%v)", iv, d, s, e)
			}
			// results are UTC midnights (typing assumption of the time theory)
			if s.Location() != time.UTC || s.Hour() != 0 || s.Minute() != 0 || s.Second() != 0 || s.Nanosecond() != 0 {
				fail("%v %v: StartOf not a UTC midnight", iv, d)
			}
			if e.Location() != time.UTC || e.Hour() != 0 || e.Nanosecond() != 0 {
				fail("%v %v: EndOf not a UTC midnight", iv, d)
			}
			// once/daily identity
			if (iv == date.Once || iv == date.Daily) && (!s.Equal(d) || !e.Equal(d)) {
				fail("%v %v: identity", iv, d)
			}
			// convexity: walking day by day, the start either stays or jumps to d itself; the previous
			// end is then d-1. This is equivalent to: sof(d)<=x<=d => sof(x)=sof(d), and
			// sof(eof(d)+1) = eof(d)+1.
			if havePrev {
				if s.Equal(prevStart) {
					if !e.Equal(prevEnd) {
						fail("%v %v: same start, different end", iv, d)
					}
				} else {
					if !s.Equal(d) {
						fail("%v %v: start jumps to %v, not to the day itself", iv, d, s)
					}
					if !prevEnd.Equal(d.AddDate(0, 0, -1)) {
						fail("%v %v: previous end %v is not the day before", iv, d, prevEnd)
					}
				}
			}
			// weekly periods start on Monday and end on Sunday
			if iv == date.Weekly && (s.Weekday() != time.Monday || e.Weekday() != time.Sunday) && !s.Before(first) {
				fail("%v %v: week %v..%v", iv, d, s, e)
			}
			if iv == date.Monthly && (s.Day() != 1 || e.AddDate(0, 0, 1).Day() != 1 || s.Month() != d.Month()) {
				fail("%v %v: month", iv, d)
			}
			if iv == date.Quarterly && (s.Day() != 1 || (int(s.Month())-1)%3 != 0 || e.AddDate(0, 0, 1).Day() != 1 || (int(e.AddDate(0, 0, 1).Month())-1)%3 != 0) {
				fail("%v %v: quarter %v..%v", iv, d, s, e)
			}
			if iv == date.Yearly && (s.Month() != 1 || s.Day() != 1 || e.Month() != 12 || e.Day() != 31 || s.Year() != d.Year()) {
				fail("%v %v: year", iv, d)
			}
			prevStart, prevEnd, havePrev = s, e, true
		}
	}
	// the zero time is day 0 of the day-number model and is the only IsZero UTC midnight
	if !(time.Time{}).Equal(date.Date(1, 1, 1)) || !(date.Date(1, 1, 1)).IsZero() {
		fail("zero time is not 0001-01-01 UTC")
	}
	if date.Date(1, 1, 1).Weekday() != time.Monday {
		fail("day 0 is not a Monday")
	}
	fmt.Printf("calendar: %d evaluations, %d failures\n", n, bad)
	if bad > 0 {
		os.Exit(1)
	}
}
