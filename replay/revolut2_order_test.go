package revolut2

// Witness for a defect of the revolut2 importer (properties C06 and C13): the balance assertions collected
// per (date, commodity) are added to the journal while ranging over a Go map, and assertions of one day are
// printed in the order in which they were added - so two runs over the same statement (several currencies
// on one day) print the assertions in different orders. Injected with `go test -overlay`; never part of
// the repository.

import (
	"bytes"
	"fmt"
	"io"
	"os"
	"path/filepath"
	"testing"
)

func TestKVWitnessRevolut2Order(t *testing.T) {
	file := filepath.Join(t.TempDir(), "statement.csv")
	rows := "Type,Product,Started Date,Completed Date,Description,Amount,Fee,Currency,State,Balance\n"
	for _, c := range []string{"CHF", "EUR", "USD", "GBP", "SEK", "NOK"} {
		rows += "TOPUP,Current,2022-01-01 10:00:00,2022-01-01 10:00:00,topup,10.00,0.00," + c + ",COMPLETED,10.00\n"
	}
	os.WriteFile(file, []byte(rows), 0o644)
	outputs := map[string]int{}
	for run := 0; run < 40; run++ {
		cmd := CreateCmd()
		var journal bytes.Buffer
		cmd.SetOut(&journal)
		cmd.SetErr(io.Discard)
		cmd.SetArgs([]string{"--account", "Assets:Revolut", "--fee", "Expenses:Fees", file})
		if err := cmd.Execute(); err != nil {
			fmt.Println("importer failed:", err)
			return
		}
		outputs[journal.String()]++
	}
	fmt.Printf("distinct outputs over 40 identical runs: %d\n", len(outputs))
	if len(outputs) > 1 {
		fmt.Println("REPLAY-CONFIRMED @ordered: the order of the balance assertions of one day depends on map iteration order")
	}
}
