package commands

// Witness for a defect of `knut transcode` (property C16: "every account used by a posting has an open
// directive dated on or before its first use"): the value adjustments that Valuate books go to the
// Income:<path> mirror of the asset account (Registry.ValuationAccountFor), but Transcode writes an open
// directive only for accounts whose name starts with "Equity:Valuation:" - a prefix no account has any more.
// The beancount ledger therefore uses accounts it never opens. Injected with `go test -overlay`; never part
// of the repository.

import (
	"bytes"
	"context"
	"fmt"
	"os"
	"path/filepath"
	"strings"
	"testing"

	"github.com/spf13/cobra"
)

func TestKVWitnessTranscodeOpens(t *testing.T) {
	file := filepath.Join(t.TempDir(), "j.knut")
	os.WriteFile(file, []byte("2020-01-01 open Assets:Portfolio\n\n2020-01-01 open Equity:Opening\n\n2020-01-01 price AAA 100 CHF\n\n2020-01-01 \"buy\"\nEquity:Opening Assets:Portfolio 10 AAA\n\n2020-02-01 price AAA 110 CHF\n"), 0o644)
	var out bytes.Buffer
	cmd := &cobra.Command{}
	cmd.SetOut(&out)
	cmd.SetContext(context.Background())
	r := &transcodeRunner{}
	r.setupFlags(cmd)
	cmd.Flags().Set("val", "CHF")
	if err := r.execute(cmd, []string{file}); err != nil {
		fmt.Println("transcode failed:", err)
		return
	}
	opened := map[string]bool{}
	for _, line := range strings.Split(out.String(), "\n") {
		f := strings.Fields(line)
		if len(f) == 3 && f[1] == "open" {
			opened[f[2]] = true
		}
		if strings.HasPrefix(line, "  ") && len(f) == 3 && !opened[f[0]] {
			fmt.Printf("REPLAY-CONFIRMED @opened: the ledger books on %s, which it never opens:\n%s", f[0], out.String())
			return
		}
	}
	fmt.Println("every account is opened before use")
}
