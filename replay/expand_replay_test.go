package transaction

// Replay harness for transaction.Create / expand (property C10; injected with `go test -overlay`, never
// part of the repository). Fixed scenarios: accrual annotations over several windows and intervals, legs
// on income/expense, asset and equity accounts, negative amounts, amounts that do not divide evenly,
// single-day windows, @performance targets. For each scenario the statement of the property is checked on
// the real code: every generated transaction is one balanced pair through the accrual account; a leg that
// is not income/expense is re-booked exactly once with its full quantity on the original date; an
// income/expense leg is split into one part per period of the window, dated at the period ends, whose
// quantities add up to the leg; annotations (targets) are kept; a transaction with an accrual annotation
// is always expanded.

import (
	"fmt"
	"testing"
	"time"

	"github.com/shopspring/decimal"

	"github.com/sboehler/knut/lib/common/date"
	"github.com/sboehler/knut/lib/model/registry"
	"github.com/sboehler/knut/lib/syntax"
	"github.com/sboehler/knut/lib/syntax/parser"
)

func kvParseTrx(t *testing.T, text string) *syntax.Transaction {
	p := parser.New(text, "")
	if err := p.Advance(); err != nil {
		t.Fatal(err)
	}
	f, err := p.ParseFile()
	if err != nil {
		t.Fatal(err)
	}
	trx := f.Directives[0].Directive.(syntax.Transaction)
	return &trx
}

func TestKVReplayExpand(t *testing.T) {
	type sc struct {
		interval   string
		iv         date.Interval
		start, end string
		booking    string
		perf       string
	}
	scenarios := []sc{
		{"monthly", date.Monthly, "2023-01-01", "2023-12-31", "Assets:Bank Expenses:Rent 1200 CHF", ""},
		{"monthly", date.Monthly, "2023-01-15", "2023-03-10", "Assets:Bank Expenses:Rent 100 CHF", ""},
		{"quarterly", date.Quarterly, "2023-01-01", "2023-10-15", "Assets:Bank Expenses:Fees 1000 CHF", ""},
		{"quarterly", date.Quarterly, "2023-02-01", "2023-07-31", "Income:Salary Assets:Bank 999.99 CHF", ""},
		{"weekly", date.Weekly, "2023-03-01", "2023-03-31", "Assets:Bank Expenses:Food -70 CHF", ""},
		{"daily", date.Daily, "2023-03-01", "2023-03-01", "Assets:Bank Expenses:Food 7 CHF", ""},
		{"monthly", date.Monthly, "2023-05-05", "2023-05-05", "Assets:Bank Expenses:Food 7 CHF", ""},
		{"monthly", date.Monthly, "2023-01-01", "2023-04-30", "Equity:Opening Expenses:Rent 400 CHF", ""},
		{"monthly", date.Monthly, "2023-01-01", "2023-04-30", "Equity:Opening Assets:Bank 400 CHF", ""},
		{"monthly", date.Monthly, "2023-01-01", "2023-03-31", "Assets:Portfolio Expenses:Fees 30 CHF", "@performance(AAPL,MSFT)\n"},
	}
	for _, s := range scenarios {
		func() {
			defer func() {
				if r := recover(); r != nil {
					fmt.Printf("REPLAY-CONFIRMED panic in scenario %+v: %v\n", s, r)
				}
			}()
			text := fmt.Sprintf("%s@accrue %s %s %s Assets:Accrual\n2023-02-20 \"subscription\"\n%s\n", s.perf, s.interval, s.start, s.end, s.booking)
			reg := registry.New()
			src := kvParseTrx(t, text)
			res, err := Create(reg, src)
			if err != nil {
				fmt.Printf("scenario %+v: error %v\n", s, err)
				return
			}
			plain, err := Create(registry.New(), kvParseTrx(t, fmt.Sprintf("%s2023-02-20 \"subscription\"\n%s\n", s.perf, s.booking)))
			if err != nil || len(plain) != 1 {
				t.Fatal("plain transaction", err)
			}
			orig := plain[0]
			st, _ := time.Parse("2006-01-02", s.start)
			en, _ := time.Parse("2006-01-02", s.end)
			ends := date.NewPartition(date.Period{Start: st, End: en}, s.iv, 0).EndDates()
			accrual := "Assets:Accrual"
			sums := map[string]decimal.Decimal{} // per account of the original: total booked on it through the accrual account
			ieDates := map[string][]time.Time{}
			for i, tr := range res {
				if len(tr.Postings) != 2 {
					fmt.Printf("REPLAY-CONFIRMED @balanced: scenario %+v: generated transaction %d has %d postings\n", s, i, len(tr.Postings))
					continue
				}
				a, b := tr.Postings[0], tr.Postings[1]
				if !a.Quantity.Equal(b.Quantity.Neg()) || a.Commodity != b.Commodity || a.Account != b.Other || b.Account != a.Other {
					fmt.Printf("REPLAY-CONFIRMED @balanced: scenario %+v: generated transaction %d is not a balanced pair\n", s, i)
				}
				if len(tr.Targets) != len(orig.Targets) {
					fmt.Printf("REPLAY-CONFIRMED @annotations: scenario %+v: generated transaction %d has %d targets, the original %d\n", s, i, len(tr.Targets), len(orig.Targets))
				}
				for _, p := range tr.Postings {
					if p.Account.Name() == accrual {
						continue
					}
					if p.Other.Name() != accrual {
						fmt.Printf("REPLAY-CONFIRMED @otherlegs: scenario %+v: transaction %d books %s against %s, not the accrual account\n", s, i, p.Account.Name(), p.Other.Name())
					}
					sums[p.Account.Name()] = sums[p.Account.Name()].Add(p.Quantity)
					if p.Account.IsIE() {
						ieDates[p.Account.Name()] = append(ieDates[p.Account.Name()], tr.Date)
					} else if !tr.Date.Equal(orig.Date) {
						fmt.Printf("REPLAY-CONFIRMED @otherlegs: scenario %+v: the leg on %s is dated %s, the original %s\n", s, p.Account.Name(), tr.Date.Format("2006-01-02"), orig.Date.Format("2006-01-02"))
					}
				}
			}
			for _, p := range orig.Postings {
				if got := sums[p.Account.Name()]; !got.Equal(p.Quantity) {
					fmt.Printf("REPLAY-CONFIRMED @ielegs/@otherlegs: scenario %+v: account %s receives %s through the accrual account, the original leg is %s\n", s, p.Account.Name(), got, p.Quantity)
				}
				if p.Account.IsIE() {
					ds := ieDates[p.Account.Name()]
					if len(ds) != len(ends) {
						fmt.Printf("REPLAY-CONFIRMED @ielegs: scenario %+v: %d parts on %s for %d periods\n", s, len(ds), p.Account.Name(), len(ends))
						continue
					}
					for k := range ds {
						if !ds[k].Equal(ends[k]) {
							fmt.Printf("REPLAY-CONFIRMED @partdate: scenario %+v: part %d on %s is dated %s, the period ends %s\n", s, k, p.Account.Name(), ds[k].Format("2006-01-02"), ends[k].Format("2006-01-02"))
						}
					}
				}
			}
		}()
	}
	fmt.Println("checked", len(scenarios), "accrual scenarios")
}
