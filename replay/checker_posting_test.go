package check

// Replay harness (injected with `go test -overlay`; never part of the repository).
// Builds a real Checker from the values of the solver model, calls the real (*Checker).posting twice
// (the second call shows state carried between postings) and evaluates the contract taken from property
// C04: a posting is accepted iff its account is open; asset/liability quantities are accumulated, other
// quantities are not tracked.

import (
	"encoding/json"
	"fmt"
	"os"
	"testing"

	"github.com/sboehler/knut/lib/amounts"
	"github.com/sboehler/knut/lib/common/set"
	"github.com/sboehler/knut/lib/model"
	"github.com/sboehler/knut/lib/model/registry"
	"github.com/shopspring/decimal"
)

func TestKVReplayPosting(t *testing.T) {
	var v map[string]string
	if err := json.Unmarshal([]byte(os.Getenv("KV_REPLAY")), &v); err != nil {
		t.Skip("no replay values")
	}
	reg := registry.New()
	names := map[string]string{"0": "Assets:A", "1": "Liabilities:A", "2": "Equity:A", "3": "Income:A", "4": "Expenses:A"}
	name, ok := names[v["accountType"]]
	if !ok {
		name = "Assets:A"
	}
	acc := reg.Accounts().MustGet(name)
	other := reg.Accounts().MustGet("Assets:Other")
	com := reg.Commodities().MustGet("CHF")
	amount, err := decimal.NewFromString(v["amount"])
	if err != nil {
		amount = decimal.NewFromInt(7)
	}
	ch := &Checker{}
	ch.quantities = make(amounts.Amounts)
	ch.accounts = set.New[*model.Account]()
	ch.accounts.Add(other)
	isOpen := v["open"] == "true"
	if isOpen {
		ch.accounts.Add(acc)
	}
	running := decimal.Zero
	if v["present"] == "true" {
		if q, err := decimal.NewFromString(v["qty"]); err == nil {
			ch.quantities[amounts.AccountCommodityKey(acc, com)] = q
			running = q
		}
	}
	trx := &model.Transaction{}
	// a posting on an open account first: a checker that remembers the last verified account must not let it leak
	warm := ch.posting(trx, &model.Posting{Account: other, Other: acc, Commodity: com, Quantity: decimal.NewFromInt(1)})
	res := ch.posting(trx, &model.Posting{Account: acc, Other: other, Commodity: com, Quantity: amount})
	res2 := ch.posting(trx, &model.Posting{Account: acc, Other: other, Commodity: com, Quantity: amount})
	fmt.Printf("input: account=%s open=%v running=%s amount=%s -> warm-up error=%v, error=%v, repeated error=%v\n", name, isOpen, running, amount, warm != nil, res != nil, res2 != nil)
	if (res == nil) != isOpen || (res2 == nil) != isOpen {
		fmt.Println("REPLAY-CONFIRMED @iff: a posting must be accepted iff its account is open")
	}
	got := ch.quantities[amounts.AccountCommodityKey(acc, com)]
	if isOpen && acc.IsAL() && res == nil && res2 == nil && !got.Equal(running.Add(amount).Add(amount)) {
		fmt.Printf("REPLAY-CONFIRMED @al: running quantity %s after two postings of %s on %s\n", got, amount, running)
	}
	// history scenario: the account was open (and used), is closed, and is used again: the last use must be rejected
	ch2 := &Checker{}
	ch2.quantities = make(amounts.Amounts)
	ch2.accounts = set.New[*model.Account]()
	ch2.accounts.Add(acc)
	first := ch2.posting(trx, &model.Posting{Account: acc, Other: other, Commodity: com, Quantity: decimal.Zero})
	ch2.accounts.Remove(acc)
	after := ch2.posting(trx, &model.Posting{Account: acc, Other: other, Commodity: com, Quantity: decimal.Zero})
	fmt.Printf("history: open, post (error=%v), close, post again (error=%v)\n", first != nil, after != nil)
	if first != nil || after == nil {
		fmt.Println("REPLAY-CONFIRMED @iff: acceptance depends on earlier postings, not on whether the account is open now")
	}
	if !acc.IsAL() && !got.Equal(running) {
		fmt.Println("REPLAY-CONFIRMED @other: a quantity is tracked for a non asset/liability account")
	}
}
