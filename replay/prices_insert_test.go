package price

// Replay harness for (Prices).Insert (injected with `go test -overlay`).

import (
	"encoding/json"
	"fmt"
	"os"
	"testing"

	"github.com/sboehler/knut/lib/model/commodity"
	"github.com/shopspring/decimal"
)

func TestKVReplayInsert(t *testing.T) {
	var v map[string]string
	if err := json.Unmarshal([]byte(os.Getenv("KV_REPLAY")), &v); err != nil {
		t.Skip("no replay values")
	}
	// the solver's candidate first; when the solver gave no definite model (quantified hypotheses), a
	// few fixed prices are tried as well and the report says which input failed
	candidates := []string{v["price"], "3", "7", "0.3", "1.00000001", "0"}
	for i, c := range candidates {
		if replayInsert(t, v, c) {
			if i > 0 {
				fmt.Println("(confirmed with a harness-enumerated input, not the solver's candidate)")
			}
			return
		}
	}
}

func replayInsert(t *testing.T, v map[string]string, priceStr string) (confirmed bool) {
	price, err := decimal.NewFromString(priceStr)
	if err != nil {
		return false
	}
	reg := commodity.NewCommodities()
	com, tgt := reg.MustGet("AAA"), reg.MustGet("CHF")
	if v["same"] == "true" {
		tgt = com
	}
	ps := make(Prices)
	res := ps.Insert(com, price, tgt)
	fmt.Printf("input: Insert(AAA, %s, %s) on an empty price table -> error=%v table=%v\n", price, tgt.Name(), res != nil, ps)
	if price.IsZero() {
		if res == nil || len(ps) != 0 {
			fmt.Println("REPLAY-CONFIRMED @zero: a zero price is not rejected, or the table changed")
			return true
		}
		return false
	}
	one := decimal.NewFromInt(1)
	want := one.Div(price).Truncate(8)
	if res != nil || ps[com] == nil || ps[tgt] == nil {
		fmt.Println("REPLAY-CONFIRMED @ok: a non-zero price is rejected or an entry is missing")
		return true
	}
	if got, ok := ps[com][tgt]; !ok || !got.Equal(want) {
		fmt.Printf("REPLAY-CONFIRMED @ok: reciprocal entry is %s, want %s (1/price truncated to 8 decimals)\n", got, want)
		confirmed = true
	}
	if com != tgt {
		if got, ok := ps[tgt][com]; !ok || !got.Equal(price) {
			fmt.Printf("REPLAY-CONFIRMED @ok: price entry is %s, want %s\n", got, price)
			confirmed = true
		}
	}
	return confirmed
}
