package commands

// Witness for the missing check in `knut transcode` (property C14): without --val the valuation
// commodity is nil and beancount.Transcode dereferences it (panic instead of a diagnostic).
// Injected with `go test -overlay`; never part of the repository.

import (
	"context"
	"fmt"
	"os"
	"path/filepath"
	"testing"
)

func TestKVWitnessTranscodeWithoutValuation(t *testing.T) {
	dir := t.TempDir()
	file := filepath.Join(dir, "j.knut")
	os.WriteFile(file, []byte("2024-01-01 open Assets:Bank\n2024-01-01 open Equity:Opening\n2024-01-02 \"x\"\nEquity:Opening Assets:Bank 10 CHF\n"), 0o644)
	cmd := CreateTranscodeCommand()
	cmd.SetContext(context.Background())
	var r transcodeRunner
	func() {
		defer func() {
			if p := recover(); p != nil {
				fmt.Printf("REPLAY-CONFIRMED val: transcode without --val panicked: %v\n", p)
			}
		}()
		err := r.execute(cmd, []string{file})
		fmt.Printf("transcode without --val returned error: %v\n", err)
	}()
}
