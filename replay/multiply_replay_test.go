package price

// Replay harness (injected with `go test -overlay`; never part of the repository).
// price.Multiply must be the product truncated to 8 decimals: within 1e-8 of the exact product, never
// larger in magnitude, and odd in its first argument (so the two halves of a posting pair stay exact
// negatives). Beyond the model's operands a few fixed operands with more than 8 decimals are tried.

import (
	"encoding/json"
	"fmt"
	"os"
	"testing"

	"github.com/shopspring/decimal"
)

func TestKVReplayMultiply(t *testing.T) {
	var v map[string]string
	json.Unmarshal([]byte(os.Getenv("KV_REPLAY")), &v)
	type pair struct{ x, y string }
	cases := []pair{{"1.2347", "0.97148"}, {"0.333333333", "3"}, {"12345.678901234", "0.000123456789"}}
	if v != nil {
		cases = append([]pair{{v["x"], v["y"]}}, cases...)
	}
	eps := decimal.New(1, -8)
	for _, c := range cases {
		x, e1 := decimal.NewFromString(c.x)
		y, e2 := decimal.NewFromString(c.y)
		if e1 != nil || e2 != nil {
			continue
		}
		r, rn, exact := Multiply(x, y), Multiply(x.Neg(), y), x.Mul(y)
		fmt.Printf("input: Multiply(%s, %s) = %s, Multiply(-x, y) = %s, exact %s\n", x, y, r, rn, exact)
		if !rn.Equal(r.Neg()) {
			fmt.Println("REPLAY-CONFIRMED odd: Multiply(-x, y) != -Multiply(x, y)")
		}
		if exact.Sub(r).Abs().GreaterThanOrEqual(eps) || r.Abs().GreaterThan(exact.Abs()) {
			fmt.Println("REPLAY-CONFIRMED trunc: the result is not the product truncated to 8 decimals")
		}
	}
}
