package commodity

// Replay harness (injected with `go test -overlay`; never part of the repository).
// The commodity registry interns by exact name: Get(n) returns THE commodity whose name is n, whatever
// names were requested before (contract clauses @interned, @kept, @only of (*Registry).Get).

import (
	"fmt"
	"testing"
)

func TestKVReplayCommodityGet(t *testing.T) {
	names := []string{"CHF", "chf", "Chf", "USD", "USD1", "AAPL", "aapl", "X"}
	func() {
		defer func() {
			if r := recover(); r != nil {
				fmt.Printf("REPLAY-CONFIRMED panic: %v\n", r)
			}
		}()
		// every rotation of the request order
		for rot := range names {
			reg := NewCommodities()
			got := map[string]*Commodity{}
			for k := range names {
				n := names[(rot+k)%len(names)]
				c, err := reg.Get(n)
				if err != nil {
					fmt.Printf("REPLAY-CONFIRMED @interned: Get(%q) fails: %v\n", n, err)
					continue
				}
				if c == nil || c.Name() != n {
					fmt.Printf("REPLAY-CONFIRMED @interned: Get(%q) after %v returns the commodity named %q\n", n, names[rot:], c.Name())
				}
				for m, d := range got {
					if d == c && m != n {
						fmt.Printf("REPLAY-CONFIRMED @only: Get(%q) and Get(%q) return the same commodity\n", n, m)
					}
				}
				got[n] = c
			}
			for n, c := range got {
				if d, err := reg.Get(n); err != nil || d != c {
					fmt.Printf("REPLAY-CONFIRMED @kept: a second Get(%q) returns a different commodity\n", n)
				}
			}
		}
	}()
	fmt.Println("requested", len(names)*len(names), "names")
}
