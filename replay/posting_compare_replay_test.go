package posting

// Replay harness (injected with `go test -overlay`; never part of the repository).
// posting.Compare must be a total order whose only ties are postings that agree in account, other account,
// quantity, value and commodity name: antisymmetric, and Equal exactly for such postings.

import (
	"fmt"
	"testing"

	"github.com/sboehler/knut/lib/model/registry"
	"github.com/shopspring/decimal"
)

func TestKVReplayPostingCompare(t *testing.T) {
	reg := registry.New()
	acc := func(n string) *Posting { return nil }
	_ = acc
	a1, a2 := reg.Accounts().MustGet("Assets:Bank"), reg.Accounts().MustGet("Expenses:Food")
	a3 := reg.Accounts().MustGet("Assets:Cash")
	chf, usd := reg.Commodities().MustGet("CHF"), reg.Commodities().MustGet("USD")
	d := decimal.NewFromInt
	ps := []*Posting{
		{Account: a1, Other: a2, Quantity: d(10), Value: d(10), Commodity: chf},
		{Account: a1, Other: a2, Quantity: d(10), Value: d(10), Commodity: usd},
		{Account: a1, Other: a2, Quantity: d(10), Value: d(11), Commodity: chf},
		{Account: a1, Other: a2, Quantity: d(12), Value: d(10), Commodity: chf},
		{Account: a1, Other: a3, Quantity: d(10), Value: d(10), Commodity: chf},
		{Account: a3, Other: a2, Quantity: d(10), Value: d(10), Commodity: chf},
		{Account: a1, Other: a2, Quantity: d(10), Value: d(10), Commodity: chf},
	}
	same := func(p, q *Posting) bool {
		return p.Account == q.Account && p.Other == q.Other && p.Quantity.Equal(q.Quantity) && p.Value.Equal(q.Value) && p.Commodity == q.Commodity
	}
	for i, p := range ps {
		for j, q := range ps {
			pq, qp := Compare(p, q), Compare(q, p)
			if pq != -qp {
				fmt.Printf("REPLAY-CONFIRMED @lex: Compare(#%d,#%d)=%d but Compare(#%d,#%d)=%d (not antisymmetric)\n", i, j, pq, j, i, qp)
			}
			if (pq == 0) != same(p, q) {
				fmt.Printf("REPLAY-CONFIRMED @lex: Compare(#%d,#%d)=%d although the postings %s\n", i, j, pq, map[bool]string{true: "agree in every compared field", false: "differ"}[same(p, q)])
			}
		}
	}
	fmt.Println("compared", len(ps)*len(ps), "pairs")
}
