package postfinance

// Witness for a defect of the postfinance importer (property C13: "nothing else is emitted"): the record
// that ends the booking section (the "Disclaimer:" line of every statement) is printed by a leftover debug
// fmt.Println to the PROCESS's standard output, in front of the journal - `knut import ch.postfinance ...
// > file` therefore starts with the line `1 [Disclaimer:]`, which is not valid for knut's parser. The
// golden test does not see it because it captures the command's writer, not os.Stdout.
// Injected with `go test -overlay`; never part of the repository.

import (
	"bytes"
	"fmt"
	"io"
	"os"
	"testing"
)

func TestKVWitnessPostfinanceQuiet(t *testing.T) {
	cmd := CreateCmd()
	var journal bytes.Buffer
	cmd.SetOut(&journal)
	cmd.SetErr(io.Discard)
	cmd.SetArgs([]string{"--account", "Assets:Postfinance", "testdata/example1.input"})
	old := os.Stdout
	rd, wr, _ := os.Pipe()
	os.Stdout = wr
	err := cmd.Execute()
	wr.Close()
	os.Stdout = old
	var stray bytes.Buffer
	io.Copy(&stray, rd)
	fmt.Printf("journal: %d bytes (err=%v); written to the process's stdout besides the journal: %q\n", journal.Len(), err, stray.String())
	if stray.Len() > 0 {
		fmt.Println("REPLAY-CONFIRMED stdout: the importer prints " + fmt.Sprintf("%q", stray.String()) + " to standard output in addition to the journal")
	}
}
