package journal

// Replay harness (injected with `go test -overlay`; never part of the repository).
// Builder.Build: the journal must list exactly the days of the builder, each of them once, in the order of
// their dates. Builders with 0..12 days (added in three different arrival orders) are built and compared.

import (
	"fmt"
	"testing"
	"time"

	"github.com/sboehler/knut/lib/model"
)

func TestKVReplayBuilderBuild(t *testing.T) {
	day := func(n int) time.Time { return time.Date(2024, 1, 1, 0, 0, 0, 0, time.UTC).AddDate(0, 0, n) }
	for n := 0; n <= 12; n++ {
		for order := 0; order < 3; order++ {
			j := New()
			for i := 0; i < n; i++ {
				k := i
				switch order {
				case 1:
					k = n - 1 - i
				case 2:
					k = (i * 5) % n
				}
				if err := j.Add(&model.Transaction{Date: day(3 * k), Description: fmt.Sprint(k)}); err != nil {
					t.Fatal(err)
				}
			}
			want := len(j.days)
			res := j.Build()
			seen := map[*Day]int{}
			for _, d := range res.Days {
				seen[d]++
			}
			for dt, d := range j.days {
				if seen[d] != 1 {
					fmt.Printf("REPLAY-CONFIRMED @all/@days: builder with %d days (arrival order %d): the day %s is listed %d times in the journal of %d days\n", want, order, dt.Format("2006-01-02"), seen[d], len(res.Days))
				}
			}
			if len(res.Days) != want {
				fmt.Printf("REPLAY-CONFIRMED @all/@days: builder with %d days: the journal lists %d days\n", want, len(res.Days))
			}
			for i := 1; i < len(res.Days); i++ {
				if !res.Days[i-1].Date.Before(res.Days[i].Date) {
					fmt.Printf("REPLAY-CONFIRMED @sorted: builder with %d days (arrival order %d): day %s is listed before day %s\n", want, order, res.Days[i-1].Date.Format("2006-01-02"), res.Days[i].Date.Format("2006-01-02"))
				}
			}
		}
	}
}
