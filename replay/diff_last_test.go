// Witness for the repaired defect F28 (C02): balance --diff --last n showed the whole earlier history in the first column.
package commands

import (
	"os"
	"path/filepath"
	"strings"
	"testing"

	"github.com/sboehler/knut/cmd/cmdtest"
)

// Four months of bookings; the report shows the last two months as per-period
// changes (--months --last 2 --diff). According to the property, with --diff a
// cell shows only the change inside its period. The first reported column
// (2020-03-31, period 2020-03-01..2020-03-31) however also contains everything
// booked before 2020-03-01.
const kvorig1Journal = `2020-01-01 open Equity:Equity
2020-01-01 open Assets:Bank
2020-01-01 open Income:Salary
2020-01-01 open Expenses:Food
2020-01-01 open Expenses:Rent

2020-01-01 "Opening balance"
Equity:Equity Assets:Bank 1000 CHF

2020-01-15 "Salary"
Income:Salary Assets:Bank 500 CHF

2020-01-20 "Food"
Assets:Bank Expenses:Food 50 CHF

2020-02-15 "Salary"
Income:Salary Assets:Bank 500 CHF

2020-02-20 "Food"
Assets:Bank Expenses:Food 70 CHF

2020-03-10 "Rent"
Assets:Bank Expenses:Rent 300 CHF

2020-03-20 "Food"
Assets:Bank Expenses:Food 20 CHF

2020-04-15 "Salary"
Income:Salary Assets:Bank 500 CHF
`

// kvorig1Rows runs the balance command and returns the cells of every row,
// keyed by "<full account name>/<commodity>". Empty cells are returned as "0".
func kvorig1Rows(t *testing.T, journal string, args ...string) map[string][]string {
	t.Helper()
	p := filepath.Join(t.TempDir(), "journal.knut")
	if err := os.WriteFile(p, []byte(journal), 0o644); err != nil {
		t.Fatal(err)
	}
	out := string(cmdtest.Run(t, CreateBalanceCommand(), append(args, "--color=false", p)...))
	rows := make(map[string][]string)
	var path []string
	var name string
	for _, line := range strings.Split(out, "\n") {
		if !strings.HasPrefix(line, "| ") {
			continue
		}
		cells := strings.Split(strings.TrimSuffix(strings.TrimPrefix(line, "| "), " |"), " | ")
		if len(cells) < 2 {
			continue
		}
		if seg := strings.TrimSpace(cells[0]); seg != "" {
			if seg == "Account" {
				continue
			}
			level := (len(cells[0]) - len(strings.TrimLeft(cells[0], " "))) / 2
			path = append(path[:level:level], seg)
			name = strings.Join(path, ":")
		}
		comm := strings.TrimSpace(cells[1])
		if comm == "" {
			continue
		}
		var vals []string
		for _, c := range cells[2:] {
			c = strings.ReplaceAll(strings.TrimSpace(c), ",", "")
			if c == "" {
				c = "0"
			}
			vals = append(vals, c)
		}
		rows[name+"/"+comm] = vals
	}
	return rows
}

func TestKVWitnessDiffWithLast(t *testing.T) {
	// Reference computation: changes inside March and inside April (signs as
	// displayed: E/I/E rows are negated). Closing is switched off to keep
	// the example free of closing entries.
	//   Assets:Bank      March: -300 -20 = -320 ; April: +500
	//   Income:Salary    March: 0               ; April: -500 -> 500
	//   Expenses:Food    March: 20 -> -20       ; April: 0
	//   Expenses:Rent    March: 300 -> -300     ; April: 0
	//   Equity:Equity    no bookings in March or April
	want := map[string][]string{
		"Assets:Bank/CHF":   {"-320", "500"},
		"Income:Salary/CHF": {"0", "500"},
		"Expenses:Food/CHF": {"-20", "0"},
		"Expenses:Rent/CHF": {"-300", "0"},
	}
	rows := kvorig1Rows(t, kvorig1Journal, "--months", "--last", "2", "--diff", "--close=false", "--to", "2020-04-30")
	for name, w := range want {
		got, ok := rows[name]
		if !ok {
			t.Errorf("row %s is missing (rows: %v)", name, rows)
			continue
		}
		if strings.Join(got, ",") != strings.Join(w, ",") {
			t.Errorf("--diff --last 2: row %s: got %v, want %v", name, got, w)
		}
	}
	if got, ok := rows["Equity:Equity/CHF"]; ok && strings.Join(got, ",") != "0,0" {
		t.Errorf("--diff --last 2: row Equity:Equity/CHF: got %v, want no change in either period", got)
	}

	// the same report without --last shows exactly these values in its last two columns
	all := kvorig1Rows(t, kvorig1Journal, "--months", "--diff", "--close=false", "--to", "2020-04-30")
	for name, w := range want {
		got := all[name]
		if len(got) != 4 || strings.Join(got[2:], ",") != strings.Join(w, ",") {
			t.Errorf("--diff without --last: row %s: got %v, want last two columns %v", name, got, w)
		}
	}
}
