package balance

// Witness for the tie defect in balance.Report.SortWeighted (property C06): without a valuation every
// weight is zero, the sibling comparator reports Equal for distinct siblings, and the row order is left
// to the iteration order of the Children map. Injected with `go test -overlay`; never part of the repository.

import (
	"fmt"
	"strings"
	"testing"
	"time"

	"github.com/sboehler/knut/lib/amounts"
	"github.com/sboehler/knut/lib/common/date"
	"github.com/sboehler/knut/lib/model/registry"
	"github.com/shopspring/decimal"
)

func TestKVWitnessSortWeightedTie(t *testing.T) {
	orders := map[string]int{}
	for run := 0; run < 200; run++ {
		reg := registry.New()
		d := time.Date(2024, 1, 31, 0, 0, 0, 0, time.UTC)
		part := date.NewPartition(date.Period{Start: d.AddDate(0, 0, -30), End: d}, date.Monthly, 0)
		rep := NewReport(reg, part)
		chf, _ := reg.Commodities().Get("CHF")
		for _, n := range []string{"Assets:A", "Assets:B", "Assets:C", "Assets:D", "Assets:E"} {
			rep.Insert(amounts.Key{Date: d, Account: reg.Accounts().MustGet(n), Commodity: chf}, decimal.NewFromInt(10))
		}
		rep.SetAccounts()
		rep.SortWeighted()
		var names []string
		for _, ch := range rep.AL.Children["Assets"].Sorted {
			names = append(names, ch.Segment)
		}
		orders[strings.Join(names, ",")]++
	}
	fmt.Printf("distinct sibling orders over 200 identical runs: %d\n", len(orders))
	if len(orders) > 1 {
		fmt.Println("REPLAY-CONFIRMED tie: equal-weight siblings are ordered by map iteration order")
	}
}
