package portfolio

// Witness for the evaluation-order defect in `knut portfolio returns` (property C20): the journal is built
// (j.Build()) before performance.Perf adds the period end days to the builder, so a period that ends on a
// day without directives is never reported. Injected with `go test -overlay`; never part of the repository.

import (
	"bytes"
	"context"
	"fmt"
	"io"
	"os"
	"path/filepath"
	"strings"
	"testing"
)

func TestKVWitnessReturnsEveryPeriod(t *testing.T) {
	dir := t.TempDir()
	file := filepath.Join(dir, "j.knut")
	os.WriteFile(file, []byte("2024-01-01 open Assets:Bank\n\n2024-01-01 open Equity:Opening\n\n2024-01-15 \"deposit\"\nEquity:Opening Assets:Bank 1000 CHF\n\n2024-03-20 \"deposit\"\nEquity:Opening Assets:Bank 10 CHF\n"), 0o644)
	cmd := CreateReturnsCommand()
	cmd.SetContext(context.Background())
	cmd.SetArgs([]string{"--val", "CHF", "--months", "--from", "2024-01-01", "--to", "2024-03-31", file})
	old := os.Stdout
	rd, wr, _ := os.Pipe()
	os.Stdout = wr
	err := cmd.Execute()
	wr.Close()
	os.Stdout = old
	var buf bytes.Buffer
	io.Copy(&buf, rd)
	lines := strings.Count(buf.String(), "%")
	fmt.Printf("returns over 3 monthly periods printed %d period lines (err=%v):\n%s", lines, err, buf.String())
	if lines != 3 {
		fmt.Println("REPLAY-CONFIRMED order: not every period of the partition is reported")
	}
}
