package performance

// Witness for a defect of performance.Performance (property C20: "0% for a period in which prices are
// unchanged and only external deposits or withdrawals occur"): when start value plus inflow is zero - a
// withdrawal from an empty portfolio, or a deposit that exactly settles a negative one - the daily factor is
// 0/0 = NaN, and the NaN poisons the whole period's return. Injected with `go test -overlay`; never part of
// the repository.

import (
	"fmt"
	"math"
	"testing"

	"github.com/sboehler/knut/lib/journal"
	"github.com/sboehler/knut/lib/model"
	"github.com/sboehler/knut/lib/model/registry"
)

func TestKVWitnessPerfZeroBase(t *testing.T) {
	chf := registry.New().Commodities().MustGet("CHF")
	cases := []struct {
		name string
		p    *journal.Performance
	}{
		{"withdrawal from an empty portfolio", &journal.Performance{V0: map[*model.Commodity]float64{}, V1: map[*model.Commodity]float64{chf: -50}, PortfolioOutflow: -50}},
		{"deposit that settles a negative portfolio", &journal.Performance{V0: map[*model.Commodity]float64{chf: -50}, V1: map[*model.Commodity]float64{chf: 0}, PortfolioInflow: 50}},
	}
	for _, c := range cases {
		f := Performance(c.p)
		fmt.Printf("%s: daily factor %v\n", c.name, f)
		if math.IsNaN(f) || f != 1 {
			fmt.Printf("REPLAY-CONFIRMED perf_flow_only: %s with unchanged prices gives the factor %v instead of 1 (a return of 0%%)\n", c.name, f)
		}
	}
}

// Second witness (same function): a transaction annotated `@performance()` is no external deposit or
// withdrawal, but its amount - already contained in the end value - was added once more through
// PortfolioInflow/PortfolioOutflow: a dividend of 100 on a portfolio of 1000 gave the factor 1.2 instead of 1.1.
func TestKVWitnessPerfPortfolioEffect(t *testing.T) {
	chf := registry.New().Commodities().MustGet("CHF")
	// what ComputeFlows records for `@performance()` Income:Dividends -> Assets:Bank 100 CHF
	p := &journal.Performance{
		V0:               map[*model.Commodity]float64{chf: 1000},
		V1:               map[*model.Commodity]float64{chf: 1100},
		InternalInflow:   map[*model.Commodity]float64{chf: 100},
		PortfolioOutflow: -100,
	}
	f := Performance(p)
	fmt.Printf("no external flows, value 1000 -> 1100: daily factor %v\n", f)
	if math.Abs(f-1.1) > 1e-12 {
		fmt.Printf("REPLAY-CONFIRMED @noflows: without external flows the factor must be end value over start value = 1.1, got %v\n", f)
	}
}
