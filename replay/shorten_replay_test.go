package account

// Replay harness (injected with `go test -overlay`; never part of the repository).
// Builds an account with the number of segments of the solver model and a one-rule mapping with the
// model's level and suffix (a nil regex matches every account), calls the real mapper and compares with
// the statement of property C02: level 0 hides the account; a rule that would not shorten it leaves it
// unchanged; otherwise the result is prefix[:level] + the last `suffix` segments; the given account is
// never modified.

import (
	"encoding/json"
	"fmt"
	"os"
	"strconv"
	"strings"
	"testing"
)

func TestKVReplayShorten(t *testing.T) {
	var v map[string]string
	if err := json.Unmarshal([]byte(os.Getenv("KV_REPLAY")), &v); err != nil {
		t.Skip("no replay values")
	}
	nrules, _ := strconv.Atoi(v["nrules"])
	level, e1 := strconv.Atoi(v["level0"])
	suffix, e2 := strconv.Atoi(v["suffix0"])
	nseg, e3 := strconv.Atoi(v["nseg"])
	if nrules < 1 || v["match0"] != "true" || e1 != nil || e2 != nil || e3 != nil || nseg < 1 || nseg > 12 || level < 0 || suffix < 0 || level > 20 || suffix > 20 {
		t.Skipf("model outside the harness domain (first rule must match): %v", v)
	}
	segs := []string{"Assets"}
	for i := 1; i < nseg; i++ {
		segs = append(segs, fmt.Sprintf("S%d", i))
	}
	reg := NewRegistry()
	a := reg.MustGet(strings.Join(segs, ":"))
	before := strings.Join(a.Segments(), ":")
	fmt.Printf("input: account %s, mapping level=%d suffix=%d (nil regex)\n", before, level, suffix)
	defer func() {
		if r := recover(); r != nil {
			fmt.Printf("REPLAY-CONFIRMED panic: %v\n", r)
		}
	}()
	res := Shorten(reg, Mapping{{Level: level, Suffix: suffix}})(a)
	if after := strings.Join(a.Segments(), ":"); after != before {
		fmt.Printf("REPLAY-CONFIRMED frame: the given account was modified: %s\n", after)
	}
	var want string
	switch {
	case level == 0:
		want = "<nil>"
	case level+suffix > nseg:
		want = before
	default:
		want = strings.Join(append(append([]string{}, segs[:level]...), segs[nseg-suffix:]...), ":")
	}
	got := "<nil>"
	if res != nil {
		got = res.Name()
	}
	fmt.Printf("result %s, expected %s\n", got, want)
	if got != want {
		fmt.Println("REPLAY-CONFIRMED @short/@collapse/@path: the mapped account differs from the stated result")
	}
}
