package weights

// Witness for the tie defect in weights.Report.SortWeighted (property C06): siblings with equal total
// weight compare Equal, so their order is the iteration order of the Children map.
// Injected with `go test -overlay`; never part of the repository.

import (
	"fmt"
	"strings"
	"testing"
	"time"
)

func TestKVWitnessWeightsTie(t *testing.T) {
	orders := map[string]int{}
	d := time.Date(2024, 1, 31, 0, 0, 0, 0, time.UTC)
	for run := 0; run < 200; run++ {
		rep := NewReport()
		for _, n := range []string{"AAA", "BBB", "CCC", "DDD", "EEE"} {
			rep.Add([]string{n}, d, 0.2)
		}
		rep.PropagateWeights()
		rep.SortWeighted()
		var names []string
		for _, ch := range rep.weights.Sorted {
			names = append(names, ch.Segment)
		}
		orders[strings.Join(names, ",")]++
	}
	fmt.Printf("distinct sibling orders over 200 identical runs: %d\n", len(orders))
	if len(orders) > 1 {
		fmt.Println("REPLAY-CONFIRMED tie: equal-weight siblings are ordered by map iteration order")
	}
}
