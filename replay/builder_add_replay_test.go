package journal

// Replay harness (injected with `go test -overlay`; never part of the repository).
// Builder.Add: the period of a journal (min over transaction dates, max over transaction and price dates)
// and the grouping of directives by (date, kind) must not depend on the order in which directives arrive.
// The directives of a small journal are added in every order and the builders are compared.

import (
	"fmt"
	"testing"
	"time"

	"github.com/sboehler/knut/lib/model"
)

func TestKVReplayBuilderAdd(t *testing.T) {
	day := func(n int) time.Time { return time.Date(2024, 1, 1, 0, 0, 0, 0, time.UTC).AddDate(0, 0, n) }
	mk := func() []model.Directive {
		return []model.Directive{
			&model.Transaction{Date: day(10), Description: "a"},
			&model.Transaction{Date: day(30), Description: "b"},
			&model.Transaction{Date: day(20), Description: "c"},
			&model.Price{Date: day(40)},
			&model.Price{Date: day(5)},
			&model.Open{Date: day(1)},
		}
	}
	run := func(perms [][]int, mk func() []model.Directive, wantStart, wantEnd time.Time) {
		var ref string
		for _, p := range perms {
			ds := mk()
			j := New()
			for _, i := range p {
				if err := j.Add(ds[i]); err != nil {
					t.Fatal(err)
				}
			}
			per := j.Period()
			sum := fmt.Sprintf("period %s..%s days=%d", per.Start.Format("2006-01-02"), per.End.Format("2006-01-02"), len(j.days))
			for _, n := range []int{1, 5, 10, 20, 30, 40} {
				d := j.Day(day(n))
				sum += fmt.Sprintf(" [%d: p%d o%d t%d]", n, len(d.Prices), len(d.Openings), len(d.Transactions))
			}
			fmt.Printf("arrival order %v -> %s\n", p, sum)
			if ref == "" {
				ref = sum
				if per.Start != wantStart || per.End != wantEnd {
					fmt.Println("REPLAY-CONFIRMED @range: the period is not [first transaction date, last transaction or price date]")
				}
			} else if sum != ref {
				fmt.Println("REPLAY-CONFIRMED @range/@day: the builder depends on the arrival order of the directives")
			}
		}
	}
	run([][]int{{0, 1, 2, 3, 4, 5}, {5, 4, 3, 2, 1, 0}, {1, 0, 2, 4, 3, 5}, {3, 1, 0, 2, 5, 4}, {2, 3, 4, 5, 0, 1}, {4, 3, 1, 2, 0, 5}}, mk, day(10), day(40))
	// transactions only (no price after the last transaction): the latest transaction arriving first, last, in the middle
	mkTx := func() []model.Directive {
		return []model.Directive{
			&model.Transaction{Date: day(10), Description: "a"},
			&model.Transaction{Date: day(30), Description: "b"},
			&model.Transaction{Date: day(20), Description: "c"},
		}
	}
	run([][]int{{0, 1, 2}, {1, 0, 2}, {1, 2, 0}, {2, 1, 0}, {0, 2, 1}, {2, 0, 1}}, mkTx, day(10), day(30))
}
