package journal

// Witness for a defect of journal.Sort / journal.Print (properties C06 and C05): only the transactions of a
// day are sorted before printing; prices, openings, assertions and closings are printed in the order in which
// Builder.Add received them - which, for directives of one day that sit in two included files, is the order
// in which the loader's goroutines delivered the files. The two arrival orders are replayed by hand.
// Injected with `go test -overlay`; never part of the repository.

import (
	"bytes"
	"fmt"
	"testing"
	"time"

	"github.com/sboehler/knut/lib/model"
	"github.com/sboehler/knut/lib/model/registry"
)

func TestKVWitnessArrivalOrder(t *testing.T) {
	reg := registry.New()
	day := time.Date(2024, 1, 5, 0, 0, 0, 0, time.UTC)
	a := &model.Open{Date: day, Account: reg.Accounts().MustGet("Assets:Bank")}
	b := &model.Open{Date: day, Account: reg.Accounts().MustGet("Assets:Cash")}
	render := func(first, second model.Directive) string {
		j := New()
		j.Add(first)
		j.Add(second)
		var buf bytes.Buffer
		if err := Print(&buf, j.Build()); err != nil {
			t.Fatal(err)
		}
		return buf.String()
	}
	ab, ba := render(a, b), render(b, a)
	if ab != ba {
		fmt.Printf("REPLAY-CONFIRMED @allkinds: two openings of one day are printed in arrival order:\n%s---\n%s", ab, ba)
	}
}
