package flags

// Witness for a panic reachable from user input (property C14): a journal whose first transaction is
// dated 0001-01-01 (a date the parser accepts) has the zero time as period start; with no --from flag the
// clipped window starts at the zero time and date.NewPartition panics in every report command.
// Injected with `go test -overlay`; never part of the repository.

import (
	"fmt"
	"testing"
	"time"

	"github.com/sboehler/knut/lib/common/date"
)

func TestKVWitnessZeroDatePartition(t *testing.T) {
	var mp Multiperiod
	mp.period.end = DateFlag(time.Date(2024, 1, 1, 0, 0, 0, 0, time.UTC))
	journalPeriod := date.Period{Start: time.Time{}, End: time.Time{}} // a journal whose only transaction is dated 0001-01-01
	defer func() {
		if r := recover(); r != nil {
			fmt.Printf("REPLAY-CONFIRMED pre: Multiperiod.Partition panicked: %v\n", r)
		}
	}()
	p := mp.Partition(journalPeriod)
	fmt.Printf("partition: %v\n", p)
}
