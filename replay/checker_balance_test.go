package check

// Replay harness (injected with `go test -overlay`; never part of the repository).
// Builds a real Checker from the values of the solver model, calls the real (*Checker).balance and
// evaluates the postconditions of the contract (taken from property C04) on the real result.

import (
	"encoding/json"
	"fmt"
	"os"
	"testing"

	"github.com/sboehler/knut/lib/amounts"
	"github.com/sboehler/knut/lib/common/set"
	"github.com/sboehler/knut/lib/model"
	"github.com/sboehler/knut/lib/model/registry"
	"github.com/shopspring/decimal"
)

func TestKVReplayBalance(t *testing.T) {
	var v map[string]string
	if err := json.Unmarshal([]byte(os.Getenv("KV_REPLAY")), &v); err != nil {
		t.Skip("no replay values")
	}
	reg := registry.New()
	names := map[string]string{"0": "Assets:A", "1": "Liabilities:A", "2": "Equity:A", "3": "Income:A", "4": "Expenses:A"}
	name, ok := names[v["accountType"]]
	if !ok {
		name = "Assets:A"
	}
	acc := reg.Accounts().MustGet(name)
	com := reg.Commodities().MustGet("CHF")
	asserted, err := decimal.NewFromString(v["asserted"])
	if err != nil {
		t.Skipf("asserted quantity %q not a decimal", v["asserted"])
	}
	ch := &Checker{NoCheck: v["noCheck"] == "true"}
	ch.quantities = make(amounts.Amounts)
	ch.accounts = set.New[*model.Account]()
	if v["open"] == "true" {
		ch.accounts.Add(acc)
	}
	running := decimal.Zero
	if v["present"] == "true" {
		q, err := decimal.NewFromString(v["qty"])
		if err != nil {
			t.Skipf("quantity %q not a decimal", v["qty"])
		}
		ch.quantities[amounts.AccountCommodityKey(acc, com)] = q
		running = q
	}
	a := &model.Assertion{}
	bal := &model.Balance{Account: acc, Commodity: com, Quantity: asserted}
	res := ch.balance(a, bal)
	fmt.Printf("input: account=%s open=%v NoCheck=%v position present=%v running=%s asserted=%s -> error=%v\n", name, v["open"], ch.NoCheck, v["present"], running, asserted, res != nil)
	isOpen := v["open"] == "true"
	if res == nil && !isOpen {
		fmt.Println("REPLAY-CONFIRMED @open: accepted although the account is not open")
	}
	if isOpen && acc.IsAL() && !ch.NoCheck && (res == nil) != running.Equal(asserted) {
		fmt.Println("REPLAY-CONFIRMED @al: assertion on an asset/liability account: accepted != (running quantity == asserted quantity)")
	}
	if isOpen && ch.NoCheck && res != nil {
		fmt.Println("REPLAY-CONFIRMED @nocheck: rejected although checking is switched off")
	}
	if isOpen && !acc.IsAL() && res != nil {
		fmt.Println("REPLAY-CONFIRMED @other: assertion on a non asset/liability account of an open account rejected")
	}
}
