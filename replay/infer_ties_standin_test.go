package bayes

// Bounded stand-in for the determinism clause of C15/C06 on the part that is out of the verifier's reach
// (injected with `go test -overlay`; labelled bounded, never counted as proved): scoreCandidate adds float64
// log terms; the contracts treat float64 as real numbers, where a sum does not depend on the order of its
// terms. Here training journals with EXACTLY tied candidates are generated (seeded), and the inferred account
// is compared over repeated runs with fresh models: the same input must give the same choice, and - ties
// being broken by name - the smallest of the tied names.

import (
	"fmt"
	"math/rand"
	"os"
	"strconv"
	"strings"
	"testing"

	"github.com/sboehler/knut/lib/syntax"
	"github.com/sboehler/knut/lib/syntax/parser"
)

func kvsParse(t *testing.T, text string) syntax.File {
	p := parser.New(text, "")
	if err := p.Advance(); err != nil {
		t.Fatal(err)
	}
	f, err := p.ParseFile()
	if err != nil {
		t.Fatal(err, text)
	}
	return f
}

func kvsInfer(t *testing.T, training, target string) string {
	m := NewModel("Expenses:TBD")
	for _, d := range kvsParse(t, training).Directives {
		if trx, ok := d.Directive.(syntax.Transaction); ok {
			m.Update(&trx)
		}
	}
	f := kvsParse(t, target)
	trx := f.Directives[0].Directive.(syntax.Transaction)
	m.Infer(&trx)
	return trx.Bookings[0].Credit.Extract() + " " + trx.Bookings[0].Debit.Extract()
}

func TestKVStandinInferTies(t *testing.T) {
	seed, _ := strconv.ParseInt(os.Getenv("VERIF_SEED"), 10, 64)
	rng := rand.New(rand.NewSource(seed))
	cases, bad := 0, 0
	// a fixed case with an exact tie (two candidates seen equally often with equally many matching tokens)
	fixed := [][2]string{{
		"2022-01-01 \"\"\nExpenses:Rent Assets:Bank 10 CHF\nExpenses:Rent Assets:Cash 5 EUR\nExpenses:Rent Expenses:Food 10 CHF\nExpenses:Food Assets:Bank 10 EUR\nAssets:Broker Expenses:Food 10 CHF\n",
		"2022-01-02 \"\"\nAssets:Bank Expenses:TBD 1 EUR\n",
	}}
	// generated: symmetric histories for k tied expense accounts over several description words
	words := []string{"lunch", "rent", "train", "books", "coffee", "gift"}
	for i := 0; i < 60; i++ {
		k := 2 + rng.Intn(3)
		var b strings.Builder
		nw := 2 + rng.Intn(3)
		for a := 0; a < k; a++ {
			for w := 0; w < nw; w++ {
				// every tied account sees every word once, with a distinct amount so that amounts never match
				fmt.Fprintf(&b, "2022-01-%02d \"%s %s\"\nAssets:Bank Expenses:Acc%d %d CHF\n\n", 1+w, words[w], words[(w+1)%nw], a, 10+a*7+w)
			}
		}
		fixed = append(fixed, [2]string{b.String(), fmt.Sprintf("2022-02-01 \"%s\"\nAssets:Bank Expenses:TBD 999 CHF\n", words[rng.Intn(nw)])})
	}
	for _, c := range fixed {
		cases++
		seen := map[string]int{}
		for run := 0; run < 120; run++ {
			seen[kvsInfer(t, c[0], c[1])]++
		}
		if len(seen) > 1 {
			bad++
			if bad <= 5 {
				fmt.Printf("MISMATCH the same training data and target give different choices on different runs: %v\ntraining:\n%starget:\n%s", seen, c[0], c[1])
			}
		}
	}
	fmt.Printf("infer-ties: %d tied cases x 120 runs, %d with more than one outcome (seed %d)\n", cases, bad, seed)
	if bad > 0 {
		t.Fail()
	}
}
