package revolut2

// Witness for a defect of the revolut2 importer (property C13: "whatever characters occur in free-text
// fields, the output stays syntactically valid"): a double quote inside a text field of the statement goes
// unchanged into the description of the transaction, which the journal printer writes between double
// quotes without escaping - the emitted journal is rejected by knut's own parser.
// Injected with `go test -overlay`; never part of the repository.

import (
	"bytes"
	"fmt"
	"io"
	"os"
	"path/filepath"
	"testing"

	kvparser "github.com/sboehler/knut/lib/syntax/parser"
)

func TestKVWitnessRevolut2Quote(t *testing.T) {
	file := filepath.Join(t.TempDir(), "statement.csv")
	os.WriteFile(file, []byte("Type,Product,Started Date,Completed Date,Description,Amount,Fee,Currency,State,Balance\nCARD_PAYMENT,Current,2022-01-01 10:00:00,2022-01-01 10:00:00,\"Pizzeria \"\"Da Mario\"\"\",-10.00,0.00,CHF,COMPLETED,90.00\n"), 0o644)
	cmd := CreateCmd()
	var journal bytes.Buffer
	cmd.SetOut(&journal)
	cmd.SetErr(io.Discard)
	cmd.SetArgs([]string{"--account", "Assets:Revolut", "--fee", "Expenses:Fees", file})
	if err := cmd.Execute(); err != nil {
		fmt.Println("importer failed:", err)
		return
	}
	p := kvparser.New(journal.String(), "")
	var perr error
	if perr = p.Advance(); perr == nil {
		_, perr = p.ParseFile()
	}
	fmt.Printf("emitted journal:\n%s\nparse error: %v\n", journal.String(), perr)
	if journal.Len() > 0 && perr != nil {
		fmt.Println("REPLAY-CONFIRMED @text: the journal emitted for a statement with a double quote in a text field does not parse")
	}
}
