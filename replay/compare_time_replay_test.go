package compare

// Replay harness (injected with `go test -overlay`; never part of the repository).
// compare.Time must be the chronological order of two dates - for EVERY pair of dates a journal can hold
// (0001-01-01 .. 9999-12-31), not only those inside the range of a 64-bit nanosecond counter.

import (
	"encoding/json"
	"fmt"
	"os"
	"strconv"
	"testing"
	"time"
)

func kvDayT(s string) (time.Time, bool) {
	n, err := strconv.ParseInt(s, 10, 64)
	if err != nil || n < 0 || n > 3652058 {
		return time.Time{}, false
	}
	return time.Date(1, 1, 1, 0, 0, 0, 0, time.UTC).AddDate(0, 0, int(n)), true
}

func TestKVReplayCompareTime(t *testing.T) {
	var v map[string]string
	json.Unmarshal([]byte(os.Getenv("KV_REPLAY")), &v)
	d := func(y, m, dd int) time.Time { return time.Date(y, time.Month(m), dd, 0, 0, 0, 0, time.UTC) }
	type pair struct{ a, b time.Time }
	cases := []pair{
		{d(2024, 1, 1), d(2024, 1, 2)}, {d(2024, 1, 2), d(2024, 1, 1)}, {d(2024, 1, 1), d(2024, 1, 1)},
		{d(1, 1, 1), d(2024, 1, 1)}, {d(1600, 1, 1), d(1700, 1, 1)}, {d(1677, 9, 21), d(1677, 9, 22)},
		{d(2262, 4, 11), d(2262, 4, 12)}, {d(2300, 1, 1), d(2024, 1, 1)}, {d(9999, 12, 31), d(2024, 1, 1)}, {d(1, 1, 1), d(9999, 12, 31)},
	}
	if v != nil {
		a, ok1 := kvDayT(v["t1"])
		b, ok2 := kvDayT(v["t2"])
		if ok1 && ok2 {
			cases = append([]pair{{a, b}}, cases...)
		}
	}
	for _, c := range cases {
		want := 0
		if c.a.Before(c.b) {
			want = -1
		} else if c.a.After(c.b) {
			want = 1
		}
		got := Time(c.a, c.b)
		fmt.Printf("input: Time(%s, %s) = %d, chronological order %d\n", c.a.Format("2006-01-02"), c.b.Format("2006-01-02"), got, want)
		if got != want {
			fmt.Println("REPLAY-CONFIRMED @chrono: compare.Time disagrees with the chronological order of the two dates")
		}
	}
}
