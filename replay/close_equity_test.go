package journal

// Witness for a defect of journal.CloseAccounts (property C02: "with period closing, income and expense rows
// restart at each period start and their previous total is carried by the equity account"): every account
// that is neither an asset/liability account nor exactly Equity:Equity is closed - so an equity account such
// as Equity:OpeningBalances is emptied at each period start too and its balance moved to Equity:Equity; its
// row in the balance report no longer shows the sum of its bookings. Injected with `go test -overlay`; never
// part of the repository.

import (
	"fmt"
	"testing"
	"time"

	"github.com/shopspring/decimal"

	"github.com/sboehler/knut/lib/common/date"
	"github.com/sboehler/knut/lib/model/posting"
	"github.com/sboehler/knut/lib/model/registry"
)

func TestKVWitnessCloseEquity(t *testing.T) {
	reg := registry.New()
	day := func(m, d int) time.Time { return time.Date(2024, time.Month(m), d, 0, 0, 0, 0, time.UTC) }
	part := date.NewPartition(date.Period{Start: day(1, 1), End: day(3, 31)}, date.Monthly, 0)
	j := New()
	proc := CloseAccounts(j, reg, true, part)
	ps := posting.Builder{
		Credit:    reg.Accounts().MustGet("Equity:OpeningBalances"),
		Debit:     reg.Accounts().MustGet("Assets:Bank"),
		Commodity: reg.Commodities().MustGet("CHF"),
		Quantity:  decimal.RequireFromString("1000"),
	}.Build()
	for _, p := range ps {
		if err := proc.Posting(nil, p); err != nil {
			t.Fatal(err)
		}
	}
	feb := j.Day(day(2, 1))
	if err := proc.DayStart(feb); err != nil {
		t.Fatal(err)
	}
	for _, trx := range feb.Transactions {
		for _, p := range trx.Postings {
			if p.Account.Name() == "Equity:OpeningBalances" {
				fmt.Printf("REPLAY-CONFIRMED @skip: at the start of February a closing transaction %q books %s CHF on Equity:OpeningBalances - an equity account, not an income or expense account\n", trx.Description, p.Quantity)
				return
			}
		}
	}
	fmt.Println("no closing transaction for the equity account")
}
