package price

// Witness for the known finding on property C12 (direct price not honoured by the depth-first
// normalisation). Injected with `go test -overlay`; never part of the repository.

import (
	"fmt"
	"testing"

	"github.com/sboehler/knut/lib/model/commodity"
	"github.com/shopspring/decimal"
)

func TestKVWitnessDirectPrice(t *testing.T) {
	reg := commodity.NewCommodities()
	chf, a, b := reg.MustGet("CHF"), reg.MustGet("AAA"), reg.MustGet("BBB")
	ps := make(Prices)
	d := decimal.RequireFromString
	// declared directly in CHF: AAA = 2 CHF, BBB = 3 CHF; and AAA = 1 BBB
	ps.Insert(a, d("2"), chf)
	ps.Insert(b, d("3"), chf)
	ps.Insert(a, d("1"), b)
	np := ps.Normalize(chf)
	fmt.Printf("normalized: AAA=%s BBB=%s (declared directly: AAA=2 CHF, BBB=3 CHF)\n", np[a], np[b])
	if !np[a].Equal(d("2")) || !np[b].Equal(d("3")) {
		fmt.Println("REPLAY-CONFIRMED @direct: a commodity whose price in the valuation commodity is declared directly is priced through a chain instead")
	}
}
