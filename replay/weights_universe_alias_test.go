package weights

// Witness for the aliasing defect in weights.Query.Execute (property C20): the classification path that
// Universe.Locate returns is the slice stored in the universe; `append(ss[:level], ss[len(ss)-suffix:]...)`
// overwrites it in place, so from the second reporting date on the same commodity is filed under a
// different row. Injected with `go test -overlay`; never part of the repository.

import (
	"fmt"
	"strings"
	"testing"
	"time"

	"github.com/sboehler/knut/lib/common/date"
	"github.com/sboehler/knut/lib/journal"
	"github.com/sboehler/knut/lib/journal/performance"
	"github.com/sboehler/knut/lib/model/account"
	"github.com/sboehler/knut/lib/model/registry"
)

func TestKVWitnessUniverseAlias(t *testing.T) {
	reg := registry.New()
	aapl, _ := reg.Commodities().Get("AAPL")
	uni := performance.Universe{aapl: []string{"Equity", "US", "Tech", "AAPL"}}
	before := strings.Join(uni.Locate(aapl), ":")
	d1 := time.Date(2024, 1, 31, 0, 0, 0, 0, time.UTC)
	d2 := time.Date(2024, 2, 29, 0, 0, 0, 0, time.UTC)
	part := date.NewPartition(date.Period{Start: time.Date(2024, 1, 1, 0, 0, 0, 0, time.UTC), End: d2}, date.Monthly, 0)
	j := journal.New()
	rep := NewReport()
	q := Query{Partition: part, Universe: uni, Mapping: account.Mapping{{Level: 1, Suffix: 2}}}
	proc := q.Execute(j, rep)
	for _, dt := range []time.Time{d1, d2} {
		day := j.Day(dt)
		day.Performance = &journal.Performance{V1: map[*registry.Commodity]float64{aapl: 100}}
		if err := proc.DayEnd(day); err != nil {
			t.Fatal(err)
		}
	}
	after := strings.Join(uni.Locate(aapl), ":")
	fmt.Printf("classification of AAPL before: %s, after two reporting dates: %s\n", before, after)
	if before != after {
		fmt.Println("REPLAY-CONFIRMED frame: the day-end callback overwrote the universe's classification path")
	}
}
