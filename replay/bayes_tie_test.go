package bayes

// Witnesses for two defects of bayes.Model.inferAccount (property C15, also C06):
//  (tie)   candidates of equal score are chosen by map iteration order, so the same input gives
//          different journals on different runs;
//  (empty) when the model offers no candidate the placeholder is overwritten by an empty account
//          instead of leaving the booking unchanged.
// Injected with `go test -overlay`; never part of the repository.

import (
	"fmt"
	"testing"

	"github.com/sboehler/knut/lib/syntax"
	"github.com/sboehler/knut/lib/syntax/parser"
)

func kvParse(t *testing.T, text string) syntax.File {
	p := parser.New(text, "")
	if err := p.Advance(); err != nil {
		t.Fatal(err)
	}
	f, err := p.ParseFile()
	if err != nil {
		t.Fatal(err)
	}
	return f
}

func kvTrain(t *testing.T, m *Model, text string) {
	f := kvParse(t, text)
	for _, d := range f.Directives {
		if trx, ok := d.Directive.(syntax.Transaction); ok {
			m.Update(&trx)
		}
	}
}

func TestKVWitnessInferTie(t *testing.T) {
	training := "2024-01-01 \"Lunch\"\nAssets:Bank Expenses:Food 10 CHF\n\n2024-01-02 \"Lunch\"\nAssets:Bank Expenses:Dining 10 CHF\n"
	target := "2024-02-01 \"Lunch\"\nAssets:Bank Expenses:TBD 10 CHF\n"
	seen := map[string]int{}
	for run := 0; run < 200; run++ {
		m := NewModel("Expenses:TBD")
		kvTrain(t, m, training)
		f := kvParse(t, target)
		trx := f.Directives[0].Directive.(syntax.Transaction)
		m.Infer(&trx)
		seen[trx.Bookings[0].Debit.Extract()]++
	}
	fmt.Printf("distinct inferred accounts over 200 identical runs: %v\n", seen)
	if len(seen) > 1 {
		fmt.Println("REPLAY-CONFIRMED tie: the inferred account depends on map iteration order")
	}
}

func TestKVWitnessInferNoCandidate(t *testing.T) {
	m := NewModel("Expenses:TBD")
	// the only trained account besides the placeholder's partner is the partner itself
	kvTrain(t, m, "2024-01-01 \"Transfer\"\nAssets:Bank Assets:Bank 10 CHF\n")
	f := kvParse(t, "2024-02-01 \"Lunch\"\nAssets:Bank Expenses:TBD 10 CHF\n")
	trx := f.Directives[0].Directive.(syntax.Transaction)
	m.Infer(&trx)
	got := trx.Bookings[0].Debit.Extract()
	fmt.Printf("placeholder without candidate became %q\n", got)
	if got != "Expenses:TBD" {
		fmt.Println("REPLAY-CONFIRMED nocand: the booking was not left unchanged")
	}
}
