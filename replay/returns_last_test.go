package portfolio

// Witness for a defect of `knut portfolio returns --last n` (property C20): Partition.Contains answers for
// the whole window, so the days before the first REPORTED period were chained into that period's return:
// with a price rising 10% a month and no flows, `--months --last 1` reported 33.1% for March instead of
// end value over start value minus one = 10.0%. Injected with `go test -overlay`; never part of the repository.

import (
	"bytes"
	"context"
	"fmt"
	"io"
	"os"
	"path/filepath"
	"strings"
	"testing"
)

func TestKVWitnessReturnsLast(t *testing.T) {
	dir := t.TempDir()
	file := filepath.Join(dir, "j.knut")
	os.WriteFile(file, []byte("2020-01-01 open Assets:Portfolio\n\n2020-01-01 open Equity:Opening\n\n2020-01-01 price AAA 100 CHF\n\n2020-01-01 \"buy\"\nEquity:Opening Assets:Portfolio 10 AAA\n\n2020-01-31 price AAA 110 CHF\n\n2020-02-29 price AAA 121 CHF\n\n2020-03-31 price AAA 133.1 CHF\n"), 0o644)
	cmd := CreateReturnsCommand()
	cmd.SetContext(context.Background())
	cmd.SetArgs([]string{"--val", "CHF", "--months", "--to", "2020-03-31", "--last", "1", file})
	old := os.Stdout
	rd, wr, _ := os.Pipe()
	os.Stdout = wr
	err := cmd.Execute()
	wr.Close()
	os.Stdout = old
	var buf bytes.Buffer
	io.Copy(&buf, rd)
	fmt.Printf("returns --months --last 1 (err=%v): %s", err, buf.String())
	if !strings.Contains(buf.String(), " 10.0%") {
		fmt.Println("REPLAY-CONFIRMED @outside: the return of the last month (price 121 -> 133.1, no flows) is not 10.0%")
	}
}
