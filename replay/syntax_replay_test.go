package syntax

// Replay harness for the parser / formatter (properties C07, C08, C18; injected with `go test -overlay`,
// never part of the repository). A fixed corpus of journal texts - valid ones with comments, headings,
// blank lines, annotations, odd spacing, non-ASCII text, and invalid ones (truncated, stray characters,
// invalid UTF-8, a byte order mark, lone slashes) - is written to temporary files. For each the statement
// of the properties is checked on the real code: ParseFile never panics; on success the text kept in the
// tree is exactly the file's bytes, the directives are ordered, disjoint and inside the text, and the gaps
// between them together with the directives reassemble the text; on failure the error renders without
// panic and its innermost range lies inside the text; formatting a parsed file succeeds, keeps every byte
// outside the directives, parses again to the same number and kinds of directives, and is idempotent.

import (
	"bytes"
	"errors"
	"fmt"
	"os"
	"path/filepath"
	"reflect"
	"testing"
)

var kvParsed int

var kvCorpus = []string{
	"",
	"\n\n",
	"# only a comment\n",
	"* heading\n\n// c-style comment\n",
	"2023-01-01 open Assets:Bank\n",
	"2023-01-01 open Assets:Bank\n\n2023-01-01 open Expenses:Food\n\n2023-01-02 \"Lunch\"\nAssets:Bank Expenses:Food 12.50 CHF\n",
	"# 1.5% interest, 100%s\n2023-01-02 \"50% off\"\nAssets:Bank   Expenses:Food      12.50    CHF\n\n# trailing %d comment without newline",
	"2023-01-02 \"Zürich – Café\"\nAssets:Bank Expenses:Food 1 CHF\nAssets:Bank Expenses:Tips 2 CHF\n",
	"@performance(AAPL,MSFT)\n2023-01-02 \"buy\"\nAssets:Bank Assets:Portfolio 10 AAPL\n",
	"@performance()\n2023-01-02 \"fee\"\nAssets:Portfolio Expenses:Fees 10 CHF\n",
	"@accrue monthly 2023-01-01 2023-12-31 Assets:Accrual\n2023-01-02 \"rent\"\nAssets:Bank Expenses:Rent 1200 CHF\n",
	"@performance(AAPL)\n@accrue monthly 2023-01-01 2023-03-31 Assets:Accrual\n2023-01-02 \"fee\"\nAssets:Portfolio Expenses:Fees 30 CHF\n",
	"2023-01-01 price AAPL 130.5 USD\n2023-01-01 balance Assets:Bank 100 CHF\n2023-01-01 close Assets:Bank\n",
	"2023-01-01 balance\nAssets:Bank 100 CHF\nAssets:Cash 5 CHF\n",
	"include \"other file.knut\"\n",
	"2023-01-02 \"Lunch\"\nAssets:Bank Expenses:Food 12.50 CHF",
	"2023-01-02 \"Lunch\nAssets:Bank Expenses:Food 12.50 CHF\n",
	"2023-01-02 \"Lunch\"\nAssets:Bank Expenses:Food\n",
	"2023-01-0",
	"2023-13-45 open Assets:Bank\n",
	"/",
	"2023-01-01 open Assets:Bank\n/",
	"//",
	"\xef\xbb\xbf2023-01-01 open Assets:Bank\n",
	"2023-01-01 open Assets:B\xe4nk\n",
	"# caf\xe9\n2023-01-01 open Assets:Bank\n",
	"2023-01-01 open Assets:Bank\r\n2023-01-02 open Assets:Cash\r\n",
	"\t2023-01-01 open Assets:Bank\n",
	"2023-01-01 open Assets:Bank junk\n",
	"@accrue\n",
	"@performance(USD) x\n2023-04-03 \"foo\"\nAssets:A Assets:B 1 CHF\n",
	"@accrue daily 2023-01-01 2023-12-31 Assets:A,\n2023-04-03 \"foo\"\nAssets:A Assets:B 1 CHF\n",
	"2023-01-01 open Assets:Bank\n\xc3",
	"\xe2\x82",
	"# truncated \xf0\x9f",
	"\x002023-01-01 open Assets:Bank\n",
	"@performance(\n",
}

func kvKinds(f File) []string {
	var res []string
	for _, d := range f.Directives {
		res = append(res, reflect.TypeOf(d.Directive).String())
	}
	return res
}

func TestKVReplaySyntax(t *testing.T) {
	dir := t.TempDir()
	for i, text := range kvCorpus {
		func() {
			defer func() {
				if r := recover(); r != nil {
					fmt.Printf("REPLAY-CONFIRMED panic on input %d %q: %v\n", i, text, r)
				}
			}()
			path := filepath.Join(dir, fmt.Sprintf("f%d.knut", i))
			os.WriteFile(path, []byte(text), 0o644)
			f, err := ParseFile(path)
			if err != nil {
				_ = err.Error() // rendering must not panic
				var se Error
				for e := err; e != nil; {
					x, ok := e.(Error)
					if !ok {
						e = errors.Unwrap(e)
						continue
					}
					e = x.Wrapped
					{
						se = x
						if x.Range.Text != text || x.Range.Start < 0 || x.Range.End > len(text) {
							fmt.Printf("REPLAY-CONFIRMED @cause: input %d %q: an error of the chain (%q) does not point into the input: range [%d,%d) of text %q\n", i, text, x.Message, x.Range.Start, x.Range.End, x.Range.Text)
							break
						}
					}
				}
				if se.Range.Text != "" && (se.Range.Text != text || se.Range.Start < 0 || se.Range.End > len(text)) {
					fmt.Printf("REPLAY-CONFIRMED @verbatim: input %d %q: the error refers to a text other than the file (%q) or a range outside it\n", i, text, se.Range.Text)
				}
				return
			}
			kvParsed++
			if f.Text != text {
				fmt.Printf("REPLAY-CONFIRMED @verbatim/@text: input %d %q: the tree keeps the text %q\n", i, text, f.Text)
				return
			}
			pos := 0
			var re bytes.Buffer
			for k, d := range f.Directives {
				if d.Start < pos || d.End < d.Start || d.End > len(text) || d.Text != text {
					fmt.Printf("REPLAY-CONFIRMED cover: input %d %q: directive %d has range [%d,%d) after position %d\n", i, text, k, d.Start, d.End, pos)
					return
				}
				re.WriteString(text[pos:d.Start])
				re.WriteString(text[d.Start:d.End])
				pos = d.End
			}
			re.WriteString(text[pos:])
			if re.String() != text {
				fmt.Printf("REPLAY-CONFIRMED cover: input %d %q: gaps and directives do not reassemble the text\n", i, text)
			}
			var out bytes.Buffer
			if err := FormatFile(&out, f); err != nil {
				fmt.Printf("REPLAY-CONFIRMED @always: input %d %q: formatting a parsed file fails: %v\n", i, text, err)
				return
			}
			if len(f.Directives) == 0 && out.String() != text {
				fmt.Printf("REPLAY-CONFIRMED @always/gaps: input %d %q: a file without directives is formatted to %q\n", i, text, out.String())
				return
			}
			// the text between the directives survives byte for byte, in order
			rest := out.String()
			pos = 0
			for _, d := range f.Directives {
				gap := text[pos:d.Start]
				if len(rest) < len(gap) || rest[:len(gap)] != gap {
					fmt.Printf("REPLAY-CONFIRMED gaps: input %d %q: the text %q between directives is not copied verbatim (output %q)\n", i, text, gap, out.String())
					return
				}
				rest = rest[len(gap):]
				// skip the printed directive: up to the next gap (or the tail)
				pos = d.End
				next := text[pos:]
				if k := nextGapIndex(f, d.End); k >= 0 {
					next = text[pos:k]
				}
				idx := bytes.Index([]byte(rest), []byte(next))
				if next != "" && idx < 0 {
					fmt.Printf("REPLAY-CONFIRMED gaps: input %d %q: the text %q after a directive is missing from the output %q\n", i, text, next, out.String())
					return
				}
				if next != "" {
					rest = rest[idx:]
				}
			}
			path2 := filepath.Join(dir, fmt.Sprintf("g%d.knut", i))
			os.WriteFile(path2, out.Bytes(), 0o644)
			g, err := ParseFile(path2)
			if err != nil {
				fmt.Printf("REPLAY-CONFIRMED @format/@header: input %d %q: the formatted text %q does not parse: %v\n", i, text, out.String(), err)
				return
			}
			if !reflect.DeepEqual(kvKinds(f), kvKinds(g)) {
				fmt.Printf("REPLAY-CONFIRMED @format/@addons: input %d %q: formatted text has directives %v, the input %v\n", i, text, kvKinds(g), kvKinds(f))
			}
			for k := range f.Directives {
				if k < len(g.Directives) {
					if a, b := f.Directives[k].Directive, g.Directives[k].Directive; reflect.TypeOf(a) == reflect.TypeOf(b) {
						if ta, ok := a.(Transaction); ok {
							tb := b.(Transaction)
							if ta.Addons.Performance.Empty() != tb.Addons.Performance.Empty() || ta.Addons.Accrual.Empty() != tb.Addons.Accrual.Empty() || len(ta.Bookings) != len(tb.Bookings) ||
								ta.Description.Content.Extract() != tb.Description.Content.Extract() || ta.Date.Extract() != tb.Date.Extract() {
								fmt.Printf("REPLAY-CONFIRMED @addons/@header/@bookings: input %d %q: transaction %d changed by formatting (output %q)\n", i, text, k, out.String())
							}
						}
					}
				}
			}
			var out2 bytes.Buffer
			if err := FormatFile(&out2, g); err != nil || out2.String() != out.String() {
				fmt.Printf("REPLAY-CONFIRMED idempotence: input %d %q: formatting twice gives %q then %q (err %v)\n", i, text, out.String(), out2.String(), err)
			}
		}()
	}
	fmt.Println("checked", len(kvCorpus), "texts,", kvParsed, "of them parse")
}

// nextGapIndex: start of the next directive after position p, or -1.
func nextGapIndex(f File, p int) int {
	for _, d := range f.Directives {
		if d.Start >= p {
			return d.Start
		}
	}
	return -1
}
