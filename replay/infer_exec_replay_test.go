package commands

// Replay harness for `knut infer` and `knut format` (properties C15 and C18; injected with `go test
// -overlay`, never part of the repository). Fixed scenarios on temporary files, checked against the
// statement of the properties on the real code: a target that does not parse (or a missing training file)
// is an error and leaves the target bit-identical, also with --inplace; for a valid target the standard
// output parses, has the same directives as the formatted input, differs from it only in placeholder
// accounts; with --inplace the file afterwards holds exactly what the run without --inplace prints, and
// standard output stays empty; format leaves an unparseable file untouched and is idempotent.

import (
	"bytes"
	"context"
	"fmt"
	"os"
	"path/filepath"
	"strings"
	"testing"

	"github.com/spf13/cobra"

	"github.com/sboehler/knut/lib/syntax"
)

func kvCmd(out *bytes.Buffer) *cobra.Command {
	c := &cobra.Command{}
	c.SetOut(out)
	c.SetContext(context.Background())
	return c
}

func TestKVReplayInferFormat(t *testing.T) {
	dir := t.TempDir()
	write := func(name, text string) string {
		p := filepath.Join(dir, name)
		os.WriteFile(p, []byte(text), 0o644)
		return p
	}
	training := write("train.knut", "2023-01-01 \"Lunch at Mario\"\nAssets:Bank Expenses:Food 12 CHF\n\n2023-01-02 \"Rent January\"\nAssets:Bank Expenses:Rent 1000 CHF\n\n2023-01-03 \"Lunch at Luigi\"\nAssets:Bank Expenses:Food 15 CHF\n")
	targets := map[string]string{
		"valid":    "# my journal, 100% mine\n2023-02-01 \"Lunch at Mario\"\nAssets:Bank       Expenses:TBD 13 CHF\n\n2023-02-02 \"Rent February\"\nExpenses:TBD Assets:Bank -1000 CHF\n\n2023-02-03 \"Gift\"\nAssets:Bank Expenses:Gifts 5 CHF\n",
		"wide":     "2023-02-01 \"Lunch at Mario\"\nAssets:Bank                                        Expenses:TBD                              13                    CHF\n\n\n\n",
		"both":     "2023-02-01 \"Lunch\"\nExpenses:TBD Expenses:TBD 13 CHF\n",
		"none":     "2023-02-03 \"Gift\"\nAssets:Bank Expenses:Gifts 5 CHF\n",
		"broken":   "2023-02-01 \"Lunch at Mario\"\nAssets:Bank Expenses:TBD 13 CHF\n\n2023-02-02 \"Rent\nAssets:Bank",
		"stray":    "2023-02-01 \"Lunch\"\nAssets:Bank Expenses:TBD 13 CHF\n\nhello world\n",
		"badutf8":  "# caf\xe9\n2023-02-01 \"Lunch\"\nAssets:Bank Expenses:TBD 13 CHF\n",
		"comments": "# nothing but comments\n\n* heading\n",
	}
	defer func() {
		if r := recover(); r != nil {
			fmt.Printf("REPLAY-CONFIRMED panic: %v\n", r)
		}
	}()
	for name, text := range targets {
		target := write(name+".knut", text)
		_, perr := syntax.ParseFile(target)
		// stdout mode
		var out bytes.Buffer
		err := (&inferRunner{account: "Expenses:TBD", trainingFile: training}).execute(kvCmd(&out), []string{target})
		if now, _ := os.ReadFile(target); string(now) != text {
			fmt.Printf("REPLAY-CONFIRMED @stdout: %s: the target was modified by a run without --inplace\n", name)
		}
		if perr != nil {
			if err == nil {
				fmt.Printf("REPLAY-CONFIRMED @parsefail: %s: the target does not parse but infer reports success (output %q)\n", name, out.String())
			}
		} else if err != nil {
			fmt.Printf("REPLAY-CONFIRMED @render: %s: infer fails on a valid target: %v\n", name, err)
		} else {
			// compare with the formatted input, token-wise
			f, _ := syntax.ParseFile(target)
			var formatted bytes.Buffer
			syntax.FormatFile(&formatted, f)
			res := write(name+".out", out.String())
			if _, e := syntax.ParseFile(res); e != nil {
				fmt.Printf("REPLAY-CONFIRMED @render: %s: the inferred journal does not parse: %v\n%s\n", name, e, out.String())
			}
			a, b := strings.Fields(formatted.String()), strings.Fields(out.String())
			if len(a) != len(b) {
				fmt.Printf("REPLAY-CONFIRMED @only: %s: inferred journal has %d tokens, the formatted input %d\n", name, len(b), len(a))
			} else {
				for i := range a {
					if a[i] != b[i] && a[i] != "Expenses:TBD" {
						fmt.Printf("REPLAY-CONFIRMED @only: %s: token %d changed from %q to %q\n", name, i, a[i], b[i])
					}
				}
			}
		}
		// --inplace
		var out2 bytes.Buffer
		err2 := (&inferRunner{account: "Expenses:TBD", trainingFile: training, inplace: true}).execute(kvCmd(&out2), []string{target})
		now, _ := os.ReadFile(target)
		if out2.Len() != 0 {
			fmt.Printf("REPLAY-CONFIRMED @inplace: %s: --inplace writes %q to standard output\n", name, out2.String())
		}
		if perr != nil || err2 != nil {
			if string(now) != text {
				fmt.Printf("REPLAY-CONFIRMED @parsefail/@inplace: %s: a failing run (parse error: %v, run error: %v) changed the target to %q\n", name, perr, err2, string(now))
			}
			if perr != nil && err2 == nil {
				fmt.Printf("REPLAY-CONFIRMED @parsefail: %s: the target does not parse but infer --inplace reports success\n", name)
			}
		} else if err == nil && string(now) != out.String() {
			fmt.Printf("REPLAY-CONFIRMED @inplace: %s: the file after --inplace differs from what the run without --inplace prints\n", name)
		}
		// a missing training file never touches the target
		os.WriteFile(target, []byte(text), 0o644)
		var out3 bytes.Buffer
		if err := (&inferRunner{account: "Expenses:TBD", trainingFile: filepath.Join(dir, "missing.knut"), inplace: true}).execute(kvCmd(&out3), []string{target}); err == nil {
			fmt.Printf("REPLAY-CONFIRMED @trainfail: %s: a missing training file is not an error\n", name)
		}
		if now, _ := os.ReadFile(target); string(now) != text {
			fmt.Printf("REPLAY-CONFIRMED @trainfail: %s: the target changed although training failed\n", name)
		}
		// format
		ferr := formatRunner{}.formatFile(&target)
		after, _ := os.ReadFile(target)
		if perr != nil {
			if string(after) != text {
				fmt.Printf("REPLAY-CONFIRMED @noparse: %s: format rewrote a file that does not parse\n", name)
			}
			if ferr == nil {
				fmt.Printf("REPLAY-CONFIRMED @noparse: %s: format reports success on a file that does not parse\n", name)
			}
		} else if ferr == nil {
			if err := (formatRunner{}).formatFile(&target); err != nil {
				fmt.Printf("REPLAY-CONFIRMED @always: %s: formatting the formatted file fails: %v\n", name, err)
			}
			again, _ := os.ReadFile(target)
			if string(again) != string(after) {
				fmt.Printf("REPLAY-CONFIRMED idempotence: %s: formatting twice changes the file again\n", name)
			}
		}
	}
	fmt.Println("checked", len(targets), "targets")
}
