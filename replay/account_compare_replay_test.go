package account

// Replay harness (injected with `go test -overlay`; never part of the repository).
// account.Compare must be a total order on accounts: antisymmetric, and Equal only for the same account
// (same type and name) - also for an account and its own sub-account, accounts differing only in a later
// segment, and accounts of different types.

import (
	"fmt"
	"testing"
)

func TestKVReplayAccountCompare(t *testing.T) {
	reg := NewRegistry()
	names := []string{"Assets:Bank", "Assets:Bank:Savings", "Assets:Bank:Checking", "Assets:Cash", "Liabilities:Bank", "Expenses:Bank", "Assets:B", "Assets:Bank:Savings:Joint"}
	var accs []*Account
	for _, n := range names {
		accs = append(accs, reg.MustGet(n))
	}
	func() {
		defer func() {
			if r := recover(); r != nil {
				fmt.Printf("REPLAY-CONFIRMED panic: %v\n", r)
			}
		}()
		for _, a := range accs {
			for _, b := range accs {
				ab, ba := Compare(a, b), Compare(b, a)
				if ab != -ba {
					fmt.Printf("REPLAY-CONFIRMED @lex: Compare(%s,%s)=%d but Compare(%s,%s)=%d (not antisymmetric)\n", a.Name(), b.Name(), ab, b.Name(), a.Name(), ba)
				}
				if (ab == 0) != (a == b) {
					fmt.Printf("REPLAY-CONFIRMED @lex: Compare(%s,%s)=%d: ties only between the same account\n", a.Name(), b.Name(), ab)
				}
				for _, c := range accs {
					if ab <= 0 && Compare(b, c) <= 0 && Compare(a, c) > 0 {
						fmt.Printf("REPLAY-CONFIRMED @lex: not transitive on %s, %s, %s\n", a.Name(), b.Name(), c.Name())
					}
				}
			}
		}
	}()
	fmt.Println("compared", len(accs)*len(accs), "pairs")
}
