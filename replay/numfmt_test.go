package table

// Bounded stand-in for the numeric formatting clause of C17 (injected with `go test -overlay`; labelled
// bounded, never counted as proved): TextRenderer.numToString is compared with an independent
// formatter built on math/big: value (divided by 1000 with Thousands) rounded half away from zero to
// Round digits, thousands separators every three integer digits, minus sign for negative values.
// Three families: exhaustive small values, seeded samples, and values a hair away from a rounding boundary.

import (
	"fmt"
	"math/big"
	"math/rand"
	"os"
	"strconv"
	"strings"
	"testing"

	"github.com/shopspring/decimal"
)

func refFormat(s string, thousands bool, round int) string {
	r, _ := new(big.Rat).SetString(s)
	if thousands {
		r.Quo(r, big.NewRat(1000, 1))
	}
	neg := r.Sign() < 0
	if neg {
		r.Neg(r)
	}
	scale := new(big.Int).Exp(big.NewInt(10), big.NewInt(int64(round)), nil)
	x := new(big.Rat).Mul(r, new(big.Rat).SetInt(scale))
	// round half away from zero (x >= 0 here): floor(x + 1/2)
	x.Add(x, big.NewRat(1, 2))
	n := new(big.Int).Quo(x.Num(), x.Denom())
	digits := n.String()
	for len(digits) <= round {
		digits = "0" + digits
	}
	ip, fp := digits[:len(digits)-round], digits[len(digits)-round:]
	var b strings.Builder
	for i, c := range ip {
		if i > 0 && (len(ip)-i)%3 == 0 {
			b.WriteByte(',')
		}
		b.WriteRune(c)
	}
	out := b.String()
	if round > 0 {
		out += "." + fp
	}
	if neg && n.Sign() != 0 {
		out = "-" + out // a negative value that rounds to zero carries no sign
	}
	return out
}

func TestKVStandinNumfmt(t *testing.T) {
	seed, _ := strconv.ParseInt(os.Getenv("VERIF_SEED"), 10, 64)
	rng := rand.New(rand.NewSource(seed))
	n, bad := 0, 0
	check := func(s string, thousands bool, round int) {
		d, err := decimal.NewFromString(s)
		if err != nil {
			return
		}
		r := &TextRenderer{Thousands: thousands, Round: int32(round)}
		got := r.numToString(d)
		want := refFormat(s, thousands, round)
		n++
		if got != want {
			bad++
			if bad <= 10 {
				fmt.Printf("MISMATCH numToString(%s, thousands=%v, round=%d) = %q, reference %q\n", s, thousands, round, got, want)
			}
		}
	}
	// exhaustive: every value with up to 5 significant digits and 0..3 decimals, both signs
	for v := 0; v < 100000; v++ {
		for dec := 0; dec <= 3; dec++ {
			s := strconv.Itoa(v)
			for len(s) <= dec {
				s = "0" + s
			}
			if dec > 0 {
				s = s[:len(s)-dec] + "." + s[len(s)-dec:]
			}
			for _, sign := range []string{"", "-"} {
				if v == 0 && sign == "-" {
					continue
				}
				for _, th := range []bool{false, true} {
					for _, rd := range []int{0, 2} {
						check(sign+s, th, rd)
					}
				}
			}
		}
	}
	// sampled: up to 12 integer digits, up to 6 decimals, rounding 0..4
	for i := 0; i < 200000; i++ {
		ip := rng.Int63n(1_000_000_000_000)
		fd := rng.Intn(7)
		s := strconv.FormatInt(ip, 10)
		if fd > 0 {
			f := strconv.FormatInt(rng.Int63n(1_000_000), 10)
			for len(f) < 6 {
				f = "0" + f
			}
			s += "." + f[:fd]
		}
		if rng.Intn(2) == 0 && ip != 0 {
			s = "-" + s
		}
		check(s, rng.Intn(2) == 0, rng.Intn(5))
	}
	// boundary: amounts a hair (1e-14 .. 1e-20) below and above a rounding boundary, up to 22 decimals
	for rd := 0; rd <= 5; rd++ {
		for _, th := range []bool{false, true} {
			for m := int64(0); m < 300; m++ {
				b := big.NewRat(2*m+1, 2) // m + 1/2 units of the last displayed digit
				b.Quo(b, new(big.Rat).SetInt(new(big.Int).Exp(big.NewInt(10), big.NewInt(int64(rd)), nil)))
				if th {
					b.Mul(b, big.NewRat(1000, 1))
				}
				for _, e := range []int64{14, 17, 20} {
					eps := new(big.Rat).SetFrac(big.NewInt(1), new(big.Int).Exp(big.NewInt(10), big.NewInt(e), nil))
					for _, v := range []*big.Rat{new(big.Rat).Sub(b, eps), new(big.Rat).Add(b, eps), b} {
						str := v.FloatString(22)
						check(str, th, rd)
						check("-"+str, th, rd)
					}
				}
			}
		}
	}
	fmt.Printf("numfmt: %d evaluations, %d mismatches (seed %d)\n", n, bad, seed)
	if bad > 0 {
		t.Fail()
	}
}
