package account

// Witness for the aliasing defect in account.Shorten (properties C02 / C19): the mapper must not modify
// the account it is given. Injected with `go test -overlay`; never part of the repository.

import (
	"fmt"
	"strings"
	"testing"
)

func TestKVWitnessShortenAlias(t *testing.T) {
	reg := NewRegistry()
	a := reg.MustGet("Assets:Bank:Checking:Main")
	before := strings.Join(a.Segments(), ":")
	m := Mapping{{Level: 1, Suffix: 1, Regex: nil}}
	res := Shorten(reg, m)(a)
	after := strings.Join(a.Segments(), ":")
	fmt.Printf("Shorten(level=1, suffix=1)(%s) = %s; segments of the argument afterwards: %s\n", before, res.Name(), after)
	if before != after {
		fmt.Println("REPLAY-CONFIRMED frame: the mapper overwrote the segments of the account it was given")
	}
}
