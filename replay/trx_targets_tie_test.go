package journal

// Witness for a defect of transaction.Compare (properties C06 and C05): two transactions that differ only in
// their @performance targets compare as equal, but the journal printer writes the targets - so the order in
// which two such transactions of one day are printed is the order in which they arrived (which, for two
// included files, depends on the loader's goroutines). Here the two arrival orders are replayed by hand.
// Injected with `go test -overlay`; never part of the repository.

import (
	"bytes"
	"fmt"
	"testing"
	"time"

	"github.com/shopspring/decimal"

	"github.com/sboehler/knut/lib/model"
	"github.com/sboehler/knut/lib/model/posting"
	"github.com/sboehler/knut/lib/model/registry"
	"github.com/sboehler/knut/lib/model/transaction"
)

func TestKVWitnessTargetsTie(t *testing.T) {
	reg := registry.New()
	mk := func(target string) *model.Transaction {
		return transaction.Builder{
			Date:        time.Date(2024, 1, 5, 0, 0, 0, 0, time.UTC),
			Description: "Dividend",
			Postings: posting.Builder{
				Credit:    reg.Accounts().MustGet("Income:Dividends"),
				Debit:     reg.Accounts().MustGet("Assets:Bank"),
				Commodity: reg.Commodities().MustGet("CHF"),
				Quantity:  decimal.RequireFromString("10"),
			}.Build(),
			Targets: []*model.Commodity{reg.Commodities().MustGet(target)},
		}.Build()
	}
	a, b := mk("AAPL"), mk("MSFT")
	fmt.Println("transaction.Compare(a, b) =", transaction.Compare(a, b))
	render := func(first, second *model.Transaction) string {
		j := New()
		j.Add(first)
		j.Add(second)
		var buf bytes.Buffer
		if err := Print(&buf, j.Build()); err != nil {
			t.Fatal(err)
		}
		return buf.String()
	}
	ab, ba := render(a, b), render(b, a)
	if transaction.Compare(a, b) == 0 && ab != ba {
		fmt.Printf("REPLAY-CONFIRMED @printsalike: the two transactions tie but the printed journal depends on their arrival order:\n%s---\n%s", ab, ba)
	}
}
