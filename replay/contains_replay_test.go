package date

// Replay harness (injected with `go test -overlay`; never part of the repository).
// Partition.Contains must say whether a date lies in the WINDOW of the partition (its span), whatever
// periods are displayed (with --last the displayed periods cover only the end of the window).

import (
	"encoding/json"
	"fmt"
	"os"
	"strconv"
	"testing"
	"time"
)

func kvDayC(s string) (time.Time, bool) {
	n, err := strconv.ParseInt(s, 10, 64)
	if err != nil || n < -3000000 || n > 3652058 {
		return time.Time{}, false
	}
	return time.Date(1, 1, 1, 0, 0, 0, 0, time.UTC).AddDate(0, 0, int(n)), true
}

func TestKVReplayContains(t *testing.T) {
	var v map[string]string
	if err := json.Unmarshal([]byte(os.Getenv("KV_REPLAY")), &v); err != nil {
		t.Skip("no replay values")
	}
	ss, ok1 := kvDayC(v["spanStart"])
	se, ok2 := kvDayC(v["spanEnd"])
	ps, ok3 := kvDayC(v["pStart"])
	pe, ok4 := kvDayC(v["pEnd"])
	d, ok5 := kvDayC(v["d"])
	if !(ok1 && ok2 && ok3 && ok4 && ok5) {
		t.Skipf("model values outside the representable range: %v", v)
	}
	f := func(t time.Time) string { return t.Format("2006-01-02") }
	day := func(n int) time.Time { return time.Date(2024, 1, 1, 0, 0, 0, 0, time.UTC).AddDate(0, 0, n) }
	type cs struct{ ss, se, ps, pe, d time.Time }
	// the model's values first, then fixed scenarios around a window whose displayed periods cover only its end (--last)
	cases := []cs{{ss, se, ps, pe, d}, {day(0), day(90), day(60), day(90), day(10)}, {day(0), day(90), day(60), day(90), day(59)}, {day(0), day(90), day(60), day(90), day(91)}, {day(0), day(90), day(60), day(90), day(-1)}}
	for _, c := range cases {
		part := Partition{span: Period{Start: c.ss, End: c.se}, periods: []Period{{Start: c.ps, End: c.pe}}}
		got := part.Contains(c.d)
		want := !c.d.Before(c.ss) && !c.d.After(c.se)
		fmt.Printf("input: window %s..%s, displayed period %s..%s, date %s -> Contains=%v, in window=%v\n", f(c.ss), f(c.se), f(c.ps), f(c.pe), f(c.d), got, want)
		if got != want {
			fmt.Println("REPLAY-CONFIRMED post: Contains disagrees with membership in the window")
		}
	}
}
