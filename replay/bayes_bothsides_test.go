package bayes

// Witness for a defect of bayes.Model.Infer (property C15): a booking that carries the placeholder on BOTH
// sides. The credit side is inferred first (other account = the placeholder); the debit side is then
// inferred with the STALE text of the credit side (still the placeholder) as "the other account", so the
// account just chosen for the credit side is a candidate again - and, the tokens being the same, wins
// again: the booking ends up with the same account on both sides, although every replacement must differ
// from the other account of its booking. Injected with `go test -overlay`; never part of the repository.

import (
	"fmt"
	"testing"

	"github.com/sboehler/knut/lib/syntax"
	"github.com/sboehler/knut/lib/syntax/parser"
)

func kvbParse(t *testing.T, text string) syntax.File {
	p := parser.New(text, "")
	if err := p.Advance(); err != nil {
		t.Fatal(err)
	}
	f, err := p.ParseFile()
	if err != nil {
		t.Fatal(err)
	}
	return f
}

func TestKVWitnessInferBothSides(t *testing.T) {
	m := NewModel("Expenses:TBD")
	f := kvbParse(t, "2024-01-01 \"Lunch\"\nAssets:Bank Expenses:Food 10 CHF\n\n2024-01-02 \"Rent\"\nAssets:Bank Expenses:Rent 1000 CHF\n")
	for _, d := range f.Directives {
		if trx, ok := d.Directive.(syntax.Transaction); ok {
			m.Update(&trx)
		}
	}
	g := kvbParse(t, "2024-02-01 \"Lunch\"\nExpenses:TBD Expenses:TBD 10 CHF\n")
	trx := g.Directives[0].Directive.(syntax.Transaction)
	m.Infer(&trx)
	c, d := trx.Bookings[0].Credit.Extract(), trx.Bookings[0].Debit.Extract()
	fmt.Printf("placeholder on both sides -> credit %q, debit %q\n", c, d)
	if c == d && c != "Expenses:TBD" {
		fmt.Println("REPLAY-CONFIRMED @differs: both sides of the booking were replaced by the same account " + c)
	}
}
