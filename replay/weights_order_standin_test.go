package weights_test

// Bounded stand-in for the determinism clause of C06 on the portfolio weights report (injected with
// `go test -overlay`; labelled bounded, never counted as proved). The contracts treat float64 as real numbers,
// where a sum does not depend on the order of its terms; float64 addition is not associative, so a sum formed
// in map iteration order differs in its last bits from run to run - which shows as rows of equal weight
// changing places, a cancelling class printed as "" or "-0%", and different digits with --digits 14.
// Here the report of `knut portfolio weights` is produced repeatedly from the same file (3 fixed journals
// and a seeded family) and must be byte-identical on every run.

import (
	"bytes"
	"context"
	"fmt"
	"math/rand"
	"os"
	"path/filepath"
	"strings"
	"testing"
	"time"

	"github.com/sboehler/knut/lib/common/date"
	"github.com/sboehler/knut/lib/common/predicate"
	"github.com/sboehler/knut/lib/common/table"
	"github.com/sboehler/knut/lib/journal"
	"github.com/sboehler/knut/lib/journal/check"
	"github.com/sboehler/knut/lib/journal/performance"
	"github.com/sboehler/knut/lib/model"
	"github.com/sboehler/knut/lib/model/registry"
	"github.com/sboehler/knut/lib/reports/weights"
)

// kvsWeights does what `knut portfolio weights --val CHF --to <to> [--weeks] [--universe u] [--digits n]
// --color=false <path>` does (cmd/commands/portfolio/weights.go).
func kvsWeights(path, universeYAML string, interval date.Interval, to time.Time, digits int32) (string, error) {
	reg := registry.New()
	var universe performance.Universe
	if universeYAML != "" {
		var err error
		if universe, err = performance.LoadUniverse(reg.Commodities(), strings.NewReader(universeYAML)); err != nil {
			return "", err
		}
	}
	valuation := reg.Commodities().MustGet("CHF")
	j, err := journal.FromPath(context.Background(), reg, path)
	if err != nil {
		return "", err
	}
	partition := date.NewPartition(date.Period{End: to}.Clip(j.Period()), interval, 0)
	calculator := &performance.Calculator{
		Context:         reg,
		Valuation:       valuation,
		AccountFilter:   predicate.ByName[*model.Account](nil),
		CommodityFilter: predicate.ByName[*model.Commodity](nil),
	}
	j.Days(partition.EndDates())
	rep := weights.NewReport()
	err = j.Build().Process(
		journal.ComputePrices(valuation),
		check.Check(),
		journal.Valuate(reg, valuation),
		calculator.ComputeValues(),
		weights.Query{Universe: universe, Partition: partition}.Execute(j, rep),
	)
	if err != nil {
		return "", err
	}
	rn := weights.Renderer{}
	var buf bytes.Buffer
	if err := (&table.TextRenderer{Color: false, Round: digits}).Render(rn.Render(rep), &buf); err != nil {
		return "", err
	}
	return buf.String(), nil
}

func kvsRepeat(t *testing.T, name, text, universe string, interval date.Interval, digits int32, runs int) {
	t.Helper()
	path := filepath.Join(t.TempDir(), "main.knut")
	if err := os.WriteFile(path, []byte(text), 0o644); err != nil {
		t.Fatal(err)
	}
	to := date.Date(2020, 6, 30)
	first, err := kvsWeights(path, universe, interval, to, digits)
	if err != nil {
		t.Fatal(name, err)
	}
	for i := 1; i < runs; i++ {
		got, err := kvsWeights(path, universe, interval, to, digits)
		if err != nil {
			t.Fatal(name, err)
		}
		if got != first {
			t.Fatalf("%s: weights report differs between run 0 and run %d on the same file:\n%s\n--- run 0:\n%s\n--- run %d:\n%s", name, i, text, first, i, got)
		}
	}
}

func TestKVStandinWeightsOrder(t *testing.T) {
	// AAA and BBB have the same value on every day, hence the same weight in every column: the order of the two
	// rows must come from the name.
	kvsRepeat(t, "tied-rows", `2020-01-01 open Assets:Portfolio
2020-01-01 open Equity:Opening
2020-01-01 price AAA 1 CHF
2020-01-01 price BBB 1 CHF
2020-01-01 price CCC 8 CHF
2020-02-01 price CCC 3 CHF
2020-03-01 price CCC 5 CHF
2020-04-01 price CCC 7 CHF
2020-05-01 price CCC 11 CHF
2020-06-01 price CCC 13 CHF

2020-01-02 "buy"
Equity:Opening Assets:Portfolio 1 AAA
Equity:Opening Assets:Portfolio 1 BBB
Equity:Opening Assets:Portfolio 1 CCC
`, "", date.Weekly, 0, 150)
	// the class Hedge has the weights 0.1 + 0.3 - 0.4: (0.1+0.3)-0.4 == 0 but (0.3-0.4)+0.1 != 0
	kvsRepeat(t, "cancelling-class", `2020-01-01 open Assets:Portfolio
2020-01-01 open Equity:Opening
2020-01-01 price XXX 1 CHF
2020-01-01 price YYY 1 CHF
2020-01-01 price ZZZ 1 CHF
2020-01-01 price WWW 1 CHF

2020-01-02 "buy"
Equity:Opening Assets:Portfolio 1 XXX
Equity:Opening Assets:Portfolio 3 YYY
Equity:Opening Assets:Portfolio -4 ZZZ
Equity:Opening Assets:Portfolio 10 WWW
`, "Hedge: [XXX, YYY, ZZZ]\nCore: [WWW]\n", date.Once, 0, 150)
	// twelve commodities, one date, --digits 14: the total of the day
	var b strings.Builder
	b.WriteString("2020-01-01 open Assets:Portfolio\n2020-01-01 open Equity:Opening\n")
	for i := 1; i <= 12; i++ {
		fmt.Fprintf(&b, "2020-01-01 price C%d 0.%d CHF\n", i, i*7+3)
	}
	b.WriteString("\n2020-01-02 \"buy\"\n")
	for i := 1; i <= 12; i++ {
		fmt.Fprintf(&b, "Equity:Opening Assets:Portfolio %d C%d\n", i*3+1, i)
	}
	kvsRepeat(t, "digits", b.String(), "", date.Once, 14, 150)

	// seeded family: 3-9 commodities in 1-3 classes, prices with two decimals changing monthly, some commodities
	// with identical price and quantity (tied rows), monthly columns, --digits 14
	rng := rand.New(rand.NewSource(20261004))
	for n := 0; n < 24; n++ {
		k := 3 + rng.Intn(7)
		classes := 1 + rng.Intn(3)
		var b strings.Builder
		b.WriteString("2020-01-01 open Assets:Portfolio\n2020-01-01 open Equity:Opening\n")
		price := make([]int, k)
		qty := make([]int, k)
		for i := 0; i < k; i++ {
			if i > 0 && rng.Intn(3) == 0 {
				price[i], qty[i] = price[i-1], qty[i-1]
			} else {
				price[i], qty[i] = 1+rng.Intn(999), 1+rng.Intn(40)
			}
		}
		for m := 1; m <= 6; m++ {
			f := 50 + rng.Intn(100)
			for i := 0; i < k; i++ {
				p := price[i] * f
				fmt.Fprintf(&b, "2020-%02d-01 price K%d %d.%04d CHF\n", m, i, p/10000, p%10000)
			}
		}
		b.WriteString("\n2020-01-02 \"buy\"\n")
		for i := 0; i < k; i++ {
			fmt.Fprintf(&b, "Equity:Opening Assets:Portfolio %d K%d\n", qty[i], i)
		}
		var u strings.Builder
		for c := 0; c < classes; c++ {
			var members []string
			for i := 0; i < k; i++ {
				if i%classes == c {
					members = append(members, fmt.Sprintf("K%d", i))
				}
			}
			fmt.Fprintf(&u, "Class%d: [%s]\n", c, strings.Join(members, ", "))
		}
		kvsRepeat(t, fmt.Sprintf("seeded-%d", n), b.String(), u.String(), date.Monthly, 14, 40)
	}
}
