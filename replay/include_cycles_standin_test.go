package journal

// Bounded stand-in for the termination clause of C14 on the include loader (injected with `go test -overlay`;
// labelled bounded, never counted as proved). syntax.ParseFileRecursively / parseRec start a goroutine per include
// directive (goroutines, channels, errgroup: outside the verified subset; the sequential decision "is this file on
// the chain of including files" is under contract: syntax.onChain). Here EVERY include graph over three files
// (each ordered pair of files, self-pairs included, is an include or not: 2^9 graphs; one of the files sits in a
// subdirectory, so that relative paths are exercised) is loaded with journal.FromPath from the first file, with
// and without other directives in the files; the loader must return within the deadline, and it must return an
// error exactly when a cycle is reachable from the root file.

import (
	"context"
	"fmt"
	"os"
	"path/filepath"
	"strings"
	"testing"
	"time"

	"github.com/sboehler/knut/lib/model/registry"
)

func TestKVStandinIncludeCycles(t *testing.T) {
	names := []string{"a.knut", "sub/b.knut", "c.knut"}
	rel := func(from, to int) string {
		r, err := filepath.Rel(filepath.Dir(names[from]), names[to])
		if err != nil {
			t.Fatal(err)
		}
		return r
	}
	for _, content := range []bool{false, true} {
		for g := 0; g < 1<<9; g++ {
			dir := t.TempDir()
			if err := os.MkdirAll(filepath.Join(dir, "sub"), 0o755); err != nil {
				t.Fatal(err)
			}
			edge := func(i, j int) bool { return g&(1<<(3*i+j)) != 0 }
			for i := range names {
				var b strings.Builder
				if content {
					fmt.Fprintf(&b, "2020-01-01 open Assets:A%d\n", i)
				}
				for j := range names {
					if edge(i, j) {
						fmt.Fprintf(&b, "include \"%s\"\n", rel(i, j))
					}
				}
				if err := os.WriteFile(filepath.Join(dir, names[i]), []byte(b.String()), 0o644); err != nil {
					t.Fatal(err)
				}
			}
			// is a cycle reachable from file 0?
			reach := [3]bool{true, false, false}
			for k := 0; k < 3; k++ {
				for i := 0; i < 3; i++ {
					for j := 0; j < 3; j++ {
						if reach[i] && edge(i, j) {
							reach[j] = true
						}
					}
				}
			}
			var onCycle func(start, at int, depth int) bool
			onCycle = func(start, at, depth int) bool {
				if depth > 3 {
					return false
				}
				for j := 0; j < 3; j++ {
					if edge(at, j) && (j == start || onCycle(start, j, depth+1)) {
						return true
					}
				}
				return false
			}
			cyclic := false
			for i := 0; i < 3; i++ {
				if reach[i] && onCycle(i, i, 0) {
					cyclic = true
				}
			}
			// (with content, a file that is included twice opens its account twice - an error of its own: "must succeed"
			// is therefore asserted for the graphs without content only)
			ctx, cancel := context.WithCancel(context.Background())
			done := make(chan error, 1)
			go func() {
				_, err := FromPath(ctx, registry.New(), filepath.Join(dir, names[0]))
				done <- err
			}()
			select {
			case err := <-done:
				if cyclic && err == nil {
					t.Errorf("graph %09b content=%v: an include cycle is reachable from the root file, but the loader reported no error", g, content)
				}
				if !cyclic && !content && err != nil {
					t.Errorf("graph %09b: no cycle is reachable from the root file, but the loader failed: %v", g, err)
				}
			case <-time.After(10 * time.Second):
				cancel()
				t.Fatalf("graph %09b content=%v (cycle reachable from the root: %v): journal.FromPath did not return within 10s", g, content, cyclic)
			}
			cancel()
		}
	}
}

// Deep acyclic graphs: a chain of k files (k = 2..9), the last of which includes two siblings d and e, with d
// including e as well (a diamond below a chain: no cycle). The chain of including files is handed from a file to
// the goroutines of ALL files it includes, so the chains of siblings must not share storage; e holds prices only,
// so loading it twice is harmless. Every load (40 per depth) must succeed.
func TestKVStandinIncludeCyclesDeepDiamond(t *testing.T) {
	for k := 2; k <= 9; k++ {
		dir := t.TempDir()
		write := func(name, content string) {
			if err := os.WriteFile(filepath.Join(dir, name), []byte(content), 0o644); err != nil {
				t.Fatal(err)
			}
		}
		for i := 0; i < k-1; i++ {
			write(fmt.Sprintf("f%d.knut", i), fmt.Sprintf("include \"f%d.knut\"\n", i+1))
		}
		write(fmt.Sprintf("f%d.knut", k-1), "include \"d.knut\"\ninclude \"e.knut\"\n")
		var d strings.Builder
		for i := 0; i < 400; i++ {
			fmt.Fprintf(&d, "2020-01-%02d price AAPL %d.5 USD\n", i%28+1, 100+i)
		}
		d.WriteString("include \"e.knut\"\n")
		write("d.knut", d.String())
		write("e.knut", "2020-01-01 price USD 0.9 CHF\n")
		for run := 0; run < 40; run++ {
			ctx, cancel := context.WithCancel(context.Background())
			done := make(chan error, 1)
			go func() {
				_, err := FromPath(ctx, registry.New(), filepath.Join(dir, "f0.knut"))
				done <- err
			}()
			select {
			case err := <-done:
				if err != nil {
					t.Fatalf("chain of %d files above a diamond, run %d: loading an acyclic journal failed: %v", k, run, err)
				}
			case <-time.After(10 * time.Second):
				cancel()
				t.Fatalf("chain of %d files above a diamond, run %d: journal.FromPath did not return within 10s", k, run)
			}
			cancel()
		}
	}
}

// Errors in one of several files: "an error in any included file fails the whole command" - it must not be
// swallowed and the loader must not hang while the other files are still being parsed. A small file with an error
// (a directive that parses but cannot be converted: 30 February; a syntax error; a missing include) sits next to
// a large file (60,000 transactions) that is still being parsed when the error occurs - as the included file of a
// large root, and as the root of a large included file. Every load must return an error within the deadline.
func TestKVStandinIncludeCyclesErrorInOneFile(t *testing.T) {
	var big strings.Builder
	big.WriteString("2020-01-01 open Assets:Account\n2020-01-01 open Expenses:Groceries\n\n")
	for i := 0; i < 60000; i++ {
		fmt.Fprintf(&big, "2020-01-%02d \"purchase number %d\"\nAssets:Account Expenses:Groceries %d.25 CHF\n\n", 2+i%28, i, i)
	}
	bads := map[string]string{
		"conversion":      "2023-02-30 open Assets:Nowhere\n",
		"syntax":          "2023-02-10 opne Assets:Nowhere\n",
		"missing-include": "include \"nowhere.knut\"\n",
	}
	for name, bad := range bads {
		for _, badIsRoot := range []bool{false, true} {
			dir := t.TempDir()
			write := func(name, content string) string {
				p := filepath.Join(dir, name)
				if err := os.WriteFile(p, []byte(content), 0o644); err != nil {
					t.Fatal(err)
				}
				return p
			}
			var root string
			if badIsRoot {
				write("big.knut", big.String())
				root = write("root.knut", "include \"big.knut\"\n"+bad)
			} else {
				write("bad.knut", bad)
				root = write("root.knut", "include \"bad.knut\"\n\n"+big.String())
			}
			ctx, cancel := context.WithCancel(context.Background())
			done := make(chan error, 1)
			go func() {
				_, err := FromPath(ctx, registry.New(), root)
				done <- err
			}()
			select {
			case err := <-done:
				if err == nil {
					t.Errorf("%s error (in the root: %v): the loader reported no error", name, badIsRoot)
				}
			case <-time.After(20 * time.Second):
				cancel()
				t.Fatalf("%s error (in the root: %v): journal.FromPath did not return within 20s", name, badIsRoot)
			}
			cancel()
		}
	}
}

// Wide two-level include graphs: the root includes `width` files (width = 8, 40, 100, 300), each of which - after a
// body of 600 directives - includes one more file. A loader that limits the number of files in flight must not
// wait for a slot while holding one. Every load must succeed within the deadline.
func TestKVStandinIncludeCyclesWideTwoLevel(t *testing.T) {
	for _, width := range []int{8, 40, 100, 300} {
		dir := t.TempDir()
		write := func(name, content string) string {
			p := filepath.Join(dir, name)
			if err := os.WriteFile(p, []byte(content), 0o644); err != nil {
				t.Fatal(err)
			}
			return p
		}
		var root strings.Builder
		for i := 0; i < width; i++ {
			var body strings.Builder
			for l := 0; l < 600; l++ {
				fmt.Fprintf(&body, "2020-01-01 open Assets:Year%d:Account%d\n", i, l)
			}
			fmt.Fprintf(&body, "\ninclude \"detail%d.knut\"\n", i)
			write(fmt.Sprintf("year%d.knut", i), body.String())
			write(fmt.Sprintf("detail%d.knut", i), fmt.Sprintf("2020-01-02 open Assets:Detail%d\n", i))
			fmt.Fprintf(&root, "include \"year%d.knut\"\n", i)
		}
		path := write("root.knut", root.String())
		ctx, cancel := context.WithCancel(context.Background())
		done := make(chan error, 1)
		go func() {
			_, err := FromPath(ctx, registry.New(), path)
			done <- err
		}()
		select {
		case err := <-done:
			if err != nil {
				t.Fatalf("root with %d includes of including files: loading a valid journal failed: %v", width, err)
			}
		case <-time.After(30 * time.Second):
			cancel()
			t.Fatalf("root with %d includes of including files: journal.FromPath did not return within 30s", width)
		}
		cancel()
	}
}
