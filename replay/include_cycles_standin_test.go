package journal

// Bounded stand-in for the termination clause of C14 on the include loader (injected with `go test -overlay`;
// labelled bounded, never counted as proved). syntax.ParseFileRecursively / parseRec start a goroutine per include
// directive (goroutines, channels, errgroup: outside the verified subset; the sequential decision "is this file on
// the chain of including files" is under contract: syntax.onChain). Here EVERY include graph over three files
// (each ordered pair of files, self-pairs included, is an include or not: 2^9 graphs; one of the files sits in a
// subdirectory, so that relative paths are exercised) is loaded with journal.FromPath from the first file, with
// and without other directives in the files; the loader must return within the deadline, and it must return an
// error exactly when a cycle is reachable from the root file.

import (
	"context"
	"fmt"
	"os"
	"path/filepath"
	"strings"
	"testing"
	"time"

	"github.com/sboehler/knut/lib/model/registry"
)

func TestKVStandinIncludeCycles(t *testing.T) {
	names := []string{"a.knut", "sub/b.knut", "c.knut"}
	rel := func(from, to int) string {
		r, err := filepath.Rel(filepath.Dir(names[from]), names[to])
		if err != nil {
			t.Fatal(err)
		}
		return r
	}
	for _, content := range []bool{false, true} {
		for g := 0; g < 1<<9; g++ {
			dir := t.TempDir()
			if err := os.MkdirAll(filepath.Join(dir, "sub"), 0o755); err != nil {
				t.Fatal(err)
			}
			edge := func(i, j int) bool { return g&(1<<(3*i+j)) != 0 }
			for i := range names {
				var b strings.Builder
				if content {
					fmt.Fprintf(&b, "2020-01-01 open Assets:A%d\n", i)
				}
				for j := range names {
					if edge(i, j) {
						fmt.Fprintf(&b, "include \"%s\"\n", rel(i, j))
					}
				}
				if err := os.WriteFile(filepath.Join(dir, names[i]), []byte(b.String()), 0o644); err != nil {
					t.Fatal(err)
				}
			}
			// is a cycle reachable from file 0?
			reach := [3]bool{true, false, false}
			for k := 0; k < 3; k++ {
				for i := 0; i < 3; i++ {
					for j := 0; j < 3; j++ {
						if reach[i] && edge(i, j) {
							reach[j] = true
						}
					}
				}
			}
			var onCycle func(start, at int, depth int) bool
			onCycle = func(start, at, depth int) bool {
				if depth > 3 {
					return false
				}
				for j := 0; j < 3; j++ {
					if edge(at, j) && (j == start || onCycle(start, j, depth+1)) {
						return true
					}
				}
				return false
			}
			cyclic := false
			for i := 0; i < 3; i++ {
				if reach[i] && onCycle(i, i, 0) {
					cyclic = true
				}
			}
			// (with content, a file that is included twice opens its account twice - an error of its own: "must succeed"
			// is therefore asserted for the graphs without content only)
			ctx, cancel := context.WithCancel(context.Background())
			done := make(chan error, 1)
			go func() {
				_, err := FromPath(ctx, registry.New(), filepath.Join(dir, names[0]))
				done <- err
			}()
			select {
			case err := <-done:
				if cyclic && err == nil {
					t.Errorf("graph %09b content=%v: an include cycle is reachable from the root file, but the loader reported no error", g, content)
				}
				if !cyclic && !content && err != nil {
					t.Errorf("graph %09b: no cycle is reachable from the root file, but the loader failed: %v", g, err)
				}
			case <-time.After(10 * time.Second):
				cancel()
				t.Fatalf("graph %09b content=%v (cycle reachable from the root: %v): journal.FromPath did not return within 10s", g, content, cyclic)
			}
			cancel()
		}
	}
}
