package flags

// Witness for the missing validation in MappingFlag.Set (property C14): a negative level or suffix is
// accepted and later makes account.Shorten slice out of range (panic) while rendering a report.
// Injected with `go test -overlay`; never part of the repository.

import (
	"fmt"
	"testing"

	"github.com/sboehler/knut/lib/model/account"
)

func TestKVWitnessNegativeMapping(t *testing.T) {
	var f MappingFlag
	err := f.Set("-1,Assets")
	fmt.Printf("Set(\"-1,Assets\") = %v, mapping = %v\n", err, f.Value())
	if err != nil {
		return
	}
	reg := account.NewRegistry()
	a := reg.MustGet("Assets:Bank:Checking")
	func() {
		defer func() {
			if r := recover(); r != nil {
				fmt.Printf("REPLAY-CONFIRMED wf: account.Shorten panicked: %v\n", r)
			}
		}()
		account.Shorten(reg, f.Value())(a)
	}()
}
