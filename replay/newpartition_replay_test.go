package date

// Replay harness (injected with `go test -overlay`; never part of the repository).
// Turns the solver model of a refuted obligation of NewPartition into a real call: dates are day numbers
// counted from 0001-01-01 (the engine's model of time.Time). Confirms a panic, a window that is not
// covered exactly by the periods, or periods that are not contiguous and ordered.

import (
	"encoding/json"
	"fmt"
	"os"
	"strconv"
	"testing"
	"time"
)

func kvDay(s string) (time.Time, bool) {
	n, err := strconv.ParseInt(s, 10, 64)
	if err != nil || n < -3000000 || n > 3652058 {
		return time.Time{}, false
	}
	return time.Date(1, 1, 1, 0, 0, 0, 0, time.UTC).AddDate(0, 0, int(n)), true
}

func TestKVReplayNewPartition(t *testing.T) {
	var v map[string]string
	if err := json.Unmarshal([]byte(os.Getenv("KV_REPLAY")), &v); err != nil {
		t.Skip("no replay values")
	}
	start, ok1 := kvDay(v["start"])
	end, ok2 := kvDay(v["end"])
	iv, err1 := strconv.Atoi(v["interval"])
	last, err2 := strconv.Atoi(v["last"])
	if !ok1 || !ok2 || err1 != nil || err2 != nil || iv < 0 || iv > 5 || last < 0 || last > 100000 {
		t.Skipf("model values outside the representable range: %v", v)
	}
	if start.IsZero() {
		t.Skip("zero start date is excluded by the precondition")
	}
	fmt.Printf("input: NewPartition({%s, %s}, %v, %d)\n", start.Format("2006-01-02"), end.Format("2006-01-02"), Interval(iv), last)
	defer func() {
		if r := recover(); r != nil {
			fmt.Printf("REPLAY-CONFIRMED panic: %v\n", r)
		}
	}()
	p := NewPartition(Period{Start: start, End: end}, Interval(iv), last)
	for i, pd := range p.periods {
		if pd.End.Before(pd.Start) {
			fmt.Printf("REPLAY-CONFIRMED @wf: period %d ends before it starts: %v\n", i, pd)
		}
		if i > 0 && !p.periods[i-1].End.AddDate(0, 0, 1).Equal(pd.Start) {
			fmt.Printf("REPLAY-CONFIRMED @contiguous: period %d does not start the day after period %d ends\n", i, i-1)
		}
	}
	if len(p.periods) > 0 && !end.Before(start) {
		if !p.periods[len(p.periods)-1].End.Equal(end) {
			fmt.Println("REPLAY-CONFIRMED @cover: the last period does not end at the window end")
		}
		if last == 0 && !p.periods[0].Start.Equal(start) {
			fmt.Println("REPLAY-CONFIRMED @cover: the first period does not start at the window start")
		}
	}
}

// Fixed scenarios (run whether or not the solver gave a model): an empty window (start after end) has no
// periods, whatever the interval; the periods of a non-empty window are ordered, contiguous and cover it.
func TestKVReplayNewPartitionFixed(t *testing.T) {
	day := func(y, m, d int) time.Time { return time.Date(y, time.Month(m), d, 0, 0, 0, 0, time.UTC) }
	defer func() {
		if r := recover(); r != nil {
			fmt.Printf("REPLAY-CONFIRMED panic: %v\n", r)
		}
	}()
	for iv := Once; iv <= Yearly; iv++ {
		for _, w := range [][2]time.Time{{day(2024, 3, 1), day(2024, 2, 28)}, {day(2024, 1, 2), day(2024, 1, 1)}, {day(2030, 1, 1), day(2020, 12, 31)}} {
			p := NewPartition(Period{Start: w[0], End: w[1]}, iv, 0)
			if len(p.periods) != 0 {
				fmt.Printf("REPLAY-CONFIRMED @empty: NewPartition({%s, %s}, %v, 0): the window is empty (start after end) but %d period(s) are generated: %v\n",
					w[0].Format("2006-01-02"), w[1].Format("2006-01-02"), iv, len(p.periods), p.periods)
			}
		}
		for _, w := range [][2]time.Time{{day(2024, 1, 15), day(2024, 4, 10)}, {day(2023, 12, 31), day(2024, 1, 1)}, {day(2024, 2, 29), day(2024, 2, 29)}} {
			p := NewPartition(Period{Start: w[0], End: w[1]}, iv, 0)
			if len(p.periods) == 0 || !p.periods[0].Start.Equal(w[0]) || !p.periods[len(p.periods)-1].End.Equal(w[1]) {
				fmt.Printf("REPLAY-CONFIRMED @cover: NewPartition({%s, %s}, %v, 0) does not cover the window: %v\n", w[0].Format("2006-01-02"), w[1].Format("2006-01-02"), iv, p.periods)
			}
			for i := 1; i < len(p.periods); i++ {
				if !p.periods[i-1].End.AddDate(0, 0, 1).Equal(p.periods[i].Start) {
					fmt.Printf("REPLAY-CONFIRMED @contiguous: NewPartition({%s, %s}, %v, 0): %v\n", w[0].Format("2006-01-02"), w[1].Format("2006-01-02"), iv, p.periods)
				}
			}
		}
	}
}
