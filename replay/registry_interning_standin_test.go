package registry

// Bounded stand-in for the part of C05/C06 that depends on goroutine schedules (injected with `go test -overlay`;
// labelled bounded, never counted as proved): the files of a journal are converted concurrently and all of them
// ask the shared registries for commodities and accounts by name. The sequential contracts prove that a registry
// maps a name to THE object of that name (wfCommodities, wfAccounts) - with locks as no-ops. Here many goroutines
// ask for the same new names at the same moment: every one of them must receive the same pointer, and the
// registry must hold exactly that object afterwards (200 rounds x 16 goroutines x 6 names per registry).

import (
	"fmt"
	"sync"
	"testing"

	"github.com/sboehler/knut/lib/model/account"
	"github.com/sboehler/knut/lib/model/commodity"
)

func TestKVStandinRegistryInterning(t *testing.T) {
	const rounds, workers, names = 200, 16, 6
	for r := 0; r < rounds; r++ {
		reg := New()
		var wg sync.WaitGroup
		start := make(chan struct{})
		coms := make([][]*commodity.Commodity, workers)
		accs := make([][]*account.Account, workers)
		errs := make([]error, workers)
		for w := 0; w < workers; w++ {
			wg.Add(1)
			go func(w int) {
				defer wg.Done()
				<-start
				for n := 0; n < names; n++ {
					c, err := reg.Commodities().Get(fmt.Sprintf("COM%d", n))
					if err != nil {
						errs[w] = err
						return
					}
					coms[w] = append(coms[w], c)
					a, err := reg.Accounts().Get(fmt.Sprintf("Assets:Bank%d:Sub", n))
					if err != nil {
						errs[w] = err
						return
					}
					accs[w] = append(accs[w], a)
				}
			}(w)
		}
		close(start)
		wg.Wait()
		for w := 0; w < workers; w++ {
			if errs[w] != nil {
				t.Fatal(errs[w])
			}
			for n := 0; n < names; n++ {
				if coms[w][n] != coms[0][n] {
					t.Fatalf("round %d: two goroutines received two different commodities for the name COM%d", r, n)
				}
				if accs[w][n] != accs[0][n] {
					t.Fatalf("round %d: two goroutines received two different accounts for the name Assets:Bank%d:Sub", r, n)
				}
			}
		}
		for n := 0; n < names; n++ {
			if c, err := reg.Commodities().Get(fmt.Sprintf("COM%d", n)); err != nil || c != coms[0][n] {
				t.Fatalf("round %d: the registry holds another commodity for COM%d than the one it handed out", r, n)
			}
			if a, err := reg.Accounts().Get(fmt.Sprintf("Assets:Bank%d:Sub", n)); err != nil || a != accs[0][n] {
				t.Fatalf("round %d: the registry holds another account for Assets:Bank%d:Sub than the one it handed out", r, n)
			}
		}
	}
}
