package main

import (
	"flag"
	"fmt"
	"os"
	"runtime"
	"strings"

	"kv/kv"
)

// every temporary file of this process (solver queries, replay overlays, go build output of replays) lives
// under one directory that is removed on exit - also when solver goroutines are still being cancelled
var tmpRoot string

func exit(code int) {
	if tmpRoot != "" {
		os.RemoveAll(tmpRoot)
	}
	os.Exit(code)
}

func main() {
	if d, err := os.MkdirTemp("", "kvrun"); err == nil {
		tmpRoot = d
		os.Setenv("TMPDIR", d)
		defer os.RemoveAll(d)
	}
	if len(os.Args) < 2 {
		fmt.Fprintln(os.Stderr, "usage: kv func|check|list ...")
		exit(2)
	}
	switch os.Args[1] {
	case "func":
		cmdFunc(os.Args[2:])
	case "lemma":
		cmdLemma(os.Args[2:])
	case "check":
		exit(kv.CmdCheck(os.Args[2:]))
	case "list":
		cmdList(os.Args[2:])
	case "loops":
		e, err := kv.Load("/repo")
		if err != nil {
			fmt.Fprintln(os.Stderr, err)
			exit(2)
		}
		for _, l := range e.LoopInfo(os.Args[2]) {
			fmt.Println(l)
		}
	default:
		fmt.Fprintln(os.Stderr, "unknown command", os.Args[1])
		exit(2)
	}
}

func cmdList(args []string) {
	fs := flag.NewFlagSet("list", flag.ExitOnError)
	repo := fs.String("repo", "/repo", "repository")
	fs.Parse(args)
	e, err := kv.Load(*repo)
	if err != nil {
		fmt.Fprintln(os.Stderr, err)
		exit(2)
	}
	missing := e.BindContracts()
	for fn, fc := range e.Contracts {
		fmt.Println(e.KeyOf(fn), len(fc.Clauses))
	}
	for _, m := range missing {
		fmt.Println("MISSING", m)
	}
}

func cmdFunc(args []string) {
	fs := flag.NewFlagSet("func", flag.ExitOnError)
	repo := fs.String("repo", "/repo", "repository")
	dump := fs.String("dump", "", "dump queries of failed obligations to this directory")
	dumpAll := fs.Bool("dump-all", false, "dump all queries")
	smoke := fs.Bool("smoke", false, "generate smoke obligations")
	timeout := fs.Int("timeout", 10, "solver timeout (s)")
	all := fs.Bool("all", false, "run all solvers to completion")
	verbose := fs.Bool("v", false, "verbose")
	fs.Parse(args)
	e, err := kv.Load(*repo)
	if err != nil {
		fmt.Fprintln(os.Stderr, err)
		exit(2)
	}
	for _, m := range e.BindContracts() {
		fmt.Println("unresolved contract:", m)
	}
	bad := 0
	for _, pat := range fs.Args() {
		n := 0
		for fn, fc := range e.Contracts {
			key := strings.TrimPrefix(e.KeyOf(fn), kv.ModulePath+"/")
			if key != pat && !strings.HasPrefix(key, pat) {
				continue
			}
			if key != pat && kv.IsGenericShell(fn) {
				continue
			}
			n++
			res := e.VerifyFunc(fn, fc, *smoke)
			if res.Error != "" {
				fmt.Printf("%s: UNSUPPORTED: %s\n", key, res.Error)
				bad++
				continue
			}
			u := res.Unit
			u.FinishAxioms()
			kv.Solve(u.Obls, *timeout, *all, runtime.NumCPU())
			for _, er := range u.Errors {
				fmt.Println("  ERROR", er)
				bad++
			}
			for _, w := range u.Warnings {
				fmt.Println("  warning:", w)
			}
			for _, o := range u.Obls {
				ok := o.Status == "unsat"
				if o.Smoke {
					ok = o.Status != "unsat"
				}
				mark := "ok  "
				if !ok {
					mark = "FAIL"
					bad++
				}
				if !ok || *verbose {
					fmt.Printf("  %s %-8s %-60s %5.2fs %-7s %s | %s\n", mark, o.Status, o.Name, o.Secs, o.Solver, o.Pos, o.Desc)
				}
				if (!ok && *dump != "") || *dumpAll {
					dir := *dump
					if dir == "" {
						dir = "/tmp/kvdump"
					}
					fmt.Println("       query:", kv.DumpQuery(o, dir))
				}
			}
			fmt.Printf("%s: %d obligations\n", key, len(u.Obls))
			if *verbose {
				for k := range u.Opaque {
					fmt.Println("  opaque:", k)
				}
				for k := range u.Inlined {
					fmt.Println("  inlined:", k)
				}
				for k := range u.Trusted {
					fmt.Println("  trusted:", k)
				}
			}
		}
		if n == 0 {
			fmt.Println("no contract matches", pat)
			bad++
		}
	}
	if bad > 0 {
		exit(1)
	}
}

// kv lemma [-dump dir] name...: prove lemmas / commutation lemmas from the contract files.
func cmdLemma(args []string) {
	fs := flag.NewFlagSet("lemma", flag.ExitOnError)
	repo := fs.String("repo", "/repo", "repository")
	dump := fs.String("dump", "", "dump queries of failed obligations to this directory")
	timeout := fs.Int("timeout", 10, "solver timeout (s)")
	fs.Parse(args)
	e, err := kv.Load(*repo)
	if err != nil {
		fmt.Fprintln(os.Stderr, err)
		exit(2)
	}
	e.BindContracts()
	for _, name := range fs.Args() {
		u, err := e.VerifyLemma(name)
		if err != nil {
			fmt.Println("ERROR", err)
			continue
		}
		u.FinishAxioms()
		kv.Solve(u.Obls, *timeout, false, runtime.NumCPU())
		for _, er := range u.Errors {
			fmt.Println("  ERROR", er)
		}
		for _, o := range u.Obls {
			mark := "ok  "
			if o.Status != "unsat" {
				mark = "FAIL"
				if *dump != "" {
					os.MkdirAll(*dump, 0o755)
					os.WriteFile(*dump+"/"+strings.NewReplacer("/", "_", "#", "_", ":", "_", "$", "_").Replace(o.Name)+".smt2", []byte(u.Query(o)), 0o644)
				}
			}
			fmt.Printf("  %s %-8s %-60s %6.2fs %-7s | %s\n", mark, o.Status, o.Name, o.Secs, o.Solver, o.Desc)
		}
	}
}
