package kv

import (
	"fmt"
	"go/token"
	"go/types"
	"sort"
	"strings"

	"golang.org/x/tools/go/ssa"
)

// modTargetInfo: heaps and address predicate of one modifies target.
type modTargetInfo struct {
	heaps     []leafHeap
	paramIdx  int
	direct    bool // target is a leaf field of the struct a parameter points to
	rootParam int  // index of the parameter the target expression is rooted in (-1 if none)
	underRoot bool // every address of the target lies inside the object that parameter points to (x.f, x.f.g)
	// inTarget(r) for each heap, given the environment
	pred func(env *Env, r Term) Term
	// exact addresses (one per heap of heaps), or nil when the target is not a fixed set of addresses
	exact func(env *Env) []Term
}

// paramNames of a function: receiver and parameters in SSA order.
func paramIndex(fn *ssa.Function, name string) int {
	for i, p := range fn.Params {
		if p.Name() == name {
			return i
		}
	}
	return -1
}

// modTarget analyses a modifies target expression of callee's contract (types only).
func (a *Act) modTarget(callee *ssa.Function, e Expr) (*modTargetInfo, error) {
	var info *modTargetInfo
	err := catch(func() {
		info = a.modTarget0(callee, e)
	})
	return info, err
}

func catch(f func()) (err error) {
	defer func() {
		if r := recover(); r != nil {
			if u, ok := r.(unsupported); ok {
				err = u
				return
			}
			panic(r)
		}
	}()
	f()
	return nil
}

// typeOfSpec computes the static Go type of a (restricted) specification expression in callee's scope.
func (a *Act) specType(callee *ssa.Function, e Expr) types.Type {
	switch x := e.(type) {
	case *EIdent:
		for _, p := range callee.Params {
			if p.Name() == x.Name {
				return p.Type()
			}
		}
		for _, fv := range callee.FreeVars {
			if fv.Name() == x.Name {
				return derefType(fv.Type())
			}
		}
		fail("modifies: unknown name %s in %s", x.Name, callee)
	case *ESel:
		t := a.specType(callee, x.X)
		for _, p := range a.u.E.Pkgs {
			o, _, _ := types.LookupFieldOrMethod(t, true, p.Types, x.Name)
			if v, ok := o.(*types.Var); ok {
				return v.Type()
			}
		}
		fail("modifies: no field %s in %s", x.Name, t)
	case *EUnary:
		if x.Op == "*" {
			return derefType(a.specType(callee, x.X))
		}
	case *EIndex:
		t := a.specType(callee, x.X)
		switch u := types.Unalias(t).Underlying().(type) {
		case *types.Slice:
			return u.Elem()
		case *types.Map:
			return u.Elem()
		}
	}
	fail("modifies: unsupported target %s", e)
	return nil
}

func (a *Act) modTarget0(callee *ssa.Function, e Expr) *modTargetInfo {
	d := a.u.D
	info := &modTargetInfo{paramIdx: -1, rootParam: -1}
	// x[*] : contents of slice or map
	if ix, ok := e.(*EIndex); ok {
		if id, ok := ix.I.(*EIdent); ok && id.Name == "$all" {
			t := a.specType(callee, ix.X)
			switch u := types.Unalias(t).Underlying().(type) {
			case *types.Slice:
				info.heaps = a.elemHeaps(u.Elem())
				info.pred = func(env *Env, r Term) Term {
					s := env.value(env.eval(ix.X))
					return and(not(eq(app("sarr", s.T), "nil")), eq(app("rid", r), app("rid", app("sarr", s.T))))
				}
				return info
			case *types.Map:
				dn, vn, ds, vs := a.mapHeapSorts(u)
				info.heaps = []leafHeap{{dn, ds, nil}, {vn, vs, nil}}
				info.pred = func(env *Env, r Term) Term {
					m := env.value(env.eval(ix.X))
					return eq(r, m.T)
				}
				info.exact = func(env *Env) []Term {
					m := env.value(env.eval(ix.X))
					return []Term{m.T, m.T}
				}
				return info
			}
			fail("modifies %s: not a slice or map", e)
		}
	}
	// elems(x): every element of every slice with the element type of x (coarse: the whole element heap)
	if c, ok := e.(*ECall); ok && c.Fn == "elems" && len(c.Args) == 1 {
		t := a.specType(callee, c.Args[0])
		sl, ok := types.Unalias(t).Underlying().(*types.Slice)
		if !ok {
			fail("modifies elems(%s): not a slice", c.Args[0])
		}
		info.heaps = a.elemHeaps(sl.Elem())
		info.pred = func(env *Env, r Term) Term { return "true" }
		return info
	}
	// fields(x): every field of every object of the struct type x points to (coarse: the whole field heaps) -
	// for linked structures (trees) whose nodes cannot be enumerated in a contract
	if c, ok := e.(*ECall); ok && c.Fn == "fields" && len(c.Args) == 1 {
		t := derefType(a.specType(callee, c.Args[0]))
		if !isStructType(t) {
			fail("modifies fields(%s): not a pointer to a struct", c.Args[0])
		}
		info.heaps = a.leafHeaps(t)
		info.pred = func(env *Env, r Term) Term { return "true" }
		return info
	}
	// *x : the cell or struct x points to
	if un, ok := e.(*EUnary); ok && un.Op == "*" {
		t := a.specType(callee, un.X)
		et := derefType(t)
		info.heaps = a.leafHeaps(et)
		info.pred = func(env *Env, r Term) Term {
			p := env.value(env.eval(un.X))
			if isStructType(et) {
				return eq(app("rid", r), app("rid", p.T)) // anything inside the object (coarse)
			}
			return eq(r, p.T)
		}
		return info
	}
	// closure variable name: the captured cell
	if id, ok := e.(*EIdent); ok {
		for i, fv := range callee.FreeVars {
			if fv.Name() == id.Name {
				et := derefType(fv.Type())
				info.heaps = a.leafHeaps(et)
				idx := i
				info.pred = func(env *Env, r Term) Term {
					c, ok := env.lookup("&" + callee.FreeVars[idx].Name())
					if !ok {
						fail("cannot resolve captured variable %s", id.Name)
					}
					if isStructType(et) {
						return eq(app("rid", r), app("rid", c.T))
					}
					return eq(r, c.T)
				}
				return info
			}
		}
		fail("modifies: %s is not a captured variable (use x.f, x[*] or *x)", id.Name)
	}
	// x.f : field f of the struct x denotes
	if se, ok := e.(*ESel); ok {
		bt := a.specType(callee, se.X)
		st := bt
		if p, ok := types.Unalias(bt).Underlying().(*types.Pointer); ok {
			st = p.Elem()
		}
		if !isStructType(st) {
			fail("modifies %s: base is not a struct", e)
		}
		var path []int
		for _, p := range a.u.E.Pkgs {
			o, idx, _ := types.LookupFieldOrMethod(st, true, p.Types, se.Name)
			if _, ok := o.(*types.Var); ok {
				path = idx
				break
			}
		}
		if path == nil {
			fail("modifies: no field %s in %s", se.Name, st)
		}
		// walk the path (embedded structs by value)
		cur := st
		addrOf := func(r Term) Term { return r }
		for k, i := range path {
			si := d.structInfo(cur)
			f := si.Fields[i]
			if k == len(path)-1 {
				if isStructType(f.Type) || isArrayType(f.Type) {
					prev := addrOf
					ii := i
					sub := func(r Term) Term { return app("sub", prev(r), intLit(int64(ii))) }
					for _, lh := range a.leafHeaps(f.Type) {
						lh := lh
						info.heaps = append(info.heaps, leafHeap{lh.name, lh.sort, func(r Term) Term { return lh.addr(sub(r)) }})
					}
				} else {
					h, hs := d.FieldHeap(cur, i)
					info.heaps = append(info.heaps, leafHeap{h, hs, addrOf})
				}
				break
			}
			if !isStructType(f.Type) {
				fail("modifies %s: path through non-struct field", e)
			}
			prev := addrOf
			ii := i
			addrOf = func(r Term) Term { return app("sub", prev(r), intLit(int64(ii))) }
			cur = f.Type
		}
		if id, ok := se.X.(*EIdent); ok && len(path) == 1 && len(info.heaps) == 1 {
			if _, isPtr := types.Unalias(bt).Underlying().(*types.Pointer); isPtr {
				info.paramIdx = paramIndex(callee, id.Name)
				info.direct = info.paramIdx >= 0
			}
		}
		// x.f with x a pointer parameter (possibly through embedded struct values): addresses inside *x
		root := se.X
		inside := true
		for {
			if inner, ok := root.(*ESel); ok {
				it := a.specType(callee, inner.X)
				if _, isPtr := types.Unalias(it).Underlying().(*types.Pointer); isPtr {
					if _, isId := inner.X.(*EIdent); !isId {
						inside = false // goes through a pointer field: not inside the root object
					}
				}
				root = inner.X
				continue
			}
			break
		}
		if id, ok := root.(*EIdent); ok {
			info.rootParam = paramIndex(callee, id.Name)
			_, isPtr := types.Unalias(a.specType(callee, root)).Underlying().(*types.Pointer)
			// se.X itself must denote (a part of) the object x points to
			if x, ok := se.X.(*EIdent); ok && x == id {
				info.underRoot = isPtr && inside
			} else {
				info.underRoot = isPtr && inside && !typeHasPointerStep(a, callee, se.X)
			}
		}
		heaps := info.heaps
		info.pred = func(env *Env, r Term) Term {
			b := env.eval(se.X)
			if !(b.AtRef || b.Sort == "Ref") {
				fail("modifies %s: base is not addressable", e)
			}
			var cs []Term
			for _, lh := range heaps {
				cs = append(cs, eq(r, lh.addr(b.T)))
			}
			return or(cs...)
		}
		info.exact = func(env *Env) []Term {
			b := env.eval(se.X)
			if !(b.AtRef || b.Sort == "Ref") {
				fail("modifies %s: base is not addressable", e)
			}
			var out []Term
			for _, lh := range heaps {
				out = append(out, lh.addr(b.T))
			}
			return out
		}
		return info
	}
	fail("modifies: unsupported target %s", e)
	return nil
}

// rewriteStar turns "x[*]" into the index expression with the marker $all.
func rewriteStar(s string) string { return strings.ReplaceAll(s, "[*]", "[$all]") }

// ---------------------------------------------------------------------------------------

// fnEnv builds the specification environment of a function: parameters and captured variables.
func (a *Act) fnEnv(fn *ssa.Function, params []Val, free []Val, cur, old *State, result []Val) *Env {
	qn := new(int)
	if a.top != nil && a.top.qn != nil {
		qn = a.top.qn
	}
	mk := func(st *State) func(name string) (SVal, bool) {
		return func(name string) (SVal, bool) {
			for i, p := range fn.Params {
				if p.Name() == name && i < len(params) {
					v := params[i]
					if v.Loc != nil {
						fail("parameter %s bound to a local address", name)
					}
					return SVal{T: v.T, Typ: p.Type(), Sort: a.u.D.SortOf(p.Type()), Fn: v.Fn}, true
				}
			}
			if a.top != nil && a.top.fc != nil && fn == a.top.fn {
				for _, g := range a.top.fc.Ghosts {
					if g.Name == name {
						srt, et := ghostSort(g.Sort)
						return SVal{T: st.heap("G_"+g.Name, srt), Sort: srt, Elem: et, Typ: func() types.Type {
							if strings.HasPrefix(srt, "(Array") {
								return nil
							}
							return et
						}()}, true
					}
				}
			}
			for i, fv := range fn.FreeVars {
				if i >= len(free) {
					break
				}
				if fv.Name() == name {
					et := derefType(fv.Type())
					if isStructType(et) {
						return SVal{T: free[i].T, Typ: et, Sort: a.u.D.SortOf(et), AtRef: true}, true
					}
					h, hs := a.u.D.CellHeap(et)
					return SVal{T: hsel(st.u, st.heap(h, hs), free[i].T), Typ: et, Sort: a.u.D.SortOf(et)}, true
				}
				if "&"+fv.Name() == name {
					return SVal{T: free[i].T, Typ: fv.Type(), Sort: "Ref"}, true
				}
			}
			return SVal{}, false
		}
	}
	pkg := a.u.E.TypesPkgs[pkgOf(fn)]
	return &Env{a: a, u: a.u, cur: cur, old: old, lookup: mk(cur), oldLookup: mk(old), result: result, pkg: pkg, bound: map[string]SVal{}, qn: qn, fn: fn}
}

func (a *Act) evalClause(env *Env, cl *Clause) Term {
	var t Term
	if err := catch(func() { t = env.eval(cl.Expr).T }); err != nil {
		a.u.Errors = append(a.u.Errors, fmt.Sprintf("%s: %s %q: %v", a.u.Name, cl.Kind, cl.Src, err))
		return "false"
	}
	return t
}

func (a *Act) evalClauseTerm(env *Env, cl *Clause) Term { return a.evalClause(env, cl) }

// loopEnv: names visible in a loop invariant at entry / head / back edge.
func (a *Act) loopEnv(li *loopInfo, st *State, mode string, from *ssa.BasicBlock) *Env {
	base := a.loopEnv0(li, st, mode, from)
	if mode != "entry" && li.entrySt != nil {
		base.loopEntry = li.entrySt
		base.loopEntryLookup = a.loopEnv0(li, li.entrySt, "entryvals", nil).lookup
	} else if mode == "entry" {
		base.loopEntry = st
		base.loopEntryLookup = base.lookup
	}
	return base
}

func (a *Act) loopEnv0(li *loopInfo, st *State, mode string, from *ssa.BasicBlock) *Env {
	base := a.fnEnv(a.fn, a.params, a.free, st, a.entry, nil)
	fnLookup := base.lookup
	base.lookup = func(name string) (SVal, bool) {
		d := a.u.D
		// phis of this loop head
		for _, ins := range li.head.Instrs {
			phi, ok := ins.(*ssa.Phi)
			if !ok {
				break
			}
			match := phi.Comment == name
			plus1 := false
			if name == "$i" && phi.Comment == "rangeindex" {
				match, plus1 = true, true
			}
			if !match {
				continue
			}
			var v Val
			switch mode {
			case "entry", "head":
				v = a.vals[phi]
			case "entryvals":
				v = li.entryPhi[phi]
			case "back":
				for i, pb := range li.head.Preds {
					if pb == from {
						v = a.val(phi.Edges[i])
					}
				}
			}
			t := v.T
			if plus1 {
				t = app("+", t, "1")
			}
			return SVal{T: t, Typ: phi.Type(), Sort: d.SortOf(phi.Type())}, true
		}
		if strings.HasPrefix(name, "$i") && len(name) > 2 {
			n := 0
			fmt.Sscanf(name[2:], "%d", &n)
			for _, l2 := range a.loops {
				if l2.ord != n {
					continue
				}
				for _, ins := range l2.head.Instrs {
					if phi, ok := ins.(*ssa.Phi); ok && phi.Comment == "rangeindex" {
						if v, ok := a.vals[phi]; ok {
							return SVal{T: app("+", v.T, "1"), Typ: phi.Type(), Sort: "Int"}, true
						}
					}
				}
			}
		}
		if name == "$range" || (strings.HasPrefix(name, "$range") && len(name) > 6) {
			// the slice a range-over-slice loop iterates over ($rangeN: that of the enclosing loop N)
			head := li.head
			if name != "$range" {
				n := 0
				fmt.Sscanf(name[6:], "%d", &n)
				for _, l2 := range a.loops {
					if l2.ord == n {
						head = l2.head
					}
				}
			}
			for _, ins := range head.Instrs {
				if bo, ok := ins.(*ssa.BinOp); ok && bo.Op == token.LSS {
					if c, ok := bo.Y.(*ssa.Call); ok {
						if b, ok := c.Call.Value.(*ssa.Builtin); ok && b.Name() == "len" {
							if v, ok := a.vals[c.Call.Args[0]]; ok && v.Loc == nil {
								return SVal{T: v.T, Typ: c.Call.Args[0].Type(), Sort: d.SortOf(c.Call.Args[0].Type())}, true
							}
						}
					}
				}
			}
		}
		if strings.HasPrefix(name, "$seen") && len(name) > 5 {
			// $seenN: the seen-set of the map range of loop N (an enclosing loop)
			n := 0
			fmt.Sscanf(name[5:], "%d", &n)
			for _, l2 := range a.loops {
				if l2.ord != n {
					continue
				}
				for _, ins := range l2.head.Instrs {
					if nx, ok := ins.(*ssa.Next); ok {
						if s, ok := st.seen[nx.Iter]; ok {
							return SVal{T: s, Sort: a.seenSort(nx.Iter)}, true
						}
					}
				}
			}
		}
		if name == "$seen" || name == "$pos" {
			for _, ins := range li.head.Instrs {
				if nx, ok := ins.(*ssa.Next); ok {
					if s, ok := st.seen[nx.Iter]; ok {
						return SVal{T: s, Sort: a.seenSort(nx.Iter)}, true
					}
				}
			}
			for _, b := range a.fn.Blocks {
				if !li.blocks[b] {
					continue
				}
				for _, ins := range b.Instrs {
					if nx, ok := ins.(*ssa.Next); ok {
						if s, ok := st.seen[nx.Iter]; ok {
							return SVal{T: s, Sort: a.seenSort(nx.Iter)}, true
						}
					}
				}
			}
		}
		if mode == "back" && from != nil {
			if v, ok := a.lookupVarFrom(st, from, name, true); ok {
				return v, true
			}
		}
		if v, ok := a.lookupVar(st, li.head, name); ok {
			return v, true
		}
		return fnLookup(name)
	}
	return base
}

// lookupVar resolves a source variable name at block b: allocs by name, then the dominating debug refs / phis.
func (a *Act) lookupVar(st *State, b *ssa.BasicBlock, name string) (SVal, bool) {
	return a.lookupVarFrom(st, b, name, false)
}

func (a *Act) lookupVarFrom(st *State, b *ssa.BasicBlock, name string, includeSelf bool) (SVal, bool) {
	d := a.u.D
	// named allocs
	for _, blk := range a.fn.Blocks {
		for _, ins := range blk.Instrs {
			al, ok := ins.(*ssa.Alloc)
			if !ok || al.Comment != name {
				continue
			}
			v, ok := a.vals[al]
			if !ok {
				continue
			}
			et := derefType(al.Type())
			if v.Loc != nil && v.Loc.Local != nil {
				t, ok := st.locals[al]
				if !ok {
					continue
				}
				return SVal{T: t, Typ: et, Sort: d.SortOf(et)}, true
			}
			if isStructType(et) {
				return SVal{T: v.T, Typ: et, Sort: d.SortOf(et), AtRef: true}, true
			}
			h, hs := d.CellHeap(et)
			return SVal{T: hsel(st.u, st.heap(h, hs), v.T), Typ: et, Sort: d.SortOf(et)}, true
		}
	}
	// walk up the dominator tree
	for blk := b; blk != nil; blk = blk.Idom() {
		for i := len(blk.Instrs) - 1; i >= 0; i-- {
			switch x := blk.Instrs[i].(type) {
			case *ssa.DebugRef:
				if blk == b && !includeSelf {
					continue // instructions of the loop head itself run after the invariant point
				}
				if x.IsAddr {
					continue
				}
				if obj := x.Object(); obj != nil && obj.Name() == name {
					if v, ok := a.vals[x.X]; ok && v.Loc == nil && v.Tuple == nil {
						return SVal{T: v.T, Typ: x.X.Type(), Sort: d.SortOf(x.X.Type()), Fn: v.Fn}, true
					}
					if _, isConst := x.X.(*ssa.Const); isConst {
						v := a.val(x.X)
						return SVal{T: v.T, Typ: x.X.Type(), Sort: d.SortOf(x.X.Type())}, true
					}
				}
			case *ssa.Phi:
				if (blk != b || includeSelf) && x.Comment == name {
					if v, ok := a.vals[x]; ok {
						return SVal{T: v.T, Typ: x.Type(), Sort: d.SortOf(x.Type())}, true
					}
				}
			}
		}
	}
	return SVal{}, false
}

// ---------------------------------------------------------------------------------------
// call by contract

func (a *Act) callByContract(st *State, callee *ssa.Function, fc *FuncContract, args []Val, env []Val, pos tokenPos) Val {
	u := a.u
	key := u.E.KeyOf(callee)
	u.ByContract[key] = true
	if fc.Trusted {
		u.Trusted["trusted contract "+key] = true
	}
	if len(callee.FreeVars) > 0 && len(env) < len(callee.FreeVars) {
		fail("call of closure %s by contract without known bindings", callee)
	}
	for i := range args {
		args[i] = a.firstClass(args[i], "argument of "+fnName(callee))
	}
	for _, v := range args {
		if v.Loc != nil {
			fail("address of %s passed to %s (needs a first-class pointer)", locDesc(v.Loc), callee)
		}
	}
	// A statically known function under contract handed over for a parameter the callee declares `pure`: the callee's
	// contract speaks about it through apply(value, args). The value is replaced by a fresh function value (one
	// per call site: apply is not a function of the heap, so the link below must not be shared between states),
	// and after the call apply(value, x, y) is linked to that function's own contract in the state after the call.
	type pureLink struct {
		fv Term
		fn *ssa.Function
	}
	var links []pureLink
	if len(fc.Pure) > 0 && !a.spec {
		args = append([]Val{}, args...)
		for _, pn := range fc.Pure {
			for i, p := range callee.Params {
				if p.Name() != pn || i >= len(args) || args[i].Fn == nil || len(args[i].Env) > 0 || len(args[i].Fn.FreeVars) > 0 {
					continue
				}
				cfc := u.E.Contracts[args[i].Fn]
				if cfc == nil || cfc.Trusted || cfc.NoFrame || args[i].Fn.Signature.Results().Len() != 1 {
					continue
				}
				fv := u.D.Fresh("fnval", "Int")
				links = append(links, pureLink{fv, args[i].Fn})
				args[i] = Val{T: fv, Typ: args[i].Typ}
			}
		}
	}
	pre := st.clone()
	penv := a.fnEnv(callee, args, env, pre, pre, nil)
	a.bindPure(penv, callee, fc, args)
	// implicit: pointer receiver is non-nil
	if recv := callee.Signature.Recv(); recv != nil && len(args) > 0 {
		if _, isPtr := types.Unalias(recv.Type()).Underlying().(*types.Pointer); isPtr {
			a.oblige(st, "pre", fnName(callee)+":recv", pos, "receiver of "+fnName(callee)+" is non-nil", not(eq(args[0].T, "nil")))
		}
	}
	for _, cl := range fc.Clauses {
		if cl.Kind != "requires" || cl.Loop != 0 {
			continue
		}
		t := a.evalClause(penv, cl)
		detail := fnName(callee)
		if cl.Label != "" {
			detail += "@" + cl.Label
		}
		if !a.spec {
			a.u.Oblige("pre", strings.TrimPrefix(detail, ""), a.pos(pos), "precondition of "+fnName(callee)+": "+cl.Src, st.guard, t, cl.Tags)
		}
	}
	// recursion: variant
	if callee == a.top.fn && a.top.measure0 != "" {
		for _, cl := range fc.Clauses {
			if cl.Kind == "decreases" && cl.Loop == 0 {
				m := a.evalClause(penv, cl)
				a.oblige(st, "decreases", "rec", pos, "recursion variant decreases: "+cl.Src, and(app("<", m, a.top.measure0), app("<=", "0", a.top.measure0)))
			}
		}
	}
	// havoc
	if fc.NoFrame {
		a.havocHeaps(st, false)
	} else if fc.ModCallbacks {
		// effect of the function values handed over: closures with a contract contribute their modifies
		// clauses (evaluated over their captured variables); anything else makes the effect unknown
		known := true
		for i, v := range args {
			if i >= callee.Signature.Params().Len()+btoi(callee.Signature.Recv() != nil) {
				break
			}
			if _, isFn := types.Unalias(v.Typ).Underlying().(*types.Signature); !isFn {
				continue
			}
			cfc := u.E.Contracts[v.Fn]
			if v.Fn == nil || cfc == nil || cfc.NoFrame || cfc.ModCallbacks {
				known = false
				break
			}
		}
		if !known {
			a.havocHeaps(st, false)
		} else {
			for _, v := range args {
				if v.Fn == nil {
					continue
				}
				cfc := u.E.Contracts[v.Fn]
				if cfc == nil {
					continue
				}
				cenv := a.fnEnv(v.Fn, nil, v.Env, st, pre, nil)
				a.havocTargets(st, pre, cenv, v.Fn, cfc)
			}
			na := u.D.Fresh("alloc", "Int")
			u.Fact(app(">=", na, st.alloc))
			st.alloc = na
		}
	} else {
		a.havocTargets(st, pre, penv, callee, fc)
		na := u.D.Fresh("alloc", "Int")
		u.Fact(app(">=", na, st.alloc))
		st.alloc = na
	}
	// ghost state: the output counter and the event trace are not covered by modifies clauses
	{
		if clauseMentions(fc, "outlen") || clauseMentions(fc, "outok") || u.E.mayOutput(callee, map[*ssa.Function]bool{}) {
			st.setHeap(outHeap, "Int", u.D.Fresh("out", "Int"))
			okOld := st.heap(outOKHeap, "Bool")
			okNew := u.D.Fresh("outok", "Bool")
			u.Fact(implies(okNew, okOld)) // once a write has failed the flag stays false
			st.setHeap(outOKHeap, "Bool", okNew)
		}
		// The event trace records the callbacks / traced static calls issued by the body of the function
		// under verification itself (with its inlined helpers). A callee called by contract can add events
		// of the caller only when it can reach one of the caller's callbacks: it shares a callback name
		// with the caller, or it is handed a function value.
		if a.top.fc != nil && a.top.fc.CallbackRank != nil && a.top.hasDynamicCallbacks() && calleeMayTrace(a.top.fc, fc, callee) {
			l0 := st.heap(traceLen, "Int")
			for h, srt := range u.heapSort {
				if _, isTrace := traceSorts[h]; !(isTrace || (strings.HasPrefix(h, "T_arg_") || strings.HasPrefix(h, "T_res") || strings.HasPrefix(h, "T_recv_"))) {
					continue
				}
				oldH := st.heap(h, srt)
				nh := u.D.Fresh(h, srt)
				if h == traceLen {
					u.Fact(app(">=", nh, l0))
				} else {
					u.Fact(fmt.Sprintf("(forall ((i Int)) (! (=> (< i %s) (= (select %s i) (select %s i))) :pattern ((select %s i))))", l0, nh, oldH, nh))
				}
				st.heaps[h] = nh
			}
		}
	}
	res := a.freshResult(st, callee.Signature)
	var rvals []Val
	if res.Tuple != nil {
		rvals = res.Tuple
	} else if res.T != "" {
		rvals = []Val{res}
	}
	qenv := a.fnEnv(callee, args, env, st, pre, rvals)
	a.bindPure(qenv, callee, fc, args)
	ghostNames := map[string]bool{}
	for _, g := range fc.Ghosts {
		ghostNames[g.Name] = true
	}
	for _, cl := range fc.Clauses {
		if cl.Kind != "ensures" {
			continue
		}
		if len(ghostNames) > 0 && mentions(cl.Expr, ghostNames) {
			continue // postconditions over the callee's ghost variables are not visible to callers
		}
		if mentionsTrace(cl.Expr) {
			continue // so are postconditions over the callee's own event trace
		}
		if hasExactTag(cl.Tags, "trusted") {
			u.Trusted["trusted clause of "+strings.TrimPrefix(key, ModulePath+"/")+": "+cl.Src] = true
		}
		st.assume(a.evalClause(qenv, cl))
	}
	for _, l := range links {
		a.linkPureValue(st, l.fv, l.fn)
	}
	if u.smokeOn && !a.spec {
		o := u.Oblige("smoke", "call:"+fnName(callee), a.pos(pos), "state after call is consistent", st.guard, "false", nil)
		o.Smoke = true
	}
	return res
}

// linkPureValue: for all arguments that satisfy fn's preconditions, apply(fv, args) satisfies fn's postconditions
// (those that do not mention the trace), read in the state st.
func (a *Act) linkPureValue(st *State, fv Term, fn *ssa.Function) {
	u := a.u
	d := u.D
	fc := u.E.Contracts[fn]
	*a.top.qnPtr()++
	var binders []string
	var args []Val
	for i, p := range fn.Params {
		v := fmt.Sprintf("pv%d!l%d", i, *a.top.qnPtr())
		binders = append(binders, fmt.Sprintf("(%s %s)", v, d.SortOf(p.Type())))
		args = append(args, Val{T: Term(v), Typ: p.Type()})
	}
	rt := a.applyPure(fv, args, fn.Signature)
	var pres, posts []Term
	nFacts, nConsts := len(u.Facts), d.n
	err := catch(func() {
		env := a.fnEnv(fn, args, nil, st, st, []Val{{T: rt.T, Typ: fn.Signature.Results().At(0).Type()}})
		for _, cl := range fc.Clauses {
			if cl.Loop != 0 || mentionsTrace(cl.Expr) {
				continue
			}
			switch cl.Kind {
			case "requires":
				pres = append(pres, a.evalClause(env, cl))
			case "ensures":
				posts = append(posts, a.evalClause(env, cl))
			}
		}
	})
	side := append([]Term{}, u.Facts[nFacts:]...)
	u.Facts = u.Facts[:nFacts]
	if err != nil || len(posts) == 0 || d.n != nConsts {
		return
	}
	u.Trusted["the function value "+fnName(fn)+" handed over as a pure parameter behaves as its contract says (its result is a function of its arguments in the state after the call)"] = true
	u.Fact(fmt.Sprintf("(forall (%s) (! (=> %s %s) :pattern (%s)))", strings.Join(binders, " "), and(pres...), and(append(side, posts...)...), rt.T))
}

// bindPure: pure function parameters are callable in specifications through the parameter name (handled
// by Env.call via tryIdent + Signature type). Nothing to do beyond purity bookkeeping.
func (a *Act) bindPure(env *Env, callee *ssa.Function, fc *FuncContract, args []Val) {}

// havocTargets havocs the modifies targets of a contract call.
func (a *Act) havocTargets(st, pre *State, penv *Env, callee *ssa.Function, fc *FuncContract) {
	u := a.u
	type tg struct {
		lh    leafHeap
		preds []func(r Term) Term
	}
	byHeap := map[string]*tg{}
	var order []string
	for _, cl := range fc.Clauses {
		if cl.Kind != "modifies" {
			continue
		}
		for _, me := range cl.Mods {
			if id, ok := me.(*EIdent); ok && id.Name == "globals" {
				// package-level variables: every cell heap may change at the addresses of globals (coarse: havoc all)
				a.havocAll(st)
				return
			}
			info, err := a.modTarget(callee, me)
			if err != nil {
				u.Errors = append(u.Errors, fmt.Sprintf("%s: modifies %s: %v", fnName(callee), me, err))
				a.havocAll(st)
				return
			}
			for _, lh := range info.heaps {
				t := byHeap[lh.name]
				if t == nil {
					t = &tg{lh: lh}
					byHeap[lh.name] = t
					order = append(order, lh.name)
				}
				lh := lh
				me := me
				info := info
				t.preds = append(t.preds, func(r Term) Term {
					if lh.addr != nil && info.paramIdx >= 0 && false {
						return "false"
					}
					return a.targetPred(penv, info, lh, me, r)
				})
			}
		}
	}
	sort.Strings(order)
	for _, name := range order {
		t := byHeap[name]
		old := st.heap(name, t.lh.sort)
		nh := u.FreshHeap(name, t.lh.sort)
		var cs []Term
		cs = append(cs, app("<", app("rid", "r"), pre.alloc))
		for _, p := range t.preds {
			cs = append(cs, not(p("r")))
		}
		u.Fact(fmt.Sprintf("(forall ((r Ref)) (! (=> %s (= (select %s r) (select %s r))) :pattern ((select %s r))))", and(cs...), nh, old, nh))
		st.setHeap(name, t.lh.sort, nh)
	}
}

func (a *Act) targetPred(env *Env, info *modTargetInfo, lh leafHeap, me Expr, r Term) Term {
	var t Term
	if err := catch(func() { t = info.predFor(env, lh, r) }); err != nil {
		a.u.Errors = append(a.u.Errors, fmt.Sprintf("modifies %s: %v", me, err))
		return "true"
	}
	return t
}

// predFor: is r an address of heap lh covered by this target?
func (info *modTargetInfo) predFor(env *Env, lh leafHeap, r Term) Term {
	return info.pred(env, r)
}

// ---------------------------------------------------------------------------------------
// verification of one function against its contract

type FuncResult struct {
	Key   string
	Unit  *Unit
	Error string
}

func (e *Engine) VerifyFunc(fn *ssa.Function, fc *FuncContract, smoke bool) (res *FuncResult) {
	key := e.KeyOf(fn)
	short := strings.TrimPrefix(key, ModulePath+"/")
	u := NewUnit(e, short)
	u.smokeOn = smoke
	res = &FuncResult{Key: key, Unit: u}
	defer func() {
		if r := recover(); r != nil {
			if us, ok := r.(unsupported); ok {
				res.Error = us.msg
				return
			}
			panic(r)
		}
	}()
	u.loadAxioms()
	if fc.MayPanic {
		u.Warnings = append(u.Warnings, short+": explicit panic statements are documented behaviour ('panics' clause), not proved unreachable")
	}
	a := &Act{u: u, fn: fn, fc: fc, vals: map[ssa.Value]Val{}, pureFns: map[ssa.Value]bool{}, stack: []*ssa.Function{fn}}
	a.top = a
	a.qn = new(int)
	a.preRegisterTraced()
	st := &State{u: u, guard: "true", heaps: map[string]Term{}, locals: map[*ssa.Alloc]Term{}, alloc: u.alloc0, seen: map[ssa.Value]Term{}}
	for _, p := range fn.Params {
		c := u.D.Const("p_"+p.Name(), u.D.SortOf(p.Type()))
		v := Val{T: c, Typ: p.Type()}
		a.vals[p] = v
		a.params = append(a.params, v)
		if al := st.allocated(c, p.Type()); al != "true" {
			u.Fact(al)
		}
		for _, pn := range fc.Pure {
			if pn == p.Name() {
				a.pureFns[p] = true
			}
		}
	}
	for _, fv := range fn.FreeVars {
		c := u.D.Const("fv_"+fv.Name(), "Ref")
		v := Val{T: c, Typ: fv.Type()}
		a.vals[fv] = v
		a.free = append(a.free, v)
		u.Fact(and(app("<", app("rid", c), u.alloc0), not(eq(c, "nil"))))
	}
	// distinct captured cells
	if len(a.free) > 1 {
		var ts []Term
		for _, f := range a.free {
			ts = append(ts, f.T)
		}
		u.Fact(app("distinct", ts...))
	}
	// ghost variables
	for _, g := range fc.Ghosts {
		srt, _ := ghostSort(g.Sort)
		genv := a.fnEnv(fn, a.params, a.free, st, st, nil)
		var t Term
		if err := catch(func() {
			v := genv.value(genv.eval(g.Init))
			t = v.T
			if v.Sort == "Int" && srt == "Real" {
				t = toReal(t)
			}
		}); err != nil {
			u.Errors = append(u.Errors, fmt.Sprintf("%s: ghost %s: %v", u.Name, g.Name, err))
			continue
		}
		if srt == "Ref" && t == "0" {
			t = "nil"
		}
		if strings.HasPrefix(srt, "(Array") && (t == "0" || t == "0.0") {
			z := "0"
			if strings.HasSuffix(srt, "Real)") {
				z = "0.0"
			}
			t = fmt.Sprintf("((as const %s) %s)", srt, z)
		}
		st.setHeap("G_"+g.Name, srt, t)
	}
	a.entry = st.clone()
	u.entryEnv = func() *Env { return a.fnEnv(fn, a.params, a.free, a.entry, a.entry, nil) }
	env := a.fnEnv(fn, a.params, a.free, st, a.entry, nil)
	// implicit receiver non-nil
	if recv := fn.Signature.Recv(); recv != nil && len(a.params) > 0 {
		if _, isPtr := types.Unalias(recv.Type()).Underlying().(*types.Pointer); isPtr {
			u.Fact(not(eq(a.params[0].T, "nil")))
		}
	}
	for _, cl := range fc.Clauses {
		if cl.Kind == "requires" && cl.Loop == 0 {
			u.Fact(a.evalClause(env, cl))
		}
		if cl.Kind == "decreases" && cl.Loop == 0 {
			m := a.evalClause(env, cl)
			c := u.D.Fresh("measure", "Int")
			u.Fact(eq(c, m))
			a.measure0 = c
		}
	}
	if smoke {
		o := u.Oblige("smoke", "requires", e.Pos(fn.Pos()), "preconditions are satisfiable", "true", "false", nil)
		o.Smoke = true
	}
	if fc.Trusted {
		return res
	}
	out, vals := a.run(st)
	if out == nil {
		return res
	}
	// postconditions
	qenv := a.fnEnv(fn, a.params, a.free, out, a.entry, vals)
	for _, cl := range fc.Clauses {
		if cl.Kind != "ensures" {
			continue
		}
		detail := ""
		if cl.Label != "" {
			detail = "@" + cl.Label
		}
		if hasExactTag(cl.Tags, "trusted") {
			// a postcondition marked [trusted] is assumed at call sites but not proved here (the rest of the
			// contract is): it is reported as an assumption of every check that uses the function
			u.Trusted["trusted clause of "+short+" "+detail+": "+cl.Src] = true
			continue
		}
		t := a.evalClause(qenv, cl)
		u.Oblige("post", detail, e.Pos(fn.Pos()), "postcondition: "+cl.Src, out.guard, t, cl.Tags)
	}
	// frame
	if !fc.NoFrame && !fc.ModCallbacks {
		a.frameObligations(out, fc)
	}
	return res
}

func (a *Act) frameObligations(out *State, fc *FuncContract) {
	u := a.u
	penv := a.fnEnv(a.fn, a.params, a.free, a.entry, a.entry, nil)
	targets := map[string][]func(r Term) Term{}
	globalsFree := false
	for _, cl := range fc.Clauses {
		if cl.Kind != "modifies" {
			continue
		}
		for _, me := range cl.Mods {
			if id, ok := me.(*EIdent); ok && id.Name == "globals" {
				globalsFree = true
				continue
			}
			info, err := a.modTarget(a.fn, me)
			if err != nil {
				u.Errors = append(u.Errors, fmt.Sprintf("%s: modifies %s: %v", u.Name, me, err))
				continue
			}
			for _, lh := range info.heaps {
				lh, me, info := lh, me, info
				targets[lh.name] = append(targets[lh.name], func(r Term) Term { return a.targetPred(penv, info, lh, me, r) })
			}
		}
	}
	var names []string
	for n := range out.heaps {
		names = append(names, n)
	}
	sort.Strings(names)
	for _, n := range names {
		srt := u.heapSort[n]
		if _, isTrace := traceSorts[n]; isTrace || strings.HasPrefix(n, "G_") || strings.HasPrefix(n, "T_arg_") || strings.HasPrefix(n, "T_res") || strings.HasPrefix(n, "T_recv_") || n == outHeap || n == outOKHeap {
			continue // ghost state
		}
		init := u.heapInit(n, srt)
		if out.heaps[n] == init {
			continue
		}
		cs := []Term{app("<", app("rid", "r"), u.alloc0), app("<", "0", app("rid", "r"))}
		if globalsFree {
			for c, srt := range u.D.consts {
				if strings.HasPrefix(c, "G_") && srt == "Ref" && !strings.Contains(c, "!") {
					cs = append(cs, not(eq("r", c)))
				}
			}
		}
		for _, p := range targets[n] {
			cs = append(cs, not(p("r")))
		}
		goal := fmt.Sprintf("(forall ((r Ref)) (=> %s (= (select %s r) (select %s r))))", and(cs...), out.heaps[n], init)
		u.Oblige("frame", n, u.E.Pos(a.fn.Pos()), "only the modifies targets of heap "+n+" change", out.guard, goal, nil)
	}
}

func ghostSort(s string) (string, types.Type) {
	switch s {
	case "int":
		return "Int", tInt
	case "real":
		return "Real", nil
	case "bool":
		return "Bool", tBool
	case "ref":
		return "Ref", nil
	case "[]int":
		return "(Array Int Int)", tInt
	case "[]real":
		return "(Array Int Real)", nil
	}
	fail("unknown ghost sort %s", s)
	return "", nil
}

func (u *Unit) loadAxioms() {
	// axioms are translated lazily at query time (they may mention spec functions declared later);
	// here we only prepare the environment
}

// clauseMentions: some clause of the contract calls the given specification builtin.
func clauseMentions(fc *FuncContract, fn string) bool {
	for _, cl := range fc.Clauses {
		if cl.Expr != nil && exprMentions(cl.Expr, fn) {
			return true
		}
	}
	return false
}

// exprMentions: the expression calls the given specification builtin.
func exprMentions(e0 Expr, fn string) bool {
	var has func(e Expr) bool
	has = func(e Expr) bool {
		switch v := e.(type) {
		case *ECall:
			if v.Fn == fn {
				return true
			}
			for _, x := range v.Args {
				if has(x) {
					return true
				}
			}
			if v.Target != nil {
				return has(v.Target)
			}
		case *EUnary:
			return has(v.X)
		case *EBinary:
			return has(v.X) || has(v.Y)
		case *ESel:
			return has(v.X)
		case *EIndex:
			return has(v.X) || has(v.I)
		case *EQuant:
			return has(v.Body)
		case *EOld:
			return has(v.X)
		case *ECond:
			return has(v.C) || has(v.A) || has(v.B)
		case *EStruct:
			for _, x := range v.Values {
				if has(x) {
					return true
				}
			}
		}
		return false
	}
	return has(e0)
}

var outputIntrinsics = map[string]bool{"io.WriteString": true, "fmt.Fprintf": true, "fmt.Fprint": true, "fmt.Fprintln": true,
	"fmt.Printf": true, "fmt.Println": true, "(*github.com/fatih/color.Color).Fprintf": true}

// mayOutput: the function can reach a modelled output call through static calls.
func (e *Engine) mayOutput(fn *ssa.Function, seen map[*ssa.Function]bool) bool {
	if seen[fn] {
		return false
	}
	seen[fn] = true
	if outputIntrinsics[intrinsicKey(fn)] {
		return true
	}
	for _, b := range fn.Blocks {
		for _, ins := range b.Instrs {
			c, ok := ins.(ssa.CallInstruction)
			if !ok {
				continue
			}
			com := c.Common()
			if com.IsInvoke() {
				continue
			}
			switch v := com.Value.(type) {
			case *ssa.Function:
				if e.mayOutput(v, seen) {
					return true
				}
			case *ssa.MakeClosure:
				if e.mayOutput(v.Fn.(*ssa.Function), seen) {
					return true
				}
			}
		}
	}
	return false
}

// typeHasPointerStep: the selector chain e (x.a.b) dereferences a pointer other than the root x.
func typeHasPointerStep(a *Act, callee *ssa.Function, e Expr) bool {
	for {
		se, ok := e.(*ESel)
		if !ok {
			return false
		}
		if _, isId := se.X.(*EIdent); !isId {
			t := a.specType(callee, se.X)
			if _, isPtr := types.Unalias(t).Underlying().(*types.Pointer); isPtr {
				return true
			}
		}
		// the field selected here: if it is a pointer and we continue selecting through it ...
		e = se.X
	}
}

// preRegisterTraced: the ghost arrays of traced static calls (arguments, receiver, results) get their
// element types before execution starts, so that invariants evaluated at a loop head may mention events
// that only the loop body produces.
func (a *Act) preRegisterTraced() {
	fc := a.fc
	if fc == nil || fc.CallbackRank == nil {
		return
	}
	if a.u.traceArgType == nil {
		a.u.traceArgType = map[string]types.Type{}
	}
	reg := func(key string, t types.Type) {
		if _, ok := a.u.traceArgType[key]; ok || t == nil {
			return
		}
		switch a.u.D.SortOf(t) {
		case "":
			return
		}
		if _, isTuple := t.(*types.Tuple); isTuple {
			return
		}
		a.u.traceArgType[key] = t
	}
	for _, b := range a.fn.Blocks {
		for _, ins := range b.Instrs {
			c, ok := ins.(ssa.CallInstruction)
			if !ok {
				continue
			}
			callee := c.Common().StaticCallee()
			if callee == nil {
				continue
			}
			name := callee.Name()
			if o := callee.Origin(); o != nil {
				name = o.Name()
			}
			if _, traced := fc.CallbackRank[name]; !traced {
				continue
			}
			if a.staticTraced == nil {
				a.staticTraced = map[string]bool{}
			}
			a.staticTraced[name] = true
			sig := callee.Signature
			for i := 0; i < sig.Params().Len(); i++ {
				reg(fmt.Sprintf("%s_%d", name, i), sig.Params().At(i).Type())
			}
			if sig.Recv() != nil {
				reg(name+"_recv", sig.Recv().Type())
			}
			if sig.Results().Len() > 0 {
				reg(name+"_res", sig.Results().At(0).Type())
			}
			if sig.Results().Len() > 1 {
				reg(name+"_res1", sig.Results().At(1).Type())
			}
		}
	}
}

func mentionsTrace(e Expr) bool {
	for _, f := range []string{"tlen", "tkind", "terr", "targ", "targ0", "targ1", "tres", "tres1", "trecv"} {
		if exprMentions(e, f) {
			return true
		}
	}
	return false
}

func calleeMayTrace(caller, calleeFC *FuncContract, callee *ssa.Function) bool {
	for _, c := range calleeFC.Callbacks {
		if _, ok := caller.CallbackRank[c]; ok {
			return true
		}
	}
	ps := callee.Signature.Params()
	for i := 0; i < ps.Len(); i++ {
		if _, ok := types.Unalias(ps.At(i).Type()).Underlying().(*types.Signature); ok {
			return true
		}
	}
	return false
}

// hasDynamicCallbacks: some declared callback of the function under verification is not a statically
// called function (it is a function parameter, a func-typed field or an interface method), so code
// outside the body can invoke it when it gets hold of the value.
func (a *Act) hasDynamicCallbacks() bool {
	if a.fc == nil {
		return false
	}
	for _, c := range a.fc.Callbacks {
		if !a.staticTraced[c] {
			return true
		}
	}
	return false
}

func btoi(b bool) int {
	if b {
		return 1
	}
	return 0
}

func hasExactTag(tags []string, t string) bool {
	for _, x := range tags {
		if x == t {
			return true
		}
	}
	return false
}
