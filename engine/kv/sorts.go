package kv

import (
	"fmt"
	"go/types"
	"sort"
	"strings"
)

// Decls accumulates the SMT declarations used by the queries of one verification unit.
type Decls struct {
	order   []string        // declaration text in order
	seen    map[string]bool // by symbol
	structs map[string]*StructInfo
	consts  map[string]string // const name -> sort
	n       int
	strlits map[string]string // literal -> const
	tags    map[string]int    // dynamic type tag numbers
	tagList []string
	funcIDs map[string]int
	used    map[string]bool // theory functions used (dmul, ddiv): their axioms are included
}

type StructInfo struct {
	Sort   string
	T      *types.Struct
	Named  types.Type
	Fields []FieldInfo
}

type FieldInfo struct {
	Name string
	Type types.Type
	Sel  string // selector function
}

func NewDecls() *Decls {
	return &Decls{seen: map[string]bool{}, structs: map[string]*StructInfo{}, consts: map[string]string{}, strlits: map[string]string{}, tags: map[string]int{}, funcIDs: map[string]int{}, used: map[string]bool{}}
}

func (d *Decls) add(sym, text string) {
	if d.seen[sym] {
		return
	}
	d.seen[sym] = true
	d.order = append(d.order, text)
}

func (d *Decls) Text() string { return strings.Join(d.order, "\n") + "\n" }

func (d *Decls) Fresh(prefix, sort string) Term {
	d.n++
	name := fmt.Sprintf("%s!%d", sanitize(prefix), d.n)
	d.add(name, fmt.Sprintf("(declare-const %s %s)", name, sort))
	d.consts[name] = sort
	return name
}

func (d *Decls) Const(name, sort string) Term {
	name = sanitize(name)
	d.add(name, fmt.Sprintf("(declare-const %s %s)", name, sort))
	d.consts[name] = sort
	return name
}

func (d *Decls) Fun(name string, args []string, ret string) string {
	name = sanitize(name)
	d.add(name, fmt.Sprintf("(declare-fun %s (%s) %s)", name, strings.Join(args, " "), ret))
	return name
}

func sanitize(s string) string {
	var b strings.Builder
	for _, c := range s {
		switch {
		case c >= 'a' && c <= 'z', c >= 'A' && c <= 'Z', c >= '0' && c <= '9', c == '_', c == '!', c == '.', c == '$':
			b.WriteRune(c)
		case c == '*':
			b.WriteString("P")
		case c == '[' || c == ']' || c == ',' || c == ' ' || c == '(' || c == ')' || c == '/' || c == '{' || c == '}' || c == ';':
			b.WriteRune('_')
		default:
			b.WriteString(fmt.Sprintf("u%x", c))
		}
	}
	return b.String()
}

func isNamed(t types.Type, pkg, name string) bool {
	n, ok := types.Unalias(t).(*types.Named)
	if !ok {
		return false
	}
	o := n.Obj()
	return o.Name() == name && o.Pkg() != nil && o.Pkg().Path() == pkg
}

func isTime(t types.Type) bool {
	if isNamed(t, "time", "Time") {
		return true
	}
	// a defined type over time.Time (type DateFlag time.Time): the same representation
	if st, ok := types.Unalias(t).Underlying().(*types.Struct); ok && st.NumFields() == 3 &&
		st.Field(0).Name() == "wall" && st.Field(1).Name() == "ext" && st.Field(2).Name() == "loc" {
		return true
	}
	return false
}
func isDecimal(t types.Type) bool { return isNamed(t, "github.com/shopspring/decimal", "Decimal") }

// opaque named struct types handled as abstract refs/values
func isOpaqueStruct(t types.Type) bool {
	if isTime(t) || isDecimal(t) {
		return false
	}
	n, ok := types.Unalias(t).(*types.Named)
	if !ok || n.Obj().Pkg() == nil {
		return false
	}
	p := n.Obj().Pkg().Path()
	if strings.HasPrefix(p, ModulePath) {
		return false
	}
	if p == "encoding/csv" && n.Obj().Name() == "Reader" {
		return false // its exported configuration fields (FieldsPerRecord, ...) are read and written by the importers
	}
	_, isStruct := n.Underlying().(*types.Struct)
	return isStruct
}

// SortOf maps a Go type to its SMT sort, declaring struct datatypes on demand.
func (d *Decls) SortOf(t types.Type) string {
	t = types.Unalias(t)
	if isTime(t) {
		return "Int"
	}
	if isDecimal(t) {
		return "Real"
	}
	switch u := t.Underlying().(type) {
	case *types.Basic:
		switch {
		case u.Info()&types.IsBoolean != 0:
			return "Bool"
		case u.Info()&types.IsInteger != 0:
			return "Int"
		case u.Info()&types.IsFloat != 0:
			return "Real"
		case u.Info()&types.IsString != 0:
			return "Str"
		case u.Kind() == types.UnsafePointer:
			return "Ref"
		case u.Kind() == types.UntypedNil:
			return "Ref"
		}
		return "Int"
	case *types.Pointer, *types.Map, *types.Chan:
		return "Ref"
	case *types.Signature:
		return "Int"
	case *types.Slice:
		return "Slice"
	case *types.Interface:
		return "Iface"
	case *types.Struct:
		if isOpaqueStruct(t) {
			// external struct values (strings.Builder, sync.RWMutex, ...) are opaque Ints
			return "Int"
		}
		return d.structInfo(t).Sort
	case *types.Array:
		return "(Array Int " + d.SortOf(u.Elem()) + ")"
	case *types.Tuple:
		return "Int"
	case *types.TypeParam:
		return "Int"
	}
	return "Int"
}

func structKey(t types.Type) string {
	if n, ok := types.Unalias(t).(*types.Named); ok {
		pkg := ""
		if n.Obj().Pkg() != nil {
			pkg = n.Obj().Pkg().Name() + "."
		}
		return sanitize(pkg + typeBaseName(n))
	}
	return sanitize("anon_" + t.String())
}

func (d *Decls) structInfo(t types.Type) *StructInfo {
	key := structKey(t)
	if si, ok := d.structs[key]; ok {
		return si
	}
	st := t.Underlying().(*types.Struct)
	si := &StructInfo{Sort: "S_" + key, T: st, Named: t}
	d.structs[key] = si
	var fl []string
	for i := 0; i < st.NumFields(); i++ {
		f := st.Field(i)
		fs := d.SortOf(f.Type())
		sel := fmt.Sprintf("%s_%s", si.Sort, sanitize(f.Name()))
		si.Fields = append(si.Fields, FieldInfo{Name: f.Name(), Type: f.Type(), Sel: sel})
		selIndex[sel] = i
		fl = append(fl, fmt.Sprintf("(%s %s)", sel, fs))
	}
	if len(fl) == 0 {
		d.add(si.Sort, fmt.Sprintf("(declare-datatypes ((%s 0)) (((mk_%s))))", si.Sort, si.Sort))
	} else {
		d.add(si.Sort, fmt.Sprintf("(declare-datatypes ((%s 0)) (((mk_%s %s))))", si.Sort, si.Sort, strings.Join(fl, " ")))
	}
	return si
}

func isStructType(t types.Type) bool {
	t = types.Unalias(t)
	if isTime(t) || isDecimal(t) || isOpaqueStruct(t) {
		return false
	}
	_, ok := t.Underlying().(*types.Struct)
	return ok
}

func isArrayType(t types.Type) bool {
	_, ok := types.Unalias(t).Underlying().(*types.Array)
	return ok
}

// Zero value of a Go type.
func (d *Decls) Zero(t types.Type) Term {
	switch s := d.SortOf(t); s {
	case "Int":
		return "0"
	case "Bool":
		return "false"
	case "Real":
		return "0.0"
	case "Str":
		return "str_empty"
	case "Ref":
		return "nil"
	case "Slice":
		return "nilslice"
	case "Iface":
		return "niliface"
	default:
		if isStructType(t) {
			si := d.structInfo(t)
			if len(si.Fields) == 0 {
				return "mk_" + si.Sort
			}
			var as []Term
			for _, f := range si.Fields {
				as = append(as, d.Zero(f.Type))
			}
			return app("mk_"+si.Sort, as...)
		}
		if a, ok := types.Unalias(t).Underlying().(*types.Array); ok {
			return d.ConstArray(s, d.Zero(a.Elem()))
		}
		return "0"
	}
}

// Heap array names ------------------------------------------------------------------------

// FieldHeap names the heap array of a leaf field of a struct type.
func (d *Decls) FieldHeap(st types.Type, idx int) (name string, sort string) {
	si := d.structInfo(st)
	f := si.Fields[idx]
	name = fmt.Sprintf("H_%s_%s", strings.TrimPrefix(si.Sort, "S_"), sanitize(f.Name))
	return name, "(Array Ref " + d.SortOf(f.Type) + ")"
}

// CellHeap names the heap array of first-class cells of a leaf type (slice elements, boxed variables).
func (d *Decls) CellHeap(t types.Type) (name string, sort string) {
	s := d.SortOf(t)
	return "C_" + sanitize(shortType(types.Unalias(t))), "(Array Ref " + s + ")"
}

func (d *Decls) MapHeaps(m *types.Map) (dom, val, ks, vs string) {
	ks = d.SortOf(m.Key())
	vs = d.SortOf(m.Elem())
	id := sanitize(ks + "_" + vs)
	return "MD_" + id, "MV_" + id, ks, vs
}

// StrLit returns the constant for a string literal.
func (d *Decls) StrLit(s string) Term {
	if s == "" {
		return "str_empty"
	}
	if c, ok := d.strlits[s]; ok {
		return c
	}
	name := fmt.Sprintf("strlit!%d", len(d.strlits))
	d.add(name, fmt.Sprintf("(declare-const %s Str)", name))
	d.strlits[s] = name
	return name
}

// StrLitFacts: lengths, bytes and pairwise distinctness of the literals used.
func (d *Decls) StrLitFacts() []Term {
	var out []Term
	if d.seen["utf8_count"] {
		out = append(out, eq(app("utf8_count", "str_empty"), "0"))
	}
	var names []string
	var lits []string
	for s := range d.strlits {
		lits = append(lits, s)
	}
	sort.Strings(lits)
	for _, s := range lits {
		c := d.strlits[s]
		names = append(names, c)
		out = append(out, eq(app("str_len", c), intLit(int64(len(s)))))
		if d.seen["utf8_count"] {
			ascii := true
			for i := 0; i < len(s); i++ {
				if s[i] >= 0x80 {
					ascii = false
				}
			}
			if ascii {
				out = append(out, eq(app("utf8_count", c), intLit(int64(len(s)))))
			}
		}
		if len(s) <= 16 {
			for i := 0; i < len(s); i++ {
				out = append(out, eq(app("str_at", c, intLit(int64(i))), intLit(int64(s[i]))))
			}
		}
	}
	if len(names) > 1 {
		out = append(out, app("distinct", append(names, "str_empty")...))
	}
	return out
}

// canonType removes aliases (type Price = price.Price) so that a type reached through an alias and the
// same type written directly get the same dynamic type tag.
func canonType(t types.Type) types.Type {
	switch u := types.Unalias(t).(type) {
	case *types.Pointer:
		return types.NewPointer(canonType(u.Elem()))
	case *types.Slice:
		return types.NewSlice(canonType(u.Elem()))
	case *types.Map:
		return types.NewMap(canonType(u.Key()), canonType(u.Elem()))
	default:
		return u
	}
}

func (d *Decls) TypeTag(t types.Type) int {
	k := types.TypeString(canonType(t), nil)
	if n, ok := d.tags[k]; ok {
		return n
	}
	n := len(d.tags) + 1
	d.tags[k] = n
	d.tagList = append(d.tagList, k)
	return n
}

func (d *Decls) FuncID(key string) int {
	if n, ok := d.funcIDs[key]; ok {
		return n
	}
	n := len(d.funcIDs) + 1
	d.funcIDs[key] = n
	return n
}

// ConstArray returns the constant array of the given sort. Solvers accept "as const" only with a
// value; for other element terms (str_empty, ...) a named array with a defining axiom is used.
func (d *Decls) ConstArray(sort string, elem Term) Term {
	v := literalValue(elem)
	if v != "" {
		return fmt.Sprintf("((as const %s) %s)", sort, v)
	}
	name := "constarr!" + sanitize(sort+"_"+elem)
	ks := "Int"
	if _, args := topArgs(sort); len(args) == 2 {
		ks = args[0]
	}
	if !d.seen[name] {
		d.add(name, fmt.Sprintf("(declare-const %s %s)\n(assert (forall ((i "+ks+")) (! (= (select %s i) %s) :pattern ((select %s i)))))", name, sort, name, elem, name))
	}
	return name
}

// literalValue expands the prelude's defined constants so that the term is a value; "" if it is not one.
func literalValue(t Term) Term {
	r := strings.NewReplacer("nilslice", "(mkslice (mkref 0 pnil) 0 0 0)", "niliface", "(mkiface 0 (mkref 0 pnil))")
	t = r.Replace(t)
	// "nil" as a whole token
	var b strings.Builder
	for i := 0; i < len(t); {
		if strings.HasPrefix(t[i:], "nil") && (i == 0 || t[i-1] == ' ' || t[i-1] == '(') && (i+3 == len(t) || t[i+3] == ' ' || t[i+3] == ')') {
			b.WriteString("(mkref 0 pnil)")
			i += 3
			continue
		}
		b.WriteByte(t[i])
		i++
	}
	t = b.String()
	if strings.Contains(t, "str_empty") || strings.Contains(t, "!") {
		return ""
	}
	return t
}

// StrLt declares the string order on first use.
func (d *Decls) StrLt() string {
	d.add("str_lt", StrLtDecl)
	return "str_lt"
}

// Trunc8 declares the truncation function on first use.
func (d *Decls) Trunc8() string {
	d.add("trunc8", Trunc8Decl)
	return "trunc8"
}
