package kv

import (
	"fmt"
	"go/types"
	"sort"
	"strings"

	"golang.org/x/tools/go/ssa"
)

// VerifyLemma proves a pure formula lemma from the contract files.
func (e *Engine) VerifyLemma(name string) (*Unit, error) {
	for _, l := range e.Lemmas {
		if l.Name != name {
			continue
		}
		if l.Commute {
			return e.verifyCommute(l)
		}
		u := NewUnit(e, "lemma:"+name)
		a := &Act{u: u, spec: true}
		a.top = a
		st := &State{u: u, guard: "true", heaps: map[string]Term{}, alloc: u.alloc0}
		env := &Env{a: a, u: u, cur: st, old: st, pkg: e.TypesPkgs[l.Pkg], bound: map[string]SVal{}, qn: new(int)}
		var t Term
		if err := catch(func() { t = env.eval(l.Expr).T }); err != nil {
			return nil, fmt.Errorf("lemma %s: %v", name, err)
		}
		u.Oblige("lemma", name, "", "lemma: "+l.Src, "true", t, l.Tags)
		return u, nil
	}
	return nil, fmt.Errorf("lemma %s not found", name)
}

// verifyCommute: the function is called twice by contract, with two sets of arguments, in both orders from
// one and the same state. Obligations: the precondition of the second call holds after the first (either
// order); both orders agree on acceptance (all error results nil); when accepted, every heap ends up equal.
// Free variables of a closure and the parameters named `shared` have the same value in both calls.
func (e *Engine) verifyCommute(l *Lemma) (*Unit, error) {
	var fn *ssa.Function
	for _, k := range []string{l.Pkg + "." + l.FuncKey, l.FuncKey} {
		if f := e.FuncByKey[k]; f != nil {
			fn = f
		}
	}
	if fn == nil {
		return nil, fmt.Errorf("commute %s: function %s not found", l.Name, l.FuncKey)
	}
	fc := e.Contracts[fn]
	if fc == nil {
		return nil, fmt.Errorf("commute %s: %s has no contract", l.Name, l.FuncKey)
	}
	u := NewUnit(e, "commute:"+l.Name)
	var err error
	if cerr := catch(func() { err = e.commuteBody(u, l, fn, fc) }); cerr != nil {
		return nil, fmt.Errorf("commute %s: %v", l.Name, cerr)
	}
	return u, err
}

func (e *Engine) commuteBody(u *Unit, l *Lemma, fn *ssa.Function, fc *FuncContract) error {
	u.loadAxioms()
	a := &Act{u: u, fn: fn, vals: map[ssa.Value]Val{}, pureFns: map[ssa.Value]bool{}, stack: []*ssa.Function{}}
	a.top = a
	a.qn = new(int)
	s0 := &State{u: u, guard: "true", heaps: map[string]Term{}, locals: map[*ssa.Alloc]Term{}, alloc: u.alloc0, seen: map[ssa.Value]Term{}}
	a.entry = s0
	shared := map[string]bool{}
	for _, n := range l.Shared {
		shared[n] = true
	}
	mk := func(suffix string) []Val {
		var vs []Val
		for _, p := range fn.Params {
			name := "c_" + p.Name() + suffix
			if shared[p.Name()] {
				name = "c_" + p.Name()
			}
			c := u.D.Const(name, u.D.SortOf(p.Type()))
			if al := s0.allocated(c, p.Type()); al != "true" {
				u.Fact(al)
			}
			vs = append(vs, Val{T: c, Typ: p.Type()})
		}
		return vs
	}
	args1, args2 := mk("1"), mk("2")
	if fn.Signature.Recv() != nil && len(args1) > 0 && u.D.SortOf(fn.Params[0].Type()) == "Ref" {
		u.Fact(not(eq(args1[0].T, "nil")))
		u.Fact(not(eq(args2[0].T, "nil")))
	}
	var free []Val
	for _, fv := range fn.FreeVars {
		t := derefType(fv.Type())
		c := u.D.Const("c_fv_"+fv.Name(), u.D.SortOf(t))
		if al := s0.allocated(c, t); al != "true" {
			u.Fact(al)
		}
		free = append(free, Val{T: c, Typ: t})
	}
	// both argument sets satisfy the precondition in the common start state
	for _, args := range [][]Val{args1, args2} {
		env := a.fnEnv(fn, args, free, s0, s0, nil)
		for _, cl := range fc.Clauses {
			if cl.Kind == "requires" {
				u.Fact(a.evalClause(env, cl))
			}
		}
	}
	if l.Given != nil {
		// the extra hypothesis talks about name1 / name2
		env := &Env{a: a, u: u, cur: s0, old: s0, pkg: e.TypesPkgs[l.Pkg], bound: map[string]SVal{}, qn: a.qn, fn: fn}
		env.lookup = func(name string) (SVal, bool) {
			for i, p := range fn.Params {
				if name == p.Name()+"1" {
					return SVal{T: args1[i].T, Typ: p.Type(), Sort: u.D.SortOf(p.Type())}, true
				}
				if name == p.Name()+"2" || name == p.Name() {
					return SVal{T: args2[i].T, Typ: p.Type(), Sort: u.D.SortOf(p.Type())}, true
				}
			}
			for i, fv := range fn.FreeVars {
				if name == fv.Name() {
					t := derefType(fv.Type())
					return SVal{T: free[i].T, Typ: t, Sort: u.D.SortOf(t)}, true
				}
			}
			return SVal{}, false
		}
		env.oldLookup = env.lookup
		u.Fact(env.eval(l.Given).T)
	}
	run := func(first, second []Val) (*State, Term) {
		st := s0.clone()
		ok := Term("true")
		for _, args := range [][]Val{first, second} {
			cp := append([]Val{}, args...)
			res := a.callByContract(st, fn, fc, cp, free, fn.Pos())
			n := fn.Signature.Results().Len()
			if n > 0 && u.D.SortOf(fn.Signature.Results().At(n-1).Type()) == "Iface" {
				last := res
				if res.Tuple != nil {
					last = res.Tuple[n-1]
				}
				ok = and(ok, eq(app("itag", last.T), "0"))
			}
		}
		return st, ok
	}
	sa, okA := run(args1, args2)
	sb, okB := run(args2, args1)
	u.Oblige("lemma", l.Name+":verdict", e.Pos(fn.Pos()), "both orders agree on acceptance (f(x); f(y) accepted <=> f(y); f(x) accepted)", "true", eq(okA, okB), l.Tags)
	var names []string
	for n := range u.heapSort {
		if !isGhostHeap(n) {
			names = append(names, n)
		}
	}
	sort.Strings(names)
	for _, n := range names {
		ha, hb := sa.heap(n, u.heapSort[n]), sb.heap(n, u.heapSort[n])
		if ha == hb {
			continue
		}
		goal := eq(ha, hb)
		if strings.HasPrefix(n, "MV_") {
			// map values are compared on the (common) domain only: the value array keeps stale entries of deleted keys
			dn := "MD_" + strings.TrimPrefix(n, "MV_")
			if ds, ok := u.heapSort[dn]; ok {
				ks := arrayKeySort(strings.TrimSuffix(strings.TrimPrefix(ds, "(Array Ref "), ")"))
				da := sa.heap(dn, ds)
				goal = fmt.Sprintf("(forall ((r Ref) (k %s)) (=> (and (< (rid r) %s) (select (select %s r) k)) (= (select (select %s r) k) (select (select %s r) k))))", ks, u.alloc0, da, ha, hb)
			}
		} else if strings.HasPrefix(u.heapSort[n], "(Array Ref") {
			// objects allocated during the calls may be numbered differently in the two orders: compare what existed before
			goal = fmt.Sprintf("(forall ((r Ref)) (=> (< (rid r) %s) (= (select %s r) (select %s r))))", u.alloc0, ha, hb)
		}
		u.Oblige("lemma", l.Name+":state:"+n, e.Pos(fn.Pos()), "when both orders are accepted they end in the same state (heap "+n+")", and(okA, okB), goal, l.Tags)
	}
	_ = types.Typ
	return nil
}

// arrayKeySort: the index sort of "(Array K V)" (K may itself be parenthesised).
func arrayKeySort(s string) string {
	s = strings.TrimPrefix(strings.TrimSpace(s), "(Array ")
	if strings.HasPrefix(s, "(") {
		d := 0
		for i, c := range s {
			if c == '(' {
				d++
			} else if c == ')' {
				d--
				if d == 0 {
					return s[:i+1]
				}
			}
		}
	}
	if i := strings.Index(s, " "); i > 0 {
		return s[:i]
	}
	return s
}
