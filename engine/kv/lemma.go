package kv

import "fmt"

// VerifyLemma proves a pure formula lemma from the contract files.
func (e *Engine) VerifyLemma(name string) (*Unit, error) {
	for _, l := range e.Lemmas {
		if l.Name != name {
			continue
		}
		u := NewUnit(e, "lemma:"+name)
		a := &Act{u: u, spec: true}
		a.top = a
		st := &State{u: u, guard: "true", heaps: map[string]Term{}, alloc: u.alloc0}
		env := &Env{a: a, u: u, cur: st, old: st, pkg: e.TypesPkgs[l.Pkg], bound: map[string]SVal{}, qn: new(int)}
		var t Term
		if err := catch(func() { t = env.eval(l.Expr).T }); err != nil {
			return nil, fmt.Errorf("lemma %s: %v", name, err)
		}
		u.Oblige("lemma", name, "", "lemma: "+l.Src, "true", t, l.Tags)
		return u, nil
	}
	return nil, fmt.Errorf("lemma %s not found", name)
}
