package kv

import (
	"bytes"
	"encoding/json"
	"fmt"
	"math/big"
	"os"
	"os/exec"
	"path/filepath"
	"sort"
	"strings"
)

// ReplaySpec describes how a solver model of a function's obligation is turned into a run of the
// real function: specification expressions evaluated in the entry state are read from the model and
// handed (as JSON) to an in-package Go test injected with -overlay.
type ReplaySpec struct {
	Func   string            `json:"func"`             // unit name, e.g. "lib/journal/check.(*Checker).balance"
	Pkg    string            `json:"pkg"`              // package directory relative to the repo
	Test   string            `json:"test"`             // test source file relative to /verif/replay
	Run    string            `json:"run"`              // test name
	Values map[string]string `json:"values"`           // name -> specification expression (entry state)
	Assume string            `json:"assume,omitempty"` // optional: a specification expression (entry state) that narrows the search for a model to the domain of the harness; a model found under it is still a model of the refuted obligation
}

func loadReplaySpec(verif, fn string) *ReplaySpec {
	data, err := os.ReadFile(filepath.Join(verif, "replay", sanitize(fn)+".json"))
	if err != nil {
		return nil
	}
	var rs ReplaySpec
	if json.Unmarshal(data, &rs) != nil {
		return nil
	}
	return &rs
}

// modelValues evaluates the replay expressions against a satisfying assignment of the obligation.
func modelValues(o *Obligation, rs *ReplaySpec) (map[string]string, string, error) {
	u := o.unit
	if u.entryEnv == nil {
		return nil, "", fmt.Errorf("no entry environment")
	}
	var names []string
	for n := range rs.Values {
		names = append(names, n)
	}
	sort.Strings(names)
	var terms []Term
	for _, n := range names {
		e, err := ParseExpr(rs.Values[n])
		if err != nil {
			return nil, "", fmt.Errorf("replay value %s: %v", n, err)
		}
		var t Term
		nf := len(u.Facts)
		if err := catch(func() { env := u.entryEnv(); t = env.value(env.eval(e)).T }); err != nil {
			return nil, "", fmt.Errorf("replay value %s: %v", n, err)
		}
		u.Facts = u.Facts[:nf] // evaluation must not add hypotheses
		terms = append(terms, t)
	}
	base := u.Query(o)
	if o.Status != "sat" {
		base = u.CandidateQuery(o)
	}
	if rs.Assume != "" {
		if e, err := ParseExpr(rs.Assume); err == nil {
			var t Term
			nf := len(u.Facts)
			if err := catch(func() { env := u.entryEnv(); t = env.value(env.eval(e)).T }); err == nil {
				// hypotheses created while evaluating (well-formedness of the slices it reads) belong to the query
				for _, f := range u.Facts[nf:] {
					base += "(assert " + f + ")\n"
				}
				base += "(assert " + t + ")\n"
			}
			u.Facts = u.Facts[:nf]
		}
	}
	q := base + "(check-sat)\n(get-value (" + strings.Join(terms, " ") + "))\n"
	dir, err := os.MkdirTemp("", "kvr")
	if err != nil {
		return nil, "", err
	}
	defer os.RemoveAll(dir)
	f := filepath.Join(dir, "q.smt2")
	os.WriteFile(f, []byte(q), 0o644)
	out, _ := exec.Command("z3-new", "-T:20", f).CombinedOutput()
	s := string(out)
	i := strings.Index(s, "sat\n")
	if i < 0 || strings.HasPrefix(strings.TrimSpace(s), "unsat") {
		return nil, s, fmt.Errorf("no model")
	}
	body := strings.TrimSpace(s[i+4:])
	_, pairs := topArgs("(x " + strings.TrimSuffix(strings.TrimPrefix(body, "("), ")") + ")")
	vals := map[string]string{}
	for k, p := range pairs {
		if k >= len(names) {
			break
		}
		// each pair is "(term value)": the value is the last top-level element
		_, parts := topArgs("(x " + strings.TrimSuffix(strings.TrimPrefix(p, "("), ")") + ")")
		if len(parts) == 0 {
			continue
		}
		vals[names[k]] = smtValue(parts[len(parts)-1])
	}
	return vals, body, nil
}

// smtValue renders an SMT value as a plain string: integers, decimals (exact when the denominator
// divides a power of ten, otherwise a/b), booleans, references as "ref:<id>:<path>".
func smtValue(v string) string {
	v = strings.TrimSpace(v)
	if r, ok := parseRat(v); ok {
		if r.IsInt() {
			return r.Num().String()
		}
		f := new(big.Float).SetRat(r)
		// exact decimal if possible
		d := new(big.Int).Set(r.Denom())
		for _, p := range []int64{2, 5} {
			for new(big.Int).Mod(d, big.NewInt(p)).Sign() == 0 {
				d.Div(d, big.NewInt(p))
			}
		}
		if d.Cmp(big.NewInt(1)) == 0 {
			return r.FloatString(20)
		}
		return f.Text('g', 20)
	}
	return v
}

func parseRat(v string) (*big.Rat, bool) {
	v = strings.TrimSpace(v)
	if strings.HasPrefix(v, "(") {
		f, args := topArgs(v)
		switch {
		case f == "-" && len(args) == 1:
			if r, ok := parseRat(args[0]); ok {
				return r.Neg(r), true
			}
		case f == "/" && len(args) == 2:
			a, ok1 := parseRat(args[0])
			b, ok2 := parseRat(args[1])
			if ok1 && ok2 && b.Sign() != 0 {
				return a.Quo(a, b), true
			}
		}
		return nil, false
	}
	r, ok := new(big.Rat).SetString(v)
	return r, ok
}

// runReplay executes the replay test on the real code.
func runReplay(verif, repo string, rs *ReplaySpec, vals map[string]string, obligation string) (bool, string) {
	dir, err := os.MkdirTemp("", "kvo")
	if err != nil {
		return false, err.Error()
	}
	defer os.RemoveAll(dir)
	target := filepath.Join(repo, rs.Pkg, "kv_replay_verif_test.go")
	ov := map[string]any{"Replace": map[string]string{target: filepath.Join(verif, "replay", rs.Test)}}
	b, _ := json.Marshal(ov)
	ovf := filepath.Join(dir, "overlay.json")
	os.WriteFile(ovf, b, 0o644)
	vb, _ := json.Marshal(vals)
	cmd := exec.Command("go", "test", "-overlay", ovf, "-vet=off", "-count=1", "-timeout", "60s", "-run", rs.Run, "-v", "./"+rs.Pkg)
	cmd.Dir = repo
	cmd.Env = append(os.Environ(), "GOFLAGS=-mod=mod", "GOPROXY=off", "GOSUMDB=off", "GOTOOLCHAIN=local", "KV_REPLAY="+string(vb), "KV_OBLIGATION="+obligation)
	var out bytes.Buffer
	cmd.Stdout = &out
	cmd.Stderr = &out
	cmd.Run()
	o := out.String()
	if len(o) > 4000 {
		o = o[len(o)-4000:]
	}
	return strings.Contains(o, "REPLAY-CONFIRMED"), o
}

// Replay tries to confirm a refuted obligation on the real code.
func Replay(verif, repo string, o *Obligation) (confirmed bool, report map[string]any) {
	rs := loadReplaySpec(verif, o.Func)
	if rs == nil {
		return false, map[string]any{"note": "no replay harness for " + o.Func}
	}
	vals, raw, err := modelValues(o, rs)
	if err != nil {
		// no model (timeout / unknown): the harness still runs its fixed scenarios on the real code
		vals = map[string]string{}
		ok, out := runReplay(verif, repo, rs, vals, o.Name)
		return ok, map[string]any{"note": "no solver model (" + err.Error() + "): only the fixed scenarios of the harness were run", "solver": firstLines(raw, 5), "test": rs.Test, "confirmed": ok, "output": out}
	}
	ok, out := runReplay(verif, repo, rs, vals, o.Name)
	return ok, map[string]any{"inputs": vals, "test": rs.Test, "confirmed": ok, "output": out}
}
