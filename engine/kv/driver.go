package kv

import (
	"context"
	"encoding/json"
	"fmt"
	"os"
	"path/filepath"
	"sort"
	"strings"
	"sync"
	"time"
)

// specFnsIn lists the spec functions mentioned by an expression.
func (e *Engine) specFnsIn(x Expr, out map[string]bool) {
	switch v := x.(type) {
	case *ECall:
		if _, ok := e.Specs[v.Fn]; ok {
			out[v.Fn] = true
		}
		if v.Fn == "dmul" || v.Fn == "ddiv" {
			out[v.Fn] = true
		}
		if d, ok := e.Defs[v.Fn]; ok {
			e.specFnsIn(d.Body, out)
		}
		for _, a := range v.Args {
			e.specFnsIn(a, out)
		}
	case *EUnary:
		e.specFnsIn(v.X, out)
	case *EBinary:
		e.specFnsIn(v.X, out)
		e.specFnsIn(v.Y, out)
	case *ESel:
		e.specFnsIn(v.X, out)
	case *EIndex:
		e.specFnsIn(v.X, out)
		e.specFnsIn(v.I, out)
	case *EQuant:
		e.specFnsIn(v.Body, out)
		for _, t := range v.Trig {
			e.specFnsIn(t, out)
		}
	case *EOld:
		e.specFnsIn(v.X, out)
	case *ECond:
		e.specFnsIn(v.C, out)
		e.specFnsIn(v.A, out)
		e.specFnsIn(v.B, out)
	}
}

// FinishAxioms translates the axioms whose spec functions are all in use.
func (u *Unit) FinishAxioms() {
	done := map[*Axiom]bool{}
	for changed := true; changed; {
		changed = false
		for _, ax := range u.E.Axioms {
			if done[ax] {
				continue
			}
			m := map[string]bool{}
			u.E.specFnsIn(ax.Expr, m)
			if len(m) == 0 {
				continue
			}
			all := true
			for f := range m {
				if !u.specFnsUsed[f] && !u.D.used[f] {
					all = false
				}
			}
			if !all {
				continue
			}
			done[ax] = true
			changed = true
			a := &Act{u: u, vals: nil, spec: true}
			a.top = a
			st := &State{u: u, guard: "true", heaps: map[string]Term{}, alloc: u.alloc0}
			env := &Env{a: a, u: u, cur: st, old: st, pkg: u.E.TypesPkgs[ax.Pkg], bound: map[string]SVal{}, qn: new(int)}
			*env.qn = 100000 + len(u.axioms)*100
			var t Term
			if err := catch(func() { t = env.eval(ax.Expr).T }); err != nil {
				u.Errors = append(u.Errors, fmt.Sprintf("axiom %s: %v", ax.Name, err))
				continue
			}
			u.axioms = append(u.axioms, t)
			u.Trusted["axiom "+ax.Name] = true
		}
	}
}

// Solve discharges all obligations of the units in parallel.
func Solve(obls []*Obligation, timeoutSec int, all bool, workers int) {
	var wg sync.WaitGroup
	ch := make(chan *Obligation)
	for i := 0; i < workers; i++ {
		wg.Add(1)
		go func() {
			defer wg.Done()
			for o := range ch {
				solveOne(o, timeoutSec, all)
			}
		}()
	}
	for _, o := range obls {
		ch <- o
	}
	close(ch)
	wg.Wait()
}

func solveOne(o *Obligation, timeoutSec int, all bool) {
	t0 := time.Now()
	q := o.unit.Query(o)
	var r SolverResult
	if all {
		r = RunSolvers(q, false, timeoutSec, true, nil)
	}
	if !all || (r.Status != "unsat" && r.Status != "sat") {
		// (thorough tier: when running every solver on the full query did not settle it, fall back to the
		// strategy of the quick tier, which also races the pruned variants of the query)
		// fast path: the new z3 alone for a short time, then the whole portfolio raced with the
		// pruned variants of the query (fewer hypotheses: an unsat answer of a variant is a proof,
		// any other answer of a variant means nothing)
		r = RunSolvers(q, false, 3, false, []string{"z3-new"})
		if r.Status != "unsat" && r.Status != "sat" {
			ctx, cancel := context.WithCancel(context.Background())
			type vr struct {
				v int
				r SolverResult
			}
			variants := []int{4}
			if o.KeepTag != "" {
				variants = []int{1, 2, 3, 4}
			}
			n := 1 + len(variants)
			ch := make(chan vr, n)
			go func() { ch <- vr{0, RunSolversCtx(ctx, q, false, timeoutSec, false, nil)} }()
			for _, v := range variants {
				go func(v int) { ch <- vr{v, RunSolversCtx(ctx, o.unit.QueryVariant(o, v), false, timeoutSec, false, nil)} }(v)
			}
			var full *SolverResult
			for i := 0; i < n; i++ {
				x := <-ch
				if x.r.Status == "unsat" {
					if x.v > 0 {
						x.r.Solver += fmt.Sprintf("/pruned%d", x.v)
					}
					r = x.r
					break
				}
				if x.v == 0 {
					xr := x.r
					full = &xr
					if x.r.Status == "sat" {
						r = x.r
						break
					}
				}
			}
			cancel()
			if r.Status != "unsat" && r.Status != "sat" && full != nil {
				r = *full
			}
		}
	}
	if r.Status == "sat" || r.Status == "inconsistent" {
		// fetch a model for the replay
		m := RunSolvers(q, true, timeoutSec, false, []string{"z3-new"})
		if m.Status == "sat" {
			r.Model = m.Model
		}
	}
	o.Status = r.Status
	o.Solver = r.Solver
	o.Output = firstLines(r.Output, 6)
	o.Model = r.Model
	o.Secs = time.Since(t0).Seconds()
}

func DumpQuery(o *Obligation, dir string) string {
	os.MkdirAll(dir, 0o755)
	p := filepath.Join(dir, sanitize(o.Name)+".smt2")
	os.WriteFile(p, []byte(o.unit.Query(o)+"(check-sat)\n"), 0o644)
	return p
}

// ---------------------------------------------------------------------------------------

type Claim struct {
	Property       string   `json:"property"`
	Functions      []string `json:"functions"` // contract keys "<pkg rel path>.<Key>"
	Lemmas         []string `json:"lemmas,omitempty"`
	MinObligations int      `json:"min_obligations,omitempty"`
	Bounded        []string `json:"bounded,omitempty"`
	Notes          string   `json:"notes,omitempty"`
}

func LoadClaim(path string) (*Claim, error) {
	data, err := os.ReadFile(path)
	if err != nil {
		return nil, err
	}
	var c Claim
	if err := json.Unmarshal(data, &c); err != nil {
		return nil, fmt.Errorf("%s: %v", path, err)
	}
	return &c, nil
}

func hasTag(tags []string, p string) bool {
	if len(tags) == 0 {
		return true
	}
	for _, t := range tags {
		if t == p {
			return true
		}
	}
	return false
}

var _ = sort.Strings
var _ = strings.TrimSpace
