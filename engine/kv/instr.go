package kv

import (
	"fmt"
	"go/token"
	"go/types"
	"strings"

	"golang.org/x/tools/go/ssa"
)

type tokenPos = token.Pos

func (a *Act) set(v ssa.Value, t Term) {
	a.vals[v] = Val{T: t, Typ: v.Type()}
}

func (a *Act) instr(st *State, ins ssa.Instruction) {
	d := a.u.D
	switch x := ins.(type) {
	case *ssa.DebugRef:
	case *ssa.Alloc:
		t := derefType(x.Type())
		if a.isLocalVar(x) && !x.Heap {
			st.locals[x] = d.Zero(t)
			a.vals[x] = Val{Loc: &Loc{Local: x}, Typ: x.Type()}
			return
		}
		r := st.newRef()
		a.store(st, r, t, d.Zero(t))
		a.set(x, r)
		if writeOnceCell(x) {
			if a.top.onceCells == nil {
				a.top.onceCells = map[Term]bool{}
			}
			a.top.onceCells[r] = true
		}
	case *ssa.FieldAddr:
		p := a.val(x.X)
		stT := derefType(x.X.Type())
		ft := derefType(x.Type())
		if p.Loc != nil {
			path := append(append([]int{}, p.Loc.Path...), x.Field)
			if p.Loc.Local == nil {
				if p.Loc.RootT == nil {
					fail("field address of leaf location")
				}
				a.vals[x] = Val{Loc: &Loc{Heap: p.Loc.Heap, HSort: p.Loc.HSort, Ref: p.Loc.Ref, RootT: p.Loc.RootT, Path: path, Elem: ft}, Typ: x.Type()}
				return
			}
			a.vals[x] = Val{Loc: &Loc{Local: p.Loc.Local, Path: path}, Typ: x.Type()}
			return
		}
		a.checkNonNil(st, p.T, x.Pos(), fieldName(stT, x.Field))
		if isStructType(ft) || isArrayType(ft) {
			a.set(x, app("sub", p.T, intLit(int64(x.Field))))
			return
		}
		if isOpaqueStruct(ft) {
			// address of an external struct (strings.Builder, sync.RWMutex ...): an opaque sub-object
			a.set(x, app("sub", p.T, intLit(int64(x.Field))))
			return
		}
		h, hs := d.FieldHeap(stT, x.Field)
		a.vals[x] = Val{Loc: &Loc{Heap: h, HSort: hs, Ref: p.T, Elem: ft}, Typ: x.Type()}
	case *ssa.Field:
		v := a.term(x.X)
		si := d.structInfo(x.X.Type())
		a.set(x, selOf(si.Fields[x.Field].Sel, v))
	case *ssa.IndexAddr:
		idx := a.term(x.Index)
		switch xt := types.Unalias(x.X.Type()).Underlying().(type) {
		case *types.Slice:
			s := a.term(x.X)
			a.oblige(st, "bounds", "", x.Pos(), "index in range", and(app("<=", "0", idx), app("<", idx, app("slen", s))))
			st.assume(and(app("<=", "0", idx), app("<", idx, app("slen", s))))
			if isStructType(xt.Elem()) {
				eh := a.elemHeap(xt.Elem())
				a.vals[x] = Val{Loc: &Loc{Heap: eh.name, HSort: eh.sort, Ref: app("saddr", s, idx), RootT: xt.Elem(), Elem: xt.Elem()}, Typ: x.Type()}
				return
			}
			a.set(x, app("saddr", s, idx))
		case *types.Pointer:
			arr := xt.Elem().Underlying().(*types.Array)
			p := a.val(x.X)
			if p.Loc != nil {
				fail("index address into local array")
			}
			a.checkNonNil(st, p.T, x.Pos(), "array")
			a.oblige(st, "bounds", "", x.Pos(), "index in range", and(app("<=", "0", idx), app("<", idx, intLit(arr.Len()))))
			if isStructType(arr.Elem()) {
				eh := a.elemHeap(arr.Elem())
				a.vals[x] = Val{Loc: &Loc{Heap: eh.name, HSort: eh.sort, Ref: app("elem", p.T, idx), RootT: arr.Elem(), Elem: arr.Elem()}, Typ: x.Type()}
				return
			}
			a.set(x, app("elem", p.T, idx))
		default:
			fail("IndexAddr on %s", x.X.Type())
		}
	case *ssa.Index:
		idx := a.term(x.Index)
		switch xt := types.Unalias(x.X.Type()).Underlying().(type) {
		case *types.Array:
			a.oblige(st, "bounds", "", x.Pos(), "index in range", and(app("<=", "0", idx), app("<", idx, intLit(xt.Len()))))
			a.set(x, sel(a.term(x.X), idx))
		case *types.Basic: // string
			s := a.term(x.X)
			a.oblige(st, "bounds", "", x.Pos(), "string index in range", and(app("<=", "0", idx), app("<", idx, app("str_len", s))))
			a.set(x, app("str_at", s, idx))
		default:
			fail("Index on %s", x.X.Type())
		}
	case *ssa.UnOp:
		a.unop(st, x)
	case *ssa.BinOp:
		a.set(x, a.binop(st, x.Op, a.val(x.X), a.val(x.Y), x.X.Type(), x.Pos()))
	case *ssa.Store:
		p := a.val(x.Addr)
		v := a.firstClass(a.val(x.Val), x.Val.Name())
		if v.Loc != nil || v.Tuple != nil {
			fail("storing non-first-class value")
		}
		a.storePtr(st, p, v.T, x.Pos(), "store")
		if p.Loc == nil && a.top.onceCells[p.T] && d.SortOf(derefType(p.Typ)) != "" {
			// a captured variable that is assigned exactly once (here) and only read afterwards, also by the
			// closures that capture it: its value is fixed from now on, whatever later calls do to the heap
			if a.top.onceVals == nil {
				a.top.onceVals = map[Term]Term{}
			}
			a.top.onceVals[p.T] = v.T
		}
	case *ssa.Phi:
	case *ssa.Extract:
		t := a.val(x.Tuple)
		if t.Tuple == nil {
			fail("extract from non-tuple")
		}
		a.vals[x] = t.Tuple[x.Index]
	case *ssa.ChangeType:
		v := a.val(x.X)
		v.Typ = x.Type()
		a.vals[x] = v
	case *ssa.ChangeInterface:
		v := a.val(x.X)
		v.Typ = x.Type()
		a.vals[x] = v
	case *ssa.Convert:
		a.convert(st, x)
	case *ssa.MakeInterface:
		v := a.val(x.X)
		if v.Loc != nil {
			fail("interface of local address")
		}
		tag := intLit(int64(d.TypeTag(x.X.Type())))
		if d.SortOf(x.X.Type()) == "Ref" {
			a.set(x, app("mkiface", tag, v.T))
			return
		}
		r := st.newRef()
		a.store(st, r, x.X.Type(), v.T)
		a.set(x, app("mkiface", tag, r))
	case *ssa.TypeAssert:
		a.typeAssert(st, x)
	case *ssa.MakeClosure:
		fn := x.Fn.(*ssa.Function)
		var env []Val
		for _, b := range x.Bindings {
			env = append(env, a.val(b))
		}
		c := a.u.D.Fresh("clo_"+fn.Name(), "Int")
		a.u.Fact(not(eq(c, "0")))
		a.vals[x] = Val{T: c, Fn: fn, Env: env, Typ: x.Type()}
		a.closureCreated(st, x, fn, env)
	case *ssa.MakeMap:
		mt := x.Type().Underlying().(*types.Map)
		r := st.newRef()
		dn, vn, ks, vs := d.MapHeaps(mt)
		ds, vsrt := "(Array Ref (Array "+ks+" Bool))", "(Array Ref (Array "+ks+" "+vs+"))"
		st.setHeap(dn, ds, store(st.heap(dn, ds), r, fmt.Sprintf("((as const (Array %s Bool)) false)", ks)))
		st.setHeap(vn, vsrt, store(st.heap(vn, vsrt), r, d.ConstArray(fmt.Sprintf("(Array %s %s)", ks, vs), d.Zero(mt.Elem()))))
		a.set(x, r)
	case *ssa.MakeSlice:
		et := x.Type().Underlying().(*types.Slice).Elem()
		ln, cp := a.term(x.Len), a.term(x.Cap)
		a.oblige(st, "slice", "make", x.Pos(), "make: 0 <= len <= cap", and(app("<=", "0", ln), app("<=", ln, cp)))
		r := st.newRef()
		if ln != "0" {
			for _, lh := range a.elemHeaps(et) {
				old := st.heap(lh.name, lh.sort)
				nh := a.u.D.Fresh(lh.name, lh.sort)
				st.setHeap(lh.name, lh.sort, nh)
				zero := d.Zero(et)
				a.u.Fact(fmt.Sprintf("(forall ((r Ref)) (! (=> (not (= (rid r) (rid %s))) (= (select %s r) (select %s r))) :pattern ((select %s r))))", r, nh, old, nh))
				a.u.Fact(fmt.Sprintf("(forall ((i Int)) (! (= (select %s %s) %s) :pattern ((select %s %s))))", nh, lh.addr(app("elem", r, "i")), zero, nh, lh.addr(app("elem", r, "i"))))
			}
		}
		a.set(x, app("mkslice", r, "0", ln, cp))
	case *ssa.Slice:
		a.sliceOp(st, x)
	case *ssa.Lookup:
		a.lookup(st, x)
	case *ssa.MapUpdate:
		m := a.term(x.Map)
		mt := x.Map.Type().Underlying().(*types.Map)
		a.oblige(st, "nil", "map", x.Pos(), "assignment to entry in nil map", not(eq(m, "nil")))
		a.mapStore(st, mt, m, a.term(x.Key), a.term(x.Value), true)
	case *ssa.Range:
		switch xt := types.Unalias(x.X.Type()).Underlying().(type) {
		case *types.Map:
			m := a.term(x.X)
			dn, _, ks, _ := d.MapHeaps(xt)
			ds := "(Array Ref (Array " + ks + " Bool))"
			st.seen[x] = fmt.Sprintf("((as const (Array %s Bool)) false)", ks)
			if st.dom0 == nil {
				st.dom0 = map[ssa.Value]Term{}
			}
			c := a.u.D.Fresh("dom0", "(Array "+ks+" Bool)")
			a.u.Fact(eq(c, ite(eq(m, "nil"), fmt.Sprintf("((as const (Array %s Bool)) false)", ks), hsel(st.u, st.heap(dn, ds), m))))
			st.dom0[x] = c
			a.vals[x] = Val{T: m, Typ: x.X.Type()}
		case *types.Basic:
			st.seen[x] = "0"
			a.vals[x] = Val{T: a.term(x.X), Typ: x.X.Type()}
		default:
			fail("range over %s", x.X.Type())
		}
	case *ssa.Next:
		a.next(st, x)
	case *ssa.Call:
		a.call(st, x, x.Common())
	case *ssa.Defer:
		if !isMutexDefer(x) {
			for _, li := range a.loops {
				if li.blocks[x.Block()] {
					fail("defer inside a loop is outside the supported subset")
				}
			}
			st.defers = append(st.defers, x)
		}
	case *ssa.RunDefers:
		// deferred calls run in reverse order of registration; their arguments are SSA values fixed at
		// the defer statement
		ds := st.defers
		st.defers = nil
		for i := len(ds) - 1; i >= 0; i-- {
			a.doCall(st, &ds[i].Call, ds[i].Pos(), nil)
		}
	case *ssa.Go, *ssa.Send, *ssa.Select, *ssa.MakeChan:
		fail("%T is outside the supported subset (concurrency)", ins)
	default:
		fail("unsupported instruction %T: %s", ins, ins)
	}
}

func (a *Act) zeroOfHeap(heapSort string) Term {
	// heapSort is "(Array Ref X)"
	x := strings.TrimSuffix(strings.TrimPrefix(heapSort, "(Array Ref "), ")")
	switch x {
	case "Int":
		return "0"
	case "Bool":
		return "false"
	case "Real":
		return "0.0"
	case "Str":
		return "str_empty"
	case "Ref":
		return "nil"
	case "Slice":
		return "nilslice"
	case "Iface":
		return "niliface"
	}
	fail("zero of heap sort %s", heapSort)
	return ""
}

func fieldName(t types.Type, i int) string {
	if s, ok := types.Unalias(t).Underlying().(*types.Struct); ok && i < s.NumFields() {
		return s.Field(i).Name()
	}
	return fmt.Sprint(i)
}

func (a *Act) unop(st *State, x *ssa.UnOp) {
	switch x.Op {
	case token.MUL:
		if g, ok := x.X.(*ssa.Global); ok {
			if t, ok := a.constGlobal(st, g); ok {
				a.set(x, t)
				return
			}
		}
		p := a.val(x.X)
		v := a.loadPtr(st, p, x.Pos(), "load")
		a.set(x, v)
	case token.NOT:
		a.set(x, not(a.term(x.X)))
	case token.SUB:
		a.set(x, app("-", a.term(x.X)))
	case token.XOR:
		f := a.u.D.Fun("bitnot", []string{"Int"}, "Int")
		a.set(x, app(f, a.term(x.X)))
	case token.ARROW:
		fail("channel receive is outside the supported subset")
	default:
		fail("unop %s", x.Op)
	}
}

func (a *Act) binop(st *State, op token.Token, xv, yv Val, t types.Type, pos token.Pos) Term {
	d := a.u.D
	if xv.Loc != nil || yv.Loc != nil {
		fail("binop on local address")
	}
	x, y := xv.T, yv.T
	srt := d.SortOf(t)
	switch op {
	case token.EQL, token.NEQ:
		var r Term
		switch srt {
		case "Slice":
			// only comparison with nil is legal
			if y == "nilslice" {
				r = eq(app("sarr", x), "nil")
			} else if x == "nilslice" {
				r = eq(app("sarr", y), "nil")
			} else {
				r = eq(x, y)
			}
		case "Iface":
			if y == "niliface" {
				r = eq(app("itag", x), "0")
			} else if x == "niliface" {
				r = eq(app("itag", y), "0")
			} else {
				r = eq(x, y)
			}
		default:
			r = eq(x, y)
		}
		if op == token.NEQ {
			return not(r)
		}
		return r
	case token.LSS, token.LEQ, token.GTR, token.GEQ:
		if srt == "Str" {
			switch op {
			case token.LSS:
				return app(a.u.D.StrLt(), x, y)
			case token.LEQ:
				return or(app(a.u.D.StrLt(), x, y), eq(x, y))
			case token.GTR:
				return app(a.u.D.StrLt(), y, x)
			default:
				return or(app(a.u.D.StrLt(), y, x), eq(x, y))
			}
		}
		return app(map[token.Token]string{token.LSS: "<", token.LEQ: "<=", token.GTR: ">", token.GEQ: ">="}[op], x, y)
	case token.ADD:
		if srt == "Str" {
			c := d.Fresh("cat", "Str")
			a.u.Fact(eq(c, app("str_cat", x, y)))
			a.u.Fact(eq(app("str_len", c), app("+", app("str_len", x), app("str_len", y))))
			return c
		}
		a.overflowCheck(st, t, app("+", x, y), pos)
		return app("+", x, y)
	case token.SUB:
		a.overflowCheck(st, t, app("-", x, y), pos)
		return app("-", x, y)
	case token.MUL:
		a.overflowCheck(st, t, app("*", x, y), pos)
		return app("*", x, y)
	case token.QUO:
		if srt == "Real" {
			return app("/", x, y)
		}
		a.oblige(st, "div", "", pos, "division by zero", not(eq(y, "0")))
		st.assume(not(eq(y, "0")))
		return app("godiv", x, y)
	case token.REM:
		a.oblige(st, "div", "", pos, "division by zero", not(eq(y, "0")))
		st.assume(not(eq(y, "0")))
		return app("gomod", x, y)
	case token.LAND, token.LOR:
		fail("logical op in SSA")
	}
	// bit operations: uninterpreted
	f := d.Fun("bitop_"+sanitize(op.String()), []string{"Int", "Int"}, "Int")
	return app(f, x, y)
}

func (a *Act) convert(st *State, x *ssa.Convert) {
	d := a.u.D
	from, to := d.SortOf(x.X.Type()), d.SortOf(x.Type())
	v := a.term(x.X)
	switch {
	case from == to && from != "Str" && from != "Slice":
		a.set(x, v)
	case from == "Str" && to == "Str":
		a.set(x, v)
	case from == "Int" && to == "Real":
		a.set(x, app("to_real", v))
	case from == "Real" && to == "Int":
		a.set(x, app("trunc_int", v))
	case from == "Int" && to == "Str":
		f := d.Fun("str_of_rune", []string{"Int"}, "Str")
		a.set(x, app(f, v))
	case from == "Slice" && to == "Str", from == "Str" && to == "Slice":
		c := d.Fresh("conv", to)
		if to == "Slice" {
			r := st.newRef()
			a.u.Fact(eq(c, app("mkslice", r, "0", app("str_len", v), app("str_len", v))))
			a.u.Fact(eq(app(d.Fun("str_of_bytes", []string{"Slice"}, "Str"), c), v))
		} else {
			a.u.Fact(eq(app("str_len", c), app("slen", v)))
			// string(bytes): a function of the slice and of the byte contents at this moment
			lh := a.elemHeap(types.Typ[types.Byte])
			a.u.Fact(eq(c, app(d.Fun("str_of_bytes_now", []string{"Slice", lh.sort}, "Str"), v, st.heap(lh.name, lh.sort))))
		}
		a.set(x, c)
	default:
		fail("conversion %s -> %s", x.X.Type(), x.Type())
	}
}

func (a *Act) typeAssert(st *State, x *ssa.TypeAssert) {
	d := a.u.D
	v := a.term(x.X)
	var ok Term
	var val Term
	if _, isIface := types.Unalias(x.AssertedType).Underlying().(*types.Interface); isIface {
		// assertion to an interface type: dynamic method sets are not modelled
		okc := d.Fresh("implements", "Bool")
		a.u.Fact(implies(okc, not(eq(app("itag", v), "0"))))
		ok = okc
		val = ite(ok, v, "niliface")
	} else {
		tag := intLit(int64(d.TypeTag(x.AssertedType)))
		ok = eq(app("itag", v), tag)
		if d.SortOf(x.AssertedType) == "Ref" {
			val = app("iptr", v)
		} else {
			val = a.load(st, app("iptr", v), x.AssertedType)
			// the boxed value satisfies the type invariants of the values the code loads (slices well formed, references allocated)
			if c := st.allocated(val, x.AssertedType); c != "true" {
				st.assume(implies(ok, c))
			}
		}
		val = ite(ok, val, d.Zero(x.AssertedType))
	}
	if x.CommaOk {
		a.vals[x] = Val{Tuple: []Val{{T: val, Typ: x.AssertedType}, {T: ok, Typ: types.Typ[types.Bool]}}, Typ: x.Type()}
		return
	}
	a.oblige(st, "assert-type", "", x.Pos(), "type assertion holds", ok)
	st.assume(ok)
	a.set(x, val)
}

func (a *Act) sliceOp(st *State, x *ssa.Slice) {
	d := a.u.D
	opt := func(v ssa.Value, def Term) Term {
		if v == nil {
			return def
		}
		return a.term(v)
	}
	switch xt := types.Unalias(x.X.Type()).Underlying().(type) {
	case *types.Slice:
		s := a.term(x.X)
		lo := opt(x.Low, "0")
		hi := opt(x.High, app("slen", s))
		mx := opt(x.Max, app("scap", s))
		a.oblige(st, "slice", "", x.Pos(), "slice bounds in range", and(app("<=", "0", lo), app("<=", lo, hi), app("<=", hi, mx), app("<=", mx, app("scap", s))))
		c := d.Fresh("slice", "Slice")
		a.u.Fact(eq(c, app("mkslice", app("sarr", s), app("+", app("soff", s), lo), app("-", hi, lo), app("-", mx, lo))))
		a.set(x, c)
	case *types.Basic:
		s := a.term(x.X)
		lo := opt(x.Low, "0")
		hi := opt(x.High, app("str_len", s))
		a.oblige(st, "slice", "", x.Pos(), "string slice bounds in range", and(app("<=", "0", lo), app("<=", lo, hi), app("<=", hi, app("str_len", s))))
		c := d.Fresh("substr", "Str")
		a.u.Fact(eq(c, app("str_sub", s, lo, hi)))
		st.assume(eq(app("str_len", c), app("-", hi, lo)))
		a.set(x, c)
	case *types.Pointer:
		arr := xt.Elem().Underlying().(*types.Array)
		p := a.val(x.X)
		if p.Loc != nil {
			fail("slice of local array")
		}
		n := intLit(arr.Len())
		lo := opt(x.Low, "0")
		hi := opt(x.High, n)
		a.oblige(st, "slice", "", x.Pos(), "slice bounds in range", and(app("<=", "0", lo), app("<=", lo, hi), app("<=", hi, n)))
		a.set(x, app("mkslice", p.T, lo, app("-", hi, lo), app("-", n, lo)))
	default:
		fail("slice of %s", x.X.Type())
	}
}

func (a *Act) mapHeapSorts(mt *types.Map) (dn, vn, ds, vs string) {
	dn, vn, k, v := a.u.D.MapHeaps(mt)
	return dn, vn, "(Array Ref (Array " + k + " Bool))", "(Array Ref (Array " + k + " " + v + "))"
}

func (a *Act) mapDom(st *State, mt *types.Map, m Term) Term {
	dn, _, ds, _ := a.mapHeapSorts(mt)
	return hsel(st.u, st.heap(dn, ds), m)
}

func (a *Act) mapVal(st *State, mt *types.Map, m Term) Term {
	_, vn, _, vs := a.mapHeapSorts(mt)
	return hsel(st.u, st.heap(vn, vs), m)
}

func (a *Act) mapStore(st *State, mt *types.Map, m, k, v Term, present bool) {
	dn, vn, ds, vs := a.mapHeapSorts(mt)
	p := "true"
	if !present {
		p = "false"
	}
	oldDom := hsel(st.u, st.heap(dn, ds), m)
	if present {
		// cardinality of a finite set after adding one key (len of the map): +1 exactly when the key is new
		d := a.u.D
		ks := d.SortOf(mt.Key())
		card := d.Fun("card_"+sanitize(ks), []string{"(Array " + ks + " Bool)"}, "Int")
		a.u.Fact(eq(app(card, store(oldDom, k, "true")), app("+", app(card, oldDom), ite(sel(oldDom, k), "0", "1"))))
	}
	st.setHeap(dn, ds, store(st.heap(dn, ds), m, store(oldDom, k, p)))
	if present {
		st.setHeap(vn, vs, store(st.heap(vn, vs), m, store(hsel(st.u, st.heap(vn, vs), m), k, v)))
	}
}

// mapGet: value (zero when absent) and presence; a nil map is empty.
func (a *Act) mapGet(st *State, mt *types.Map, m, k Term) (Term, Term) {
	present := and(not(eq(m, "nil")), sel(a.mapDom(st, mt, m), k))
	v := ite(present, sel(a.mapVal(st, mt, m), k), a.u.D.Zero(mt.Elem()))
	return v, present
}

func (a *Act) lookup(st *State, x *ssa.Lookup) {
	switch xt := types.Unalias(x.X.Type()).Underlying().(type) {
	case *types.Map:
		m := a.term(x.X)
		k := a.term(x.Index)
		v, ok := a.mapGet(st, xt, m, k)
		vc := a.u.D.Fresh("mapval", a.u.D.SortOf(xt.Elem()))
		a.u.Fact(eq(vc, v))
		a.assumeAllocated(st, vc, xt.Elem())
		if x.CommaOk {
			a.vals[x] = Val{Tuple: []Val{{T: vc, Typ: xt.Elem()}, {T: ok, Typ: types.Typ[types.Bool]}}, Typ: x.Type()}
		} else {
			a.set(x, vc)
		}
	case *types.Basic:
		s := a.term(x.X)
		idx := a.term(x.Index)
		a.oblige(st, "bounds", "", x.Pos(), "string index in range", and(app("<=", "0", idx), app("<", idx, app("str_len", s))))
		a.set(x, app("str_at", s, idx))
	default:
		fail("lookup on %s", x.X.Type())
	}
}

func (a *Act) next(st *State, x *ssa.Next) {
	d := a.u.D
	rng := x.Iter.(*ssa.Range)
	tup := x.Type().(*types.Tuple)
	if x.IsString {
		s := a.val(rng).T
		pos := st.seen[rng]
		ok := app("<", pos, app("str_len", s))
		rl := d.Fun("rune_len", []string{"Str", "Int"}, "Int")
		ra := d.Fun("rune_at", []string{"Str", "Int"}, "Int")
		n := app(rl, s, pos)
		st.assume(implies(ok, and(app(">=", n, "1"), app("<=", app("+", pos, n), app("str_len", s)), app(">=", app(ra, s, pos), "0"))))
		np := d.Fresh("strpos", "Int")
		a.u.Fact(eq(np, ite(ok, app("+", pos, n), pos)))
		a.vals[x] = Val{Tuple: []Val{{T: ok, Typ: types.Typ[types.Bool]}, {T: pos, Typ: tup.At(1).Type()}, {T: app(ra, s, pos), Typ: tup.At(2).Type()}}, Typ: x.Type()}
		st.seen[rng] = np
		return
	}
	mt := types.Unalias(rng.X.Type()).Underlying().(*types.Map)
	m := a.val(rng).T
	ks := d.SortOf(mt.Key())
	seen := st.seen[rng]
	ok := d.Fresh("rng_ok", "Bool")
	k := d.Fresh("rng_k", ks)
	domNow := ite(eq(m, "nil"), fmt.Sprintf("((as const (Array %s Bool)) false)", ks), a.mapDom(st, mt, m))
	st.assume(implies(ok, and(sel(domNow, k), not(sel(seen, k)))))
	// exhaustion: every key present at the start and still present has been produced
	st.assume(implies(not(ok), fmt.Sprintf("(forall ((kk %s)) (! (=> (and (select %s kk) (select %s kk)) (select %s kk)) :pattern ((select %s kk))))", ks, st.dom0[rng], domNow, seen, seen)))
	v := d.Fresh("rng_v", d.SortOf(mt.Elem()))
	a.u.Fact(implies(ok, eq(v, sel(a.mapVal(st, mt, m), k))))
	a.assumeAllocated(st, k, mt.Key())
	a.assumeAllocated(st, v, mt.Elem())
	ns := d.Fresh("seen", "(Array "+ks+" Bool)")
	a.u.Fact(eq(ns, ite(ok, store(seen, k, "true"), seen)))
	st.seen[rng] = ns
	a.vals[x] = Val{Tuple: []Val{{T: ok, Typ: types.Typ[types.Bool]}, {T: k, Typ: mt.Key()}, {T: v, Typ: mt.Elem()}}, Typ: x.Type()}
}

// constGlobal: a package-level variable that is assigned exactly once, in its package initialiser, from
// constants (possibly through modelled library calls such as decimal.NewFromInt) is a constant.
func (a *Act) constGlobal(st *State, g *ssa.Global) (Term, bool) {
	if g.Pkg != nil && g.Pkg.Pkg.Path() == "github.com/shopspring/decimal" && g.Name() == "Zero" {
		return "0.0", true
	}
	stores := a.u.E.GlobalStores(g)
	if len(stores) != 1 || stores[0].Parent().Name() != "init" {
		return "", false
	}
	sub := &Act{u: a.u, fn: stores[0].Parent(), vals: map[ssa.Value]Val{}, top: a.top, entry: a.entry, spec: true, pureFns: map[ssa.Value]bool{}}
	var eval func(v ssa.Value, depth int) bool
	eval = func(v ssa.Value, depth int) bool {
		if depth > 6 {
			return false
		}
		switch x := v.(type) {
		case *ssa.Const:
			return true
		case *ssa.Call:
			callee, ok := x.Call.Value.(*ssa.Function)
			if !ok {
				return false
			}
			if _, isIntr := intrinsics[intrinsicKey(callee)]; !isIntr {
				return false
			}
			for _, arg := range x.Call.Args {
				if !eval(arg, depth+1) {
					return false
				}
			}
		case *ssa.Convert:
			if !eval(x.X, depth+1) {
				return false
			}
		default:
			return false
		}
		if ins, ok := v.(ssa.Instruction); ok {
			tmp := st.clone()
			if err := catch(func() { sub.instr(tmp, ins) }); err != nil {
				return false
			}
		}
		return true
	}
	if !eval(stores[0].Val, 0) {
		return "", false
	}
	var t Term
	if err := catch(func() { t = sub.val(stores[0].Val).T }); err != nil || t == "" {
		return "", false
	}
	a.u.Trusted["constant global "+g.Pkg.Pkg.Name()+"."+g.Name()+" (assigned once, in the package initialiser)"] = true
	return t, true
}

// isMutexDefer: `defer mu.Unlock()` / `defer mu.RUnlock()` of a sync mutex. Locks are not modelled in the
// sequential semantics (listed assumption), so deferring their release has no effect on the state.
func isMutexDefer(x *ssa.Defer) bool {
	f := x.Call.StaticCallee()
	if f == nil || f.Pkg == nil || f.Pkg.Pkg.Path() != "sync" {
		return false
	}
	switch f.Name() {
	case "Unlock", "RUnlock":
		return true
	}
	return false
}

// writeOnceCell: a heap-allocated local (captured by closures) with exactly one store in the function and
// only loads everywhere else, including inside the closures that capture it.
func writeOnceCell(al *ssa.Alloc) bool {
	if al.Referrers() == nil {
		return false
	}
	stores := 0
	var onlyLoads func(v ssa.Value, depth int) bool
	onlyLoads = func(v ssa.Value, depth int) bool {
		refs := v.Referrers()
		if refs == nil || depth > 4 {
			return false
		}
		for _, r := range *refs {
			switch x := r.(type) {
			case *ssa.UnOp:
				if x.Op != token.MUL {
					return false
				}
			case *ssa.DebugRef:
			case *ssa.Store:
				if x.Addr != v || depth > 0 || x.Block() != al.Block() {
					return false
				}
				stores++
			case *ssa.MakeClosure:
				fn, ok := x.Fn.(*ssa.Function)
				if !ok {
					return false
				}
				for i, b := range x.Bindings {
					if b == v {
						if i >= len(fn.FreeVars) || !onlyLoads(fn.FreeVars[i], depth+1) {
							return false
						}
					}
				}
			default:
				return false
			}
		}
		return true
	}
	return onlyLoads(al, 0) && stores == 1
}

// overflowCheck: the mathematical result of a signed integer operation stays inside the machine type
// (obligation kind "overflow"; part of a claim only when its `kinds` list names it).
func (a *Act) overflowCheck(st *State, t types.Type, r Term, pos token.Pos) {
	b, ok := types.Unalias(t).Underlying().(*types.Basic)
	if !ok || a.spec {
		return
	}
	var lo, hi string
	switch b.Kind() {
	case types.Int, types.Int64:
		lo, hi = "(- 9223372036854775808)", "9223372036854775807"
	case types.Int32:
		lo, hi = "(- 2147483648)", "2147483647"
	default:
		return
	}
	a.oblige(st, "overflow", "", pos, "integer arithmetic stays inside the machine type", and(app("<=", lo, r), app("<=", r, hi)))
}
