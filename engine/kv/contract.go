package kv

import (
	"fmt"
	"os"
	"strconv"
	"strings"
	"unicode"
)

// ---------------------------------------------------------------------------------------
// Contract files: comment-only Go files, every contract line starts with "//@".

type Clause struct {
	Kind  string // requires ensures invariant decreases modifies
	Label string // optional @label
	Tags  []string
	Expr  Expr
	Mods  []Expr // for modifies
	Src   string
	Line  int
	Loop  int // loop ordinal for invariant/decreases (0 = function level)
	Ord   int // ordinal among clauses of the same kind (and loop) in the function
}

type Param struct {
	Name string
	Type string // Go type text, may be empty (int)
}

type Def struct {
	Name   string
	Params []Param
	Ret    string // Go type text; "bool" for pred
	Body   Expr
	Pkg    string
	Line   int
}

type SpecFn struct {
	Name   string
	Params []Param
	Ret    string
	Pkg    string
}

type Axiom struct {
	Name string
	Expr Expr
	Pkg  string
	Src  string
}

type Lemma struct {
	Name string
	Expr Expr
	Pkg  string
	Tags []string
	Src  string
	// commutation lemma: two calls of FuncKey in either order from the same state
	Commute bool
	FuncKey string
	Shared  []string // parameters that have the same value in both calls (the receiver, the shared state)
	Given   Expr     // extra hypothesis over the duplicated parameters (name1 / name2)
}

type FuncContract struct {
	Key          string // function key relative to the package, e.g. "(*Scanner).Advance", "NewPartition", "Shorten$1"
	Pkg          string // package path
	File         string
	Line         int
	Clauses      []*Clause
	Pure         []string // names of parameters that are pure function values
	Trusted      bool     // contract is assumed, body not verified
	Inline       bool
	NoFrame      bool // "modifies *": no frame obligation
	ModCallbacks bool // "modifies callbacks": effect = effects of the function values passed in
	Lemmas       []*Lemma
	HasMods      bool
	Uses         []string
	Terminates   bool
	InputAssume  map[string][]*Clause // "input Name: expr": well-formedness of external input assumed about the result of the traced call Name (a hypothesis of the property, listed in the evidence)
	Quiet        bool // "quiet": the function (and what it inlines) must not write to the process's standard output (fmt.Print*): each such call is an obligation of kind stdout
	MayPanic     bool // "panics": explicit panic statements of this function are documented behaviour (Must* helpers); reported as an assumption
	Callbacks    []string
	CallbackRank map[string]int // ranks of traced callbacks (ghost event trace)
	Ghosts       []*GhostVar
	GhostUpdates []GhostUpdate // in textual order
}

type GhostUpdate struct {
	Loop int
	End  bool
	Name string
	Expr Expr
}

// GhostVar is a specification-only variable: "ghost name sort = init"; it is updated at loop heads by
// "loop N ghost name := expr" (evaluated each time control reaches the head, after the invariant).
type GhostVar struct {
	Name       string
	Sort       string // int | real | bool | []int | []real  (arrays are total maps from int)
	Init       Expr
	Updates    map[int]Expr
	EndUpdates map[int]Expr
}

type ContractFile struct {
	Pkg    string
	Path   string
	Funcs  []*FuncContract
	Defs   []*Def
	Specs  []*SpecFn
	Axioms []*Axiom
	Lemmas []*Lemma
	Raw    string
}

var clauseKeywords = map[string]bool{
	"pred": true, "def": true, "spec": true, "axiom": true, "func": true, "lemma": true, "commute": true,
	"requires": true, "ensures": true, "modifies": true, "decreases": true, "loop": true,
	"pure": true, "inline": true, "trusted": true, "terminates": true, "panics": true, "quiet": true, "input": true, "callback": true, "ghost": true,
}

func ParseContractFile(path, pkg string) (*ContractFile, error) {
	data, err := os.ReadFile(path)
	if err != nil {
		return nil, err
	}
	cf := &ContractFile{Pkg: pkg, Path: path, Raw: string(data)}
	type item struct {
		kw   string
		text string
		line int
	}
	var items []item
	for i, ln := range strings.Split(string(data), "\n") {
		t := strings.TrimSpace(ln)
		if !strings.HasPrefix(t, "//@") {
			continue
		}
		t = strings.TrimSpace(t[3:])
		// strip trailing line comment " // ..." (only when preceded by whitespace)
		if j := strings.Index(t, " // "); j >= 0 {
			t = strings.TrimSpace(t[:j])
		}
		if strings.HasPrefix(t, "// ") || t == "//" {
			continue
		}
		if t == "" {
			continue
		}
		w := t
		if j := strings.IndexAny(t, " \t"); j >= 0 {
			w = t[:j]
		}
		if clauseKeywords[w] {
			items = append(items, item{w, strings.TrimSpace(t[len(w):]), i + 1})
		} else if len(items) > 0 {
			items[len(items)-1].text += " " + t
		} else {
			return nil, fmt.Errorf("%s:%d: continuation line without clause", path, i+1)
		}
	}
	var cur *FuncContract
	counts := map[string]int{}
	for _, it := range items {
		fail := func(err error) error { return fmt.Errorf("%s:%d: %s %s: %v", path, it.line, it.kw, it.text, err) }
		switch it.kw {
		case "func":
			cur = &FuncContract{Key: strings.TrimSpace(it.text), Pkg: pkg, File: path, Line: it.line}
			cf.Funcs = append(cf.Funcs, cur)
			counts = map[string]int{}
		case "pred", "def":
			d, err := parseDef(it.text, it.kw == "pred")
			if err != nil {
				return nil, fail(err)
			}
			d.Pkg = pkg
			d.Line = it.line
			cf.Defs = append(cf.Defs, d)
		case "spec":
			s, err := parseSpecDecl(it.text)
			if err != nil {
				return nil, fail(err)
			}
			s.Pkg = pkg
			cf.Specs = append(cf.Specs, s)
		case "commute":
			// commute <name> [tags]: <FuncKey> [shared <p1>, <p2>] [given <expr>]
			name, rest, ok := strings.Cut(it.text, ":")
			if !ok {
				return nil, fail(fmt.Errorf("want commute name: FuncKey [shared ...] [given ...]"))
			}
			name = strings.TrimSpace(name)
			var tags []string
			if j := strings.Index(name, "["); j >= 0 {
				k := strings.Index(name, "]")
				tags = splitTrim(name[j+1:k], ",")
				name = strings.TrimSpace(name[:j])
			}
			l := &Lemma{Name: name, Pkg: pkg, Tags: tags, Src: rest, Commute: true}
			if i := strings.Index(rest, " given "); i >= 0 {
				g, err := ParseExpr(rest[i+7:])
				if err != nil {
					return nil, fail(err)
				}
				l.Given = g
				rest = rest[:i]
			}
			if i := strings.Index(rest, " shared "); i >= 0 {
				l.Shared = splitTrim(rest[i+8:], ",")
				rest = rest[:i]
			}
			l.FuncKey = strings.TrimSpace(rest)
			cf.Lemmas = append(cf.Lemmas, l)
		case "axiom", "lemma":
			name, rest, ok := strings.Cut(it.text, ":")
			if !ok {
				return nil, fail(fmt.Errorf("want name: expr"))
			}
			name = strings.TrimSpace(name)
			var tags []string
			if j := strings.Index(name, "["); j >= 0 {
				k := strings.Index(name, "]")
				tags = splitTrim(name[j+1:k], ",")
				name = strings.TrimSpace(name[:j])
			}
			e, err := ParseExpr(rest)
			if err != nil {
				return nil, fail(err)
			}
			if it.kw == "axiom" {
				cf.Axioms = append(cf.Axioms, &Axiom{Name: name, Expr: e, Pkg: pkg, Src: rest})
			} else {
				cf.Lemmas = append(cf.Lemmas, &Lemma{Name: name, Expr: e, Pkg: pkg, Tags: tags, Src: rest})
			}
		default:
			if cur == nil {
				return nil, fail(fmt.Errorf("clause outside func"))
			}
			switch it.kw {
			case "pure":
				cur.Pure = append(cur.Pure, splitTrim(it.text, ",")...)
			case "callback":
				// callback <field>: calls through this function-valued field are assumed not to touch the modelled heap
				for _, c := range splitTrim(it.text, ",") {
					name, rk, has := strings.Cut(c, "=")
					name = strings.TrimSpace(name)
					cur.Callbacks = append(cur.Callbacks, name)
					if has {
						n, err := strconv.Atoi(strings.TrimSpace(rk))
						if err != nil {
							return nil, fail(err)
						}
						if cur.CallbackRank == nil {
							cur.CallbackRank = map[string]int{}
						}
						cur.CallbackRank[name] = n
					}
				}
			case "input":
				// input <traced call>: <expr over result>: assumed about what the external source delivers
				name, ex, ok := strings.Cut(it.text, ":")
				if !ok {
					return nil, fail(fmt.Errorf("want: input <call>: <expr>"))
				}
				e, err := ParseExpr(ex)
				if err != nil {
					return nil, fail(err)
				}
				if cur.InputAssume == nil {
					cur.InputAssume = map[string][]*Clause{}
				}
				name = strings.TrimSpace(name)
				cur.InputAssume[name] = append(cur.InputAssume[name], &Clause{Kind: "ensures", Line: it.line, Expr: e, Src: strings.TrimSpace(ex)})
			case "ghost":
				// ghost name sort = init
				lhs, rhs, ok := strings.Cut(it.text, "=")
				f := strings.Fields(lhs)
				if !ok || len(f) != 2 {
					return nil, fail(fmt.Errorf("want: ghost name sort = init"))
				}
				e, err := ParseExpr(rhs)
				if err != nil {
					return nil, fail(err)
				}
				cur.Ghosts = append(cur.Ghosts, &GhostVar{Name: f[0], Sort: f[1], Init: e, Updates: map[int]Expr{}, EndUpdates: map[int]Expr{}})
			case "inline":
				cur.Inline = true
			case "trusted":
				cur.Trusted = true
			case "terminates":
				cur.Terminates = true
			case "panics":
				cur.MayPanic = true
			case "quiet":
				cur.Quiet = true
			default:
				text := it.text
				c := &Clause{Kind: it.kw, Line: it.line}
				if it.kw == "loop" {
					f := strings.Fields(text)
					if len(f) < 3 {
						return nil, fail(fmt.Errorf("want: loop N invariant|decreases expr"))
					}
					n, err := strconv.Atoi(f[0])
					if err != nil {
						return nil, fail(err)
					}
					c.Loop = n
					c.Kind = f[1]
					if c.Kind == "ghost" || c.Kind == "ghost-end" {
						// loop N ghost name := expr      (at the loop head, after the invariant)
						// loop N ghost-end name := expr  (at the end of every iteration, before the invariant is re-checked)
						rest := strings.TrimSpace(text[strings.Index(text, c.Kind)+len(c.Kind):])
						name, ex, ok := strings.Cut(rest, ":=")
						if !ok {
							return nil, fail(fmt.Errorf("want: loop N ghost name := expr"))
						}
						e, err := ParseExpr(ex)
						if err != nil {
							return nil, fail(err)
						}
						found := false
						for _, g := range cur.Ghosts {
							if g.Name == strings.TrimSpace(name) {
								if c.Kind == "ghost-end" {
									g.EndUpdates[n] = e
								} else {
									g.Updates[n] = e
								}
								cur.GhostUpdates = append(cur.GhostUpdates, GhostUpdate{Loop: n, End: c.Kind == "ghost-end", Name: g.Name, Expr: e})
								found = true
							}
						}
						if !found {
							return nil, fail(fmt.Errorf("undeclared ghost variable %s", name))
						}
						continue
					}
					if c.Kind != "invariant" && c.Kind != "decreases" {
						return nil, fail(fmt.Errorf("want invariant or decreases"))
					}
					text = strings.TrimSpace(text[strings.Index(text, f[1])+len(f[1]):])
				}
				for {
					text = strings.TrimSpace(text)
					if strings.HasPrefix(text, "[") {
						k := strings.Index(text, "]")
						c.Tags = append(c.Tags, splitTrim(text[1:k], ",")...)
						text = text[k+1:]
						continue
					}
					if strings.HasPrefix(text, "@") {
						k := strings.Index(text, ":")
						if k < 0 {
							return nil, fail(fmt.Errorf("label without ':'"))
						}
						c.Label = strings.TrimSpace(text[1:k])
						text = text[k+1:]
						continue
					}
					break
				}
				c.Src = text
				key := fmt.Sprintf("%s/%d", c.Kind, c.Loop)
				counts[key]++
				c.Ord = counts[key]
				if c.Kind == "modifies" {
					cur.HasMods = true
					if text == "*" {
						cur.NoFrame = true
					} else if text == "callbacks" {
						// the function's own effect is nothing; it may call the function values it is handed, so at a
						// call site its effect is the union of the modifies clauses of those (statically known) values
						cur.ModCallbacks = true
					} else if text != "nothing" {
						for _, part := range splitTop(text, ',') {
							e, err := ParseExpr(strings.ReplaceAll(part, "[*]", "[$all]"))
							if err != nil {
								return nil, fail(err)
							}
							c.Mods = append(c.Mods, e)
						}
					}
				} else {
					e, err := ParseExpr(text)
					if err != nil {
						return nil, fail(err)
					}
					c.Expr = e
				}
				cur.Clauses = append(cur.Clauses, c)
			}
		}
	}
	return cf, nil
}

func splitTrim(s, sep string) []string {
	var out []string
	for _, p := range strings.Split(s, sep) {
		p = strings.TrimSpace(p)
		if p != "" {
			out = append(out, p)
		}
	}
	return out
}

// splitTop splits on sep outside of brackets.
func splitTop(s string, sep rune) []string {
	var out []string
	d := 0
	last := 0
	for i, c := range s {
		switch c {
		case '(', '[', '{':
			d++
		case ')', ']', '}':
			d--
		default:
			if c == sep && d == 0 {
				out = append(out, strings.TrimSpace(s[last:i]))
				last = i + 1
			}
		}
	}
	out = append(out, strings.TrimSpace(s[last:]))
	return out
}

func parseParams(s string) ([]Param, error) {
	var ps []Param
	s = strings.TrimSpace(s)
	if s == "" {
		return nil, nil
	}
	for _, part := range splitTop(s, ',') {
		f := strings.SplitN(part, " ", 2)
		p := Param{Name: f[0]}
		if len(f) == 2 {
			p.Type = strings.TrimSpace(f[1])
		}
		ps = append(ps, p)
	}
	// Go style "a, b T": propagate types backwards
	for i := len(ps) - 2; i >= 0; i-- {
		if ps[i].Type == "" {
			ps[i].Type = ps[i+1].Type
		}
	}
	return ps, nil
}

func parseDef(text string, pred bool) (*Def, error) {
	lhs, rhs, ok := strings.Cut(text, ":=")
	if !ok {
		return nil, fmt.Errorf("want name(params) [type] := expr")
	}
	i := strings.Index(lhs, "(")
	j := strings.LastIndex(lhs, ")")
	if i < 0 || j < i {
		return nil, fmt.Errorf("bad parameter list")
	}
	d := &Def{Name: strings.TrimSpace(lhs[:i])}
	ps, err := parseParams(lhs[i+1 : j])
	if err != nil {
		return nil, err
	}
	d.Params = ps
	d.Ret = strings.TrimSpace(lhs[j+1:])
	if pred || d.Ret == "" {
		d.Ret = "bool"
	}
	e, err := ParseExpr(rhs)
	if err != nil {
		return nil, err
	}
	d.Body = e
	return d, nil
}

func parseSpecDecl(text string) (*SpecFn, error) {
	i := strings.Index(text, "(")
	j := strings.LastIndex(text, ")")
	if i < 0 || j < i {
		return nil, fmt.Errorf("bad parameter list")
	}
	s := &SpecFn{Name: strings.TrimSpace(text[:i])}
	ps, err := parseParams(text[i+1 : j])
	if err != nil {
		return nil, err
	}
	s.Params = ps
	s.Ret = strings.TrimSpace(text[j+1:])
	if s.Ret == "" {
		s.Ret = "bool"
	}
	return s, nil
}

// ---------------------------------------------------------------------------------------
// Expressions

type Expr interface{ String() string }

type (
	EIdent struct{ Name string }
	EInt   struct{ V string }
	EReal  struct{ V string }
	EStr   struct{ V string }
	EBool  struct{ V bool }
	EUnary struct {
		Op string
		X  Expr
	}
	EBinary struct {
		Op   string
		X, Y Expr
	}
	ESel struct {
		X    Expr
		Name string
	}
	EIndex struct {
		X, I Expr
	}
	ESlice struct {
		X, Lo, Hi Expr
	}
	ECall struct {
		Fn     string
		Args   []Expr
		Target Expr // call through a function-valued expression (x.f(args)) when Fn == ""
	}
	EQuant struct {
		Forall bool
		Vars   []Param
		Body   Expr
		Trig   []Expr
	}
	EStruct struct {
		Type   string
		Names  []string
		Values []Expr
	}
	EOld    struct{ X Expr }
	EResult struct{ Idx int } // -1 = whole result
	ECond   struct{ C, A, B Expr }
)

func (e *EIdent) String() string  { return e.Name }
func (e *EInt) String() string    { return e.V }
func (e *EReal) String() string   { return e.V }
func (e *EStr) String() string    { return strconv.Quote(e.V) }
func (e *EBool) String() string   { return fmt.Sprint(e.V) }
func (e *EUnary) String() string  { return e.Op + e.X.String() }
func (e *EBinary) String() string { return "(" + e.X.String() + " " + e.Op + " " + e.Y.String() + ")" }
func (e *ESel) String() string    { return e.X.String() + "." + e.Name }
func (e *EIndex) String() string  { return e.X.String() + "[" + e.I.String() + "]" }
func (e *ESlice) String() string {
	lo, hi := "", ""
	if e.Lo != nil {
		lo = e.Lo.String()
	}
	if e.Hi != nil {
		hi = e.Hi.String()
	}
	return e.X.String() + "[" + lo + ":" + hi + "]"
}
func (e *ECall) String() string {
	if e.Fn == "" && e.Target != nil {
		var as []string
		for _, a := range e.Args {
			as = append(as, a.String())
		}
		return e.Target.String() + "(" + strings.Join(as, ", ") + ")"
	}
	var as []string
	for _, a := range e.Args {
		as = append(as, a.String())
	}
	return e.Fn + "(" + strings.Join(as, ", ") + ")"
}
func (e *EQuant) String() string {
	q := "exists"
	if e.Forall {
		q = "forall"
	}
	var vs []string
	for _, v := range e.Vars {
		vs = append(vs, v.Name+" "+v.Type)
	}
	return "(" + q + " " + strings.Join(vs, ", ") + " :: " + e.Body.String() + ")"
}
func (e *EOld) String() string { return "old(" + e.X.String() + ")" }
func (e *EStruct) String() string {
	var fs []string
	for i, n := range e.Names {
		fs = append(fs, n+": "+e.Values[i].String())
	}
	return e.Type + "{" + strings.Join(fs, ", ") + "}"
}
func (e *EResult) String() string {
	if e.Idx < 0 {
		return "result"
	}
	return fmt.Sprintf("result.%d", e.Idx)
}
func (e *ECond) String() string {
	return "(" + e.C.String() + " ? " + e.A.String() + " : " + e.B.String() + ")"
}

type tok struct {
	kind string // id int real str op eof
	text string
	pos  int
}

type lexer struct {
	src  string
	toks []tok
	p    int
}

func lex(src string) ([]tok, error) {
	var toks []tok
	i := 0
	for i < len(src) {
		c := src[i]
		switch {
		case c == ' ' || c == '\t' || c == '\n' || c == '\r':
			i++
		case unicode.IsLetter(rune(c)) || c == '_' || c == '$':
			j := i + 1
			for j < len(src) && (unicode.IsLetter(rune(src[j])) || unicode.IsDigit(rune(src[j])) || src[j] == '_' || src[j] == '$') {
				j++
			}
			toks = append(toks, tok{"id", src[i:j], i})
			i = j
		case c >= '0' && c <= '9':
			j := i
			isReal := false
			for j < len(src) && (src[j] >= '0' && src[j] <= '9') {
				j++
			}
			if j+1 < len(src) && src[j] == '.' && src[j+1] >= '0' && src[j+1] <= '9' {
				isReal = true
				j++
				for j < len(src) && (src[j] >= '0' && src[j] <= '9') {
					j++
				}
			}
			k := "int"
			if isReal {
				k = "real"
			}
			toks = append(toks, tok{k, src[i:j], i})
			i = j
		case c == '"':
			j := i + 1
			for j < len(src) && src[j] != '"' {
				if src[j] == '\\' {
					j++
				}
				j++
			}
			if j >= len(src) {
				return nil, fmt.Errorf("unterminated string at %d", i)
			}
			s, err := strconv.Unquote(src[i : j+1])
			if err != nil {
				return nil, err
			}
			toks = append(toks, tok{"str", s, i})
			i = j + 1
		case c == '\'':
			j := i + 1
			for j < len(src) && src[j] != '\'' {
				if src[j] == '\\' {
					j++
				}
				j++
			}
			if j >= len(src) {
				return nil, fmt.Errorf("unterminated rune at %d", i)
			}
			r, _, _, err := strconv.UnquoteChar(src[i+1:j], '\'')
			if err != nil {
				return nil, err
			}
			toks = append(toks, tok{"int", strconv.Itoa(int(r)), i})
			i = j + 1
		default:
			ops := []string{"<==>", "==>", "::", ":=", "==", "!=", "<=", ">=", "&&", "||", "(", ")", "[", "]", "{", "}", ",", ".", ":", "<", ">", "+", "-", "*", "/", "%", "!", "?", "&"}
			matched := false
			for _, op := range ops {
				if strings.HasPrefix(src[i:], op) {
					toks = append(toks, tok{"op", op, i})
					i += len(op)
					matched = true
					break
				}
			}
			if !matched {
				return nil, fmt.Errorf("unexpected character %q at %d in %q", c, i, src)
			}
		}
	}
	toks = append(toks, tok{"eof", "", len(src)})
	return toks, nil
}

func ParseExpr(src string) (Expr, error) {
	toks, err := lex(src)
	if err != nil {
		return nil, err
	}
	l := &lexer{src: src, toks: toks}
	e, err := l.parseExpr()
	if err != nil {
		return nil, err
	}
	if l.peek().kind != "eof" {
		return nil, fmt.Errorf("unexpected %q at %d in %q", l.peek().text, l.peek().pos, src)
	}
	return e, nil
}

func (l *lexer) peek() tok { return l.toks[l.p] }
func (l *lexer) next() tok { t := l.toks[l.p]; l.p++; return t }
func (l *lexer) isOp(s string) bool {
	t := l.peek()
	return t.kind == "op" && t.text == s
}
func (l *lexer) accept(s string) bool {
	if l.isOp(s) {
		l.p++
		return true
	}
	return false
}
func (l *lexer) expect(s string) error {
	if !l.accept(s) {
		return fmt.Errorf("expected %q, got %q at %d in %q", s, l.peek().text, l.peek().pos, l.src)
	}
	return nil
}

func (l *lexer) parseExpr() (Expr, error) { return l.parseCond() }

func (l *lexer) parseCond() (Expr, error) {
	c, err := l.parseIff()
	if err != nil {
		return nil, err
	}
	if l.accept("?") {
		a, err := l.parseCond()
		if err != nil {
			return nil, err
		}
		if err := l.expect(":"); err != nil {
			return nil, err
		}
		b, err := l.parseCond()
		if err != nil {
			return nil, err
		}
		return &ECond{c, a, b}, nil
	}
	return c, nil
}

func (l *lexer) parseIff() (Expr, error) {
	x, err := l.parseImpl()
	if err != nil {
		return nil, err
	}
	for l.accept("<==>") {
		y, err := l.parseImpl()
		if err != nil {
			return nil, err
		}
		x = &EBinary{"<==>", x, y}
	}
	return x, nil
}

func (l *lexer) parseImpl() (Expr, error) {
	x, err := l.parseOr()
	if err != nil {
		return nil, err
	}
	if l.accept("==>") {
		y, err := l.parseImpl()
		if err != nil {
			return nil, err
		}
		return &EBinary{"==>", x, y}, nil
	}
	return x, nil
}

func (l *lexer) parseOr() (Expr, error) {
	x, err := l.parseAnd()
	if err != nil {
		return nil, err
	}
	for l.accept("||") {
		y, err := l.parseAnd()
		if err != nil {
			return nil, err
		}
		x = &EBinary{"||", x, y}
	}
	return x, nil
}

func (l *lexer) parseAnd() (Expr, error) {
	x, err := l.parseCmp()
	if err != nil {
		return nil, err
	}
	for l.accept("&&") {
		y, err := l.parseCmp()
		if err != nil {
			return nil, err
		}
		x = &EBinary{"&&", x, y}
	}
	return x, nil
}

var cmpOps = map[string]bool{"==": true, "!=": true, "<": true, "<=": true, ">": true, ">=": true}

func (l *lexer) parseCmp() (Expr, error) {
	x, err := l.parseAdd()
	if err != nil {
		return nil, err
	}
	var result Expr
	for {
		t := l.peek()
		var op string
		if t.kind == "op" && cmpOps[t.text] {
			op = t.text
		} else if t.kind == "id" && t.text == "in" {
			op = "in"
		} else {
			break
		}
		l.next()
		y, err := l.parseAdd()
		if err != nil {
			return nil, err
		}
		c := &EBinary{op, x, y}
		if result == nil {
			result = c
		} else {
			result = &EBinary{"&&", result, c}
		}
		x = y
	}
	if result != nil {
		return result, nil
	}
	return x, nil
}

func (l *lexer) parseAdd() (Expr, error) {
	x, err := l.parseMul()
	if err != nil {
		return nil, err
	}
	for l.isOp("+") || l.isOp("-") {
		op := l.next().text
		y, err := l.parseMul()
		if err != nil {
			return nil, err
		}
		x = &EBinary{op, x, y}
	}
	return x, nil
}

func (l *lexer) parseMul() (Expr, error) {
	x, err := l.parseUnary()
	if err != nil {
		return nil, err
	}
	for l.isOp("*") || l.isOp("/") || l.isOp("%") {
		op := l.next().text
		y, err := l.parseUnary()
		if err != nil {
			return nil, err
		}
		x = &EBinary{op, x, y}
	}
	return x, nil
}

func (l *lexer) parseUnary() (Expr, error) {
	for _, op := range []string{"!", "-", "*", "&"} {
		if l.accept(op) {
			x, err := l.parseUnary()
			if err != nil {
				return nil, err
			}
			return &EUnary{op, x}, nil
		}
	}
	return l.parsePostfix()
}

func (l *lexer) parsePostfix() (Expr, error) {
	x, err := l.parsePrimary()
	if err != nil {
		return nil, err
	}
	for {
		// struct literal: Type{f: e, ...} or pkg.Type{...}
		if l.isOp("{") {
			tn := ""
			switch v := x.(type) {
			case *EIdent:
				tn = v.Name
			case *ESel:
				if id, ok := v.X.(*EIdent); ok {
					tn = id.Name + "." + v.Name
				}
			}
			if tn != "" && len(tn) > 0 && (strings.Contains(tn, ".") || (tn[0] >= 'A' && tn[0] <= 'Z')) {
				l.next()
				st := &EStruct{Type: tn}
				for !l.isOp("}") {
					n := l.next()
					if n.kind != "id" {
						return nil, fmt.Errorf("expected field name in struct literal at %d in %q", n.pos, l.src)
					}
					if err := l.expect(":"); err != nil {
						return nil, err
					}
					v, err := l.parseExpr()
					if err != nil {
						return nil, err
					}
					st.Names = append(st.Names, n.text)
					st.Values = append(st.Values, v)
					if !l.accept(",") {
						break
					}
				}
				if err := l.expect("}"); err != nil {
					return nil, err
				}
				x = st
				continue
			}
		}
		if _, isSel := x.(*ESel); isSel && l.isOp("(") {
			l.next()
			var args []Expr
			if !l.isOp(")") {
				for {
					a, err := l.parseExpr()
					if err != nil {
						return nil, err
					}
					args = append(args, a)
					if !l.accept(",") {
						break
					}
				}
			}
			if err := l.expect(")"); err != nil {
				return nil, err
			}
			x = &ECall{Target: x, Args: args}
			continue
		}
		switch {
		case l.accept("."):
			t := l.next()
			if t.kind == "int" {
				if r, ok := x.(*EResult); ok && r.Idx < 0 {
					n, _ := strconv.Atoi(t.text)
					x = &EResult{n}
					continue
				}
				return nil, fmt.Errorf("numeric selector on non-result")
			}
			if t.kind != "id" {
				return nil, fmt.Errorf("expected field name at %d in %q", t.pos, l.src)
			}
			x = &ESel{x, t.text}
		case l.accept("["):
			if l.accept(":") {
				var hi Expr
				if !l.isOp("]") {
					hi, err = l.parseExpr()
					if err != nil {
						return nil, err
					}
				}
				if err := l.expect("]"); err != nil {
					return nil, err
				}
				x = &ESlice{x, nil, hi}
				continue
			}
			i, err := l.parseExpr()
			if err != nil {
				return nil, err
			}
			if l.accept(":") {
				var hi Expr
				if !l.isOp("]") {
					hi, err = l.parseExpr()
					if err != nil {
						return nil, err
					}
				}
				if err := l.expect("]"); err != nil {
					return nil, err
				}
				x = &ESlice{x, i, hi}
				continue
			}
			if err := l.expect("]"); err != nil {
				return nil, err
			}
			x = &EIndex{x, i}
		default:
			return x, nil
		}
	}
}

func (l *lexer) parsePrimary() (Expr, error) {
	t := l.next()
	switch t.kind {
	case "int":
		return &EInt{t.text}, nil
	case "real":
		return &EReal{t.text}, nil
	case "str":
		return &EStr{t.text}, nil
	case "op":
		if t.text == "(" {
			e, err := l.parseExpr()
			if err != nil {
				return nil, err
			}
			if err := l.expect(")"); err != nil {
				return nil, err
			}
			return e, nil
		}
	case "id":
		switch t.text {
		case "true":
			return &EBool{true}, nil
		case "false":
			return &EBool{false}, nil
		case "result":
			return &EResult{-1}, nil
		case "old":
			if err := l.expect("("); err != nil {
				return nil, err
			}
			e, err := l.parseExpr()
			if err != nil {
				return nil, err
			}
			if err := l.expect(")"); err != nil {
				return nil, err
			}
			return &EOld{e}, nil
		case "forall", "exists":
			var vars []Param
			for {
				n := l.next()
				if n.kind != "id" {
					return nil, fmt.Errorf("expected bound variable at %d in %q", n.pos, l.src)
				}
				p := Param{Name: n.text}
				// optional type: tokens until ',' or '::'
				start := l.peek().pos
				for !l.isOp(",") && !l.isOp("::") && l.peek().kind != "eof" {
					l.next()
				}
				p.Type = strings.TrimSpace(l.src[start:l.peek().pos])
				vars = append(vars, p)
				if l.accept(",") {
					continue
				}
				break
			}
			if err := l.expect("::"); err != nil {
				return nil, err
			}
			for i := len(vars) - 2; i >= 0; i-- {
				if vars[i].Type == "" {
					vars[i].Type = vars[i+1].Type
				}
			}
			q := &EQuant{Forall: t.text == "forall", Vars: vars}
			for l.accept("{") {
				for {
					tr, err := l.parseExpr()
					if err != nil {
						return nil, err
					}
					q.Trig = append(q.Trig, tr)
					if !l.accept(",") {
						break
					}
				}
				if err := l.expect("}"); err != nil {
					return nil, err
				}
			}
			body, err := l.parseExpr()
			if err != nil {
				return nil, err
			}
			q.Body = body
			return q, nil
		}
		if l.accept("(") {
			var args []Expr
			if !l.isOp(")") {
				for {
					a, err := l.parseExpr()
					if err != nil {
						return nil, err
					}
					args = append(args, a)
					if !l.accept(",") {
						break
					}
				}
			}
			if err := l.expect(")"); err != nil {
				return nil, err
			}
			return &ECall{Fn: t.text, Args: args}, nil
		}
		return &EIdent{t.text}, nil
	}
	return nil, fmt.Errorf("unexpected %q at %d in %q", t.text, t.pos, l.src)
}
