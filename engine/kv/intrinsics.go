package kv

import (
	"fmt"
	"go/types"
	"strings"
	"time"

	"golang.org/x/tools/go/ssa"
)

type intrinsicFn func(a *Act, st *State, callee *ssa.Function, args []Val, pos tokenPos) Val
type invokeFn func(a *Act, st *State, com *ssa.CallCommon, pos tokenPos) Val

func intrinsicKey(fn *ssa.Function) string {
	if o := fn.Origin(); o != nil {
		return o.String()
	}
	return fn.String()
}

var intrinsicEffects = map[string]func(a *Act, m *modSet, com *ssa.CallCommon){
	// Read may fix FieldsPerRecord (see the intrinsic)
	"(*encoding/csv.Reader).Read": func(a *Act, m *modSet, com *ssa.CallCommon) {
		rt := derefType(com.Args[0].Type())
		stt := rt.Underlying().(*types.Struct)
		for i := 0; i < stt.NumFields(); i++ {
			if stt.Field(i).Name() == "FieldsPerRecord" {
				h, hs := a.u.D.FieldHeap(rt, i)
				hm := m.heap(h, hs)
				hm.other = true
				hm.unknown = true
			}
		}
	},
}

var invokeIntrinsics = map[string]invokeFn{}

func (d *Decls) NamedTag(name string) int {
	if n, ok := d.tags[name]; ok {
		return n
	}
	n := len(d.tags) + 1
	d.tags[name] = n
	d.tagList = append(d.tagList, name)
	return n
}

func t1(t Term, typ types.Type) Val { return Val{T: t, Typ: typ} }

func resType(fn *ssa.Function, i int) types.Type { return fn.Signature.Results().At(i).Type() }

func pureFresh(a *Act, st *State, callee *ssa.Function, args []Val, pos tokenPos) Val {
	return a.freshResult(st, callee.Signature)
}

// uninterp: result is an uninterpreted function of the arguments.
func uninterp(name string) intrinsicFn {
	return func(a *Act, st *State, callee *ssa.Function, args []Val, pos tokenPos) Val {
		d := a.u.D
		var sorts []string
		var ts []Term
		for _, x := range args {
			if x.Loc != nil {
				fail("local address passed to %s", name)
			}
			sorts = append(sorts, d.SortOf(x.Typ))
			ts = append(ts, x.T)
		}
		rt := resType(callee, 0)
		f := d.Fun(name, sorts, d.SortOf(rt))
		return t1(app(f, ts...), rt)
	}
}

func freshError(a *Act, st *State) Term {
	d := a.u.D
	c := d.Fresh("err", "Iface")
	a.u.Fact(eq(app("itag", c), intLit(int64(d.NamedTag("<opaque error>")))))
	a.assumeAllocatedIface(st, c)
	return c
}

func (a *Act) assumeAllocatedIface(st *State, c Term) {
	st.assume(app("<", app("rid", app("iptr", c)), st.alloc))
}

var intrinsics map[string]intrinsicFn

func init() {
	intrinsics = map[string]intrinsicFn{
		// ---- time (every time.Time in scope is a UTC midnight: day number since 0001-01-01) ----
		"(time.Time).Before": func(a *Act, st *State, c *ssa.Function, x []Val, p tokenPos) Val {
			return t1(app("<", x[0].T, x[1].T), tBool)
		},
		"(time.Time).After": func(a *Act, st *State, c *ssa.Function, x []Val, p tokenPos) Val {
			return t1(app(">", x[0].T, x[1].T), tBool)
		},
		"(time.Time).Equal": func(a *Act, st *State, c *ssa.Function, x []Val, p tokenPos) Val {
			return t1(eq(x[0].T, x[1].T), tBool)
		},
		"(time.Time).Compare": func(a *Act, st *State, c *ssa.Function, x []Val, p tokenPos) Val {
			return t1(ite(app("<", x[0].T, x[1].T), "(- 1)", ite(eq(x[0].T, x[1].T), "0", "1")), tInt)
		},
		"(time.Time).IsZero": func(a *Act, st *State, c *ssa.Function, x []Val, p tokenPos) Val {
			return t1(eq(x[0].T, "0"), tBool)
		},
		"(time.Time).AddDate": func(a *Act, st *State, c *ssa.Function, x []Val, p tokenPos) Val {
			if x[1].T == "0" && x[2].T == "0" {
				return t1(app("+", x[0].T, x[3].T), resType(c, 0))
			}
			f := a.u.D.Fun("time_adddate", []string{"Int", "Int", "Int", "Int"}, "Int")
			return t1(app(f, x[0].T, x[1].T, x[2].T, x[3].T), resType(c, 0))
		},
		"(time.Time).Weekday": func(a *Act, st *State, c *ssa.Function, x []Val, p tokenPos) Val {
			return t1(app("mod", app("+", x[0].T, "1"), "7"), resType(c, 0))
		},
		"(time.Time).Year": uninterp("time_year"),
		"(time.Time).Month": func(a *Act, st *State, c *ssa.Function, x []Val, p tokenPos) Val {
			f := a.u.D.Fun("time_month", []string{"Int"}, "Int")
			r := app(f, x[0].T)
			st.assume(and(app("<=", "1", r), app("<=", r, "12")))
			return t1(r, resType(c, 0))
		},
		"(time.Time).Day": func(a *Act, st *State, c *ssa.Function, x []Val, p tokenPos) Val {
			f := a.u.D.Fun("time_day", []string{"Int"}, "Int")
			r := app(f, x[0].T)
			st.assume(and(app("<=", "1", r), app("<=", r, "31")))
			return t1(r, resType(c, 0))
		},
		// durations are nanoseconds (mathematical integers); times are whole days
		"(time.Time).Sub": func(a *Act, st *State, c *ssa.Function, x []Val, p tokenPos) Val {
			return t1(app("*", app("-", x[0].T, x[1].T), "86400000000000"), resType(c, 0))
		},
		"(time.Duration).Hours": func(a *Act, st *State, c *ssa.Function, x []Val, p tokenPos) Val {
			return t1(app("/", app("to_real", x[0].T), "3600000000000.0"), resType(c, 0))
		},
		"(time.Time).Local":  func(a *Act, st *State, c *ssa.Function, x []Val, p tokenPos) Val { return t1(x[0].T, resType(c, 0)) },
		"(time.Time).Format": pureFresh,
		"(time.Time).String": pureFresh,
		"time.Now":           pureFresh,
		"time.Date": func(a *Act, st *State, c *ssa.Function, x []Val, p tokenPos) Val {
			// a constant calendar date is its day number (proleptic Gregorian, day 0 = 0001-01-01)
			if n, ok := civilDayNumber(x[0].T, x[1].T, x[2].T); ok {
				return t1(intLit(n), resType(c, 0))
			}
			f := a.u.D.Fun("time_date", []string{"Int", "Int", "Int"}, "Int")
			return t1(app(f, x[0].T, x[1].T, x[2].T), resType(c, 0))
		},
		"time.Parse": func(a *Act, st *State, c *ssa.Function, x []Val, p tokenPos) Val {
			d := a.u.D
			t := d.Fresh("parsed", "Int")
			e := d.Fresh("perr", "Iface")
			a.u.Fact(or(eq(e, "niliface"), eq(app("itag", e), intLit(int64(d.NamedTag("<opaque error>"))))))
			a.assumeAllocatedIface(st, e)
			return Val{Tuple: []Val{{T: t, Typ: resType(c, 0)}, {T: e, Typ: resType(c, 1)}}}
		},
		"(time.Month).String": pureFresh,

		// ---- shopspring/decimal: Decimal = Real ----
		"(github.com/shopspring/decimal.Decimal).Add": func(a *Act, st *State, c *ssa.Function, x []Val, p tokenPos) Val {
			return t1(app("+", x[0].T, x[1].T), resType(c, 0))
		},
		"(github.com/shopspring/decimal.Decimal).Sub": func(a *Act, st *State, c *ssa.Function, x []Val, p tokenPos) Val {
			return t1(app("-", x[0].T, x[1].T), resType(c, 0))
		},
		"(github.com/shopspring/decimal.Decimal).Neg": func(a *Act, st *State, c *ssa.Function, x []Val, p tokenPos) Val {
			return t1(app("-", x[0].T), resType(c, 0))
		},
		"(github.com/shopspring/decimal.Decimal).Abs": func(a *Act, st *State, c *ssa.Function, x []Val, p tokenPos) Val {
			return t1(app("absr", x[0].T), resType(c, 0))
		},
		"(github.com/shopspring/decimal.Decimal).Mul": func(a *Act, st *State, c *ssa.Function, x []Val, p tokenPos) Val {
			return t1(app(dmulFn(a.u.D), x[0].T, x[1].T), resType(c, 0))
		},
		"(github.com/shopspring/decimal.Decimal).Div": func(a *Act, st *State, c *ssa.Function, x []Val, p tokenPos) Val {
			a.oblige(st, "div", "decimal.Div", p, "decimal division by zero", not(eq(x[1].T, "0.0")))
			st.assume(not(eq(x[1].T, "0.0")))
			return t1(app(ddivFn(a.u.D), x[0].T, x[1].T), resType(c, 0))
		},
		"(github.com/shopspring/decimal.Decimal).Equal": func(a *Act, st *State, c *ssa.Function, x []Val, p tokenPos) Val {
			return t1(eq(x[0].T, x[1].T), tBool)
		},
		"(github.com/shopspring/decimal.Decimal).Equals": func(a *Act, st *State, c *ssa.Function, x []Val, p tokenPos) Val {
			return t1(eq(x[0].T, x[1].T), tBool)
		},
		"(github.com/shopspring/decimal.Decimal).IsZero": func(a *Act, st *State, c *ssa.Function, x []Val, p tokenPos) Val {
			return t1(eq(x[0].T, "0.0"), tBool)
		},
		"(github.com/shopspring/decimal.Decimal).IsNegative": func(a *Act, st *State, c *ssa.Function, x []Val, p tokenPos) Val {
			return t1(app("<", x[0].T, "0.0"), tBool)
		},
		"(github.com/shopspring/decimal.Decimal).IsPositive": func(a *Act, st *State, c *ssa.Function, x []Val, p tokenPos) Val {
			return t1(app(">", x[0].T, "0.0"), tBool)
		},
		"(github.com/shopspring/decimal.Decimal).LessThan": func(a *Act, st *State, c *ssa.Function, x []Val, p tokenPos) Val {
			return t1(app("<", x[0].T, x[1].T), tBool)
		},
		"(github.com/shopspring/decimal.Decimal).GreaterThan": func(a *Act, st *State, c *ssa.Function, x []Val, p tokenPos) Val {
			return t1(app(">", x[0].T, x[1].T), tBool)
		},
		"(github.com/shopspring/decimal.Decimal).LessThanOrEqual": func(a *Act, st *State, c *ssa.Function, x []Val, p tokenPos) Val {
			return t1(app("<=", x[0].T, x[1].T), tBool)
		},
		"(github.com/shopspring/decimal.Decimal).GreaterThanOrEqual": func(a *Act, st *State, c *ssa.Function, x []Val, p tokenPos) Val {
			return t1(app(">=", x[0].T, x[1].T), tBool)
		},
		"(github.com/shopspring/decimal.Decimal).Cmp": func(a *Act, st *State, c *ssa.Function, x []Val, p tokenPos) Val {
			return t1(ite(app("<", x[0].T, x[1].T), "(- 1)", ite(eq(x[0].T, x[1].T), "0", "1")), tInt)
		},
		"(github.com/shopspring/decimal.Decimal).Sign": func(a *Act, st *State, c *ssa.Function, x []Val, p tokenPos) Val {
			return t1(ite(app("<", x[0].T, "0.0"), "(- 1)", ite(eq(x[0].T, "0.0"), "0", "1")), tInt)
		},
		"(github.com/shopspring/decimal.Decimal).Truncate": func(a *Act, st *State, c *ssa.Function, x []Val, p tokenPos) Val {
			if x[1].T == "8" {
				return t1(app(a.u.D.Trunc8(), x[0].T), resType(c, 0))
			}
			f := a.u.D.Fun("dtrunc", []string{"Real", "Int"}, "Real")
			return t1(app(f, x[0].T, x[1].T), resType(c, 0))
		},
		"(github.com/shopspring/decimal.Decimal).Round":       uninterp("dround"),
		"(github.com/shopspring/decimal.Decimal).String":      uninterp("decimal_String"),
		"(github.com/shopspring/decimal.Decimal).StringFixed": uninterp("dstringfixed"),
		"(github.com/shopspring/decimal.Decimal).Float64": func(a *Act, st *State, c *ssa.Function, x []Val, p tokenPos) Val {
			// decimal -> float64 rounds to the nearest double: an uninterpreted f64 (exact on zero); the second
			// result says whether the conversion was exact
			f := a.f64(x[0].T)
			ex := a.u.D.Fresh("exact", "Bool")
			a.u.Fact(implies(ex, eq(f, x[0].T)))
			return Val{Tuple: []Val{{T: f, Typ: resType(c, 0)}, {T: ex, Typ: tBool}}}
		},
		"(github.com/shopspring/decimal.Decimal).InexactFloat64": func(a *Act, st *State, c *ssa.Function, x []Val, p tokenPos) Val {
			return t1(a.f64(x[0].T), resType(c, 0))
		},
		"(github.com/shopspring/decimal.Decimal).QuoRem": func(a *Act, st *State, c *ssa.Function, x []Val, p tokenPos) Val {
			d := a.u.D
			a.oblige(st, "div", "decimal.QuoRem", p, "decimal QuoRem by zero", not(eq(x[1].T, "0.0")))
			st.assume(not(eq(x[1].T, "0.0"))) // execution continues only if the library did not panic
			q := d.Fresh("quo", "Real")
			r := d.Fresh("rem", "Real")
			// d = d2*q + r ; |r| < |d2| * 10^-prec ; r has the sign of d (or is zero)
			st.assume(eq(x[0].T, app("+", app("*", x[1].T, q), r)))
			st.assume(implies(app(">=", x[0].T, "0.0"), app(">=", r, "0.0")))
			st.assume(implies(app("<=", x[0].T, "0.0"), app("<=", r, "0.0")))
			return Val{Tuple: []Val{{T: q, Typ: resType(c, 0)}, {T: r, Typ: resType(c, 1)}}}
		},
		"github.com/shopspring/decimal.NewFromInt": func(a *Act, st *State, c *ssa.Function, x []Val, p tokenPos) Val {
			return t1(toReal(x[0].T), resType(c, 0))
		},
		"github.com/shopspring/decimal.NewFromInt32": func(a *Act, st *State, c *ssa.Function, x []Val, p tokenPos) Val {
			return t1(toReal(x[0].T), resType(c, 0))
		},
		"github.com/shopspring/decimal.NewFromFloat": func(a *Act, st *State, c *ssa.Function, x []Val, p tokenPos) Val {
			return t1(x[0].T, resType(c, 0))
		},
		"github.com/shopspring/decimal.NewFromString": func(a *Act, st *State, c *ssa.Function, x []Val, p tokenPos) Val {
			d := a.u.D
			f := d.Fun("decimal_of_string", []string{"Str"}, "Real")
			e := d.Fresh("perr", "Iface")
			a.u.Fact(or(eq(e, "niliface"), eq(app("itag", e), intLit(int64(d.NamedTag("<opaque error>"))))))
			a.assumeAllocatedIface(st, e)
			return Val{Tuple: []Val{{T: app(f, x[0].T), Typ: resType(c, 0)}, {T: e, Typ: resType(c, 1)}}}
		},
		"github.com/shopspring/decimal.RequireFromString": uninterp("decimal_of_string"),

		// ---- utf8 / unicode ----
		"unicode/utf8.DecodeRuneInString": func(a *Act, st *State, c *ssa.Function, x []Val, p tokenPos) Val {
			d := a.u.D
			fr := d.Fun("utf8_rune", []string{"Str"}, "Int")
			fn := d.Fun("utf8_len", []string{"Str"}, "Int")
			s := x[0].T
			r, n := app(fr, s), app(fn, s)
			l := app("str_len", s)
			a.u.Fact(and(app("<=", "0", n), app("<=", n, "4"), app("<=", n, l),
				eq(eq(n, "0"), eq(l, "0")),
				implies(eq(l, "0"), eq(r, "65533")),
				app("<=", "0", r), app("<=", r, "1114111"),
				implies(and(not(eq(r, "65533")), app(">", l, "0")), app(">=", n, "1")),
				implies(and(eq(r, "65533"), app(">", n, "1")), eq(n, "3"))))
			return Val{Tuple: []Val{{T: r, Typ: resType(c, 0)}, {T: n, Typ: resType(c, 1)}}}
		},
		"unicode/utf8.RuneCountInString": func(a *Act, st *State, c *ssa.Function, x []Val, p tokenPos) Val {
			f := a.u.D.Fun("utf8_count", []string{"Str"}, "Int")
			t := app(f, x[0].T)
			a.u.Fact(and(app("<=", "0", t), app("<=", t, app("str_len", x[0].T))))
			return t1(t, tInt)
		},
		"unicode.IsLetter": func(a *Act, st *State, c *ssa.Function, x []Val, p tokenPos) Val {
			f := a.u.D.Fun("unicode_IsLetter", []string{"Int"}, "Bool")
			a.unicodeFacts()
			return t1(app(f, x[0].T), tBool)
		},
		"unicode.IsDigit": func(a *Act, st *State, c *ssa.Function, x []Val, p tokenPos) Val {
			f := a.u.D.Fun("unicode_IsDigit", []string{"Int"}, "Bool")
			a.unicodeFacts()
			return t1(app(f, x[0].T), tBool)
		},
		"unicode.IsSpace": uninterp("unicode_IsSpace"),

		// ---- strings / fmt / io: text is not modelled ----
		"fmt.Sprintf":  pureFresh,
		"fmt.Sprint":   pureFresh,
		"fmt.Sprintln": pureFresh,
		"fmt.Errorf": func(a *Act, st *State, c *ssa.Function, x []Val, p tokenPos) Val {
			return t1(freshError(a, st), resType(c, 0))
		},
		"errors.New": func(a *Act, st *State, c *ssa.Function, x []Val, p tokenPos) Val {
			return t1(freshError(a, st), resType(c, 0))
		},
		// encoding/csv: Read returns a newly allocated record (contents unconstrained) or an error; with a
		// positive FieldsPerRecord a record returned without error has exactly that many fields, with
		// FieldsPerRecord == 0 the first successful Read fixes it to the length of its record (documented
		// behaviour of the standard library, trusted).
		"(*encoding/csv.Reader).Read": func(a *Act, st *State, c *ssa.Function, x []Val, p tokenPos) Val {
			d := a.u.D
			rt := derefType(c.Signature.Recv().Type())
			stt := rt.Underlying().(*types.Struct)
			idx := -1
			for i := 0; i < stt.NumFields(); i++ {
				if stt.Field(i).Name() == "FieldsPerRecord" {
					idx = i
				}
			}
			if idx < 0 {
				fail("csv.Reader has no field FieldsPerRecord")
			}
			h, hs := d.FieldHeap(rt, idx)
			old := hsel(a.u, st.heap(h, hs), x[0].T)
			arr := st.newRef()
			n := d.Fresh("csvlen", "Int")
			e := d.Fresh("csverr", "Iface")
			a.u.Fact(or(eq(e, "niliface"), eq(app("itag", e), intLit(int64(d.NamedTag("<opaque error>"))))))
			a.assumeAllocatedIface(st, e)
			a.u.Fact(and(app("<=", "1", n), app("<=", n, "72057594037927936")))
			a.u.Fact(implies(and(eq(e, "niliface"), app(">", old, "0")), eq(n, old)))
			rec := ite(eq(e, "niliface"), app("mkslice", arr, "0", n, n), d.Zero(resType(c, 0)))
			st.setHeap(h, hs, store(st.heap(h, hs), x[0].T, ite(and(eq(e, "niliface"), eq(old, "0")), n, old)))
			return Val{Tuple: []Val{{T: rec, Typ: resType(c, 0)}, {T: e, Typ: resType(c, 1)}}}
		},
		// encoding/csv writer: external stream, nothing of the repository's heap is touched
		"encoding/csv.NewWriter":        pureFresh,
		"(*encoding/csv.Writer).Write": pureFresh,
		"(*encoding/csv.Writer).Flush": pureFresh,
		"strings.HasPrefix":              uninterp("strings_HasPrefix"),
		"strings.HasSuffix":              uninterp("strings_HasSuffix"),
		"strings.Contains":               uninterp("strings_Contains"),
		"strings.Index":                  uninterp("strings_Index"),
		"strings.ToLower":                uninterp("strings_ToLower"),
		"strings.ToUpper":                uninterp("strings_ToUpper"),
		"strings.TrimSpace":              uninterp("strings_TrimSpace"),
		"strings.TrimPrefix":             uninterp("strings_TrimPrefix"),
		"strings.Join":                   pureFresh,
		"strings.Split":                  pureFresh,
		"strings.SplitN":                 pureFresh,
		"strconv.Atoi":                   pureFresh, // any int (also negative), or an error
		"regexp.Compile":                 pureFresh,
		"strings.Fields":                 pureFresh,
		"strings.Repeat":                 pureFresh,
		"(*strings.Builder).WriteString": pureFresh,
		"(*strings.Builder).WriteRune":   pureFresh,
		"(*strings.Builder).WriteByte":   pureFresh,
		"(*strings.Builder).String":      pureFresh,
		"(*strings.Builder).Reset":       pureFresh,
		"(*strings.Builder).Len":         pureFresh,
		"(*regexp.Regexp).MatchString":   uninterp("regexp_MatchString"),
		"os.ReadFile":                    pureFresh, // external effect only: fresh bytes, no access to the program's heap
		// command plumbing: accessors and buffered writers over external streams; none of them reaches objects of the repository
		"(*github.com/spf13/cobra.Command).Context":     pureFresh,
		"(*github.com/spf13/cobra.Command).OutOrStdout": pureFresh,
		"(*github.com/spf13/cobra.Command).ErrOrStderr": pureFresh,
		"bufio.NewWriter": pureFresh,
		// starting a goroutine: the spawned function runs concurrently and is not part of the caller's sequential effect (concurrency is not modelled)
		"(*golang.org/x/sync/errgroup.Group).Go": pureFresh,
		"path.Join":                              pureFresh,
		"path/filepath.Join":                     pureFresh,
		"(*bufio.Writer).Flush":                  outUnknown,
		"(*sync.RWMutex).Lock":                   pureFresh,
		"(*sync.RWMutex).Unlock":                 pureFresh,
		"(*sync.RWMutex).RLock":                  pureFresh,
		"(*sync.RWMutex).RUnlock":                pureFresh,
		"(*sync.Mutex).Lock":                     pureFresh,
		"(*sync.Mutex).Unlock":                   pureFresh,
		"math.Log":                               uninterp("math_Log"),
		"math.Inf":                               uninterp("math_Inf"),
		"math.Abs": func(a *Act, st *State, c *ssa.Function, x []Val, p tokenPos) Val {
			return t1(app("absr", x[0].T), resType(c, 0))
		},
		"math.Max": func(a *Act, st *State, c *ssa.Function, x []Val, p tokenPos) Val {
			return t1(ite(app(">=", x[0].T, x[1].T), x[0].T, x[1].T), resType(c, 0))
		},
		"math.Min": func(a *Act, st *State, c *ssa.Function, x []Val, p tokenPos) Val {
			return t1(ite(app("<=", x[0].T, x[1].T), x[0].T, x[1].T), resType(c, 0))
		},
		"cmp.Compare": func(a *Act, st *State, c *ssa.Function, x []Val, p tokenPos) Val {
			lt := app("<", x[0].T, x[1].T)
			if a.u.D.SortOf(x[0].Typ) == "Str" {
				lt = app(a.u.D.StrLt(), x[0].T, x[1].T)
			}
			return t1(ite(lt, "(- 1)", ite(eq(x[0].T, x[1].T), "0", "1")), tInt)
		},
		"sort.Search": sortSearch,
	}
	for _, n := range []string{"fmt.Fprint", "fmt.Fprintln"} {
		intrinsics[n] = outUnknown
	}
	for _, n := range []string{"fmt.Printf", "fmt.Println", "fmt.Print"} {
		name := n
		intrinsics[n] = func(a *Act, st *State, c *ssa.Function, x []Val, p tokenPos) Val {
			// a write to the process's standard output: forbidden in a function declared quiet
			if a.top.fc != nil && a.top.fc.Quiet && !a.spec {
				a.oblige(st, "stdout", name, p, "no write to the process's standard output ("+name+") in a quiet function", "false")
			}
			return outUnknown(a, st, c, x, p)
		}
	}
	intrinsics["io.WriteString"] = func(a *Act, st *State, c *ssa.Function, x []Val, p tokenPos) Val {
		// ghost output counter: the number of runes written so far (to any writer)
		a.outAdd(st, a.runeCount(x[1].T))
		return a.outResult(st, c)
	}
	intrinsics["fmt.Fprintf"] = fprintfIntrinsic(1)
	intrinsics["(*github.com/fatih/color.Color).Fprintf"] = fprintfIntrinsic(2)
}

func (a *Act) unicodeFacts() {
	if a.u.pureDefined["unicode"] {
		return
	}
	a.u.pureDefined["unicode"] = true
	d := a.u.D
	il := d.Fun("unicode_IsLetter", []string{"Int"}, "Bool")
	id := d.Fun("unicode_IsDigit", []string{"Int"}, "Bool")
	for _, r := range []string{"(- 1)", "0", "65533", "10", "32", "9", "13", "34", "58", "64", "36", "45", "46", "44", "40", "41", "42", "35", "47"} {
		a.u.Fact(not(app(il, r)))
		a.u.Fact(not(app(id, r)))
	}
	a.u.Fact(fmt.Sprintf("(forall ((r Int)) (! (=> (%s r) (not (%s r))) :pattern ((%s r))))", il, id, il))
	a.u.Fact(fmt.Sprintf("(forall ((r Int)) (! (=> (< r 0) (and (not (%s r)) (not (%s r)))) :pattern ((%s r)) :pattern ((%s r))))", il, id, il, id))
}

// sort.Search(n, f): f is evaluated symbolically (it must be a loop-free closure).
func sortSearch(a *Act, st *State, c *ssa.Function, x []Val, p tokenPos) Val {
	d := a.u.D
	n := x[0].T
	f := x[1]
	if f.Fn == nil {
		fail("sort.Search with a non-literal predicate")
	}
	// safety of the predicate for an arbitrary index in range
	i := d.Fresh("search_i", "Int")
	chk := st.clone()
	g := d.Fresh("g_search", "Bool")
	a.u.Fact(implies(g, and(st.guard, app("<=", "0", i), app("<", i, n))))
	chk.guard = g
	a.callFn(chk, f.Fn, []Val{{T: i, Typ: tInt}}, f.Env, p, f.Fn.Signature)
	r := d.Fresh("search_r", "Int")
	st.assume(and(app("<=", "0", r), app("<=", r, n)))
	sub := *a
	sub.spec = true
	at := func(idx Term, cond Term) Term {
		tmp := st.clone()
		gg := d.Fresh("g_at", "Bool")
		a.u.Fact(eq(gg, and(st.guard, cond)))
		tmp.guard = gg
		v := sub.callFn(tmp, f.Fn, []Val{{T: idx, Typ: tInt}}, f.Env, p, f.Fn.Signature)
		return v.T
	}
	lt := app("<", r, n)
	st.assume(implies(lt, at(r, lt)))
	gt := app(">", r, "0")
	st.assume(implies(gt, not(at(app("-", r, "1"), gt))))
	return t1(r, tInt)
}

var _ = strings.TrimSpace

const outHeap = "OUT_len"

func (a *Act) runeCount(s Term) Term {
	d := a.u.D
	if !d.seen["utf8_count"] {
		d.add("utf8_count", "(declare-fun utf8_count (Str) Int)\n(assert (forall ((s Str)) (! (and (<= 0 (utf8_count s)) (<= (utf8_count s) (str_len s))) :pattern ((utf8_count s)))))")
	}
	return app("utf8_count", s)
}

func (a *Act) outAdd(st *State, n Term) {
	st.setHeap(outHeap, "Int", app("+", st.heap(outHeap, "Int"), n))
}

// io.Writer.Write on an unknown writer: an external effect that does not touch the modelled heap
// (listed assumption); 0 <= n <= len(p); the ghost output counter becomes unknown.
func init() {
	invokeIntrinsics["io.Writer.Write"] = func(a *Act, st *State, com *ssa.CallCommon, pos tokenPos) Val {
		st.setHeap(outHeap, "Int", a.u.D.Fresh("out", "Int"))
		res := a.freshResult(st, com.Signature())
		if res.Tuple != nil && len(res.Tuple) == 2 && len(com.Args) == 1 {
			bs := a.term(com.Args[0])
			st.assume(and(app("<=", "0", res.Tuple[0].T), app("<=", res.Tuple[0].T, app("slen", bs))))
			st.setHeap(outOKHeap, "Bool", and(st.heap(outOKHeap, "Bool"), eq(app("itag", res.Tuple[1].T), "0")))
		}
		return res
	}
}

func outUnknown(a *Act, st *State, c *ssa.Function, x []Val, p tokenPos) Val {
	st.setHeap(outHeap, "Int", a.u.D.Fresh("out", "Int"))
	return a.outResult(st, c)
}

const outOKHeap = "OUT_ok"

// outResult: the result of a modelled write; the ghost flag outok() stays true only while every write
// so far returned a nil error (the rune counter is meaningful only then).
func (a *Act) outResult(st *State, c *ssa.Function) Val {
	res := a.freshResult(st, c.Signature)
	n := c.Signature.Results().Len()
	if n > 0 {
		last := res
		if res.Tuple != nil {
			last = res.Tuple[n-1]
		}
		if a.u.D.SortOf(c.Signature.Results().At(n-1).Type()) == "Iface" {
			st.setHeap(outOKHeap, "Bool", and(st.heap(outOKHeap, "Bool"), eq(app("itag", last.T), "0")))
		}
	}
	return res
}

// fprintfIntrinsic models Fprintf(w, format, args...) for the ghost output counter. Only the
// format "%*s" (width, string) is interpreted: it writes max(width, runes(string)) runes; any other
// format leaves the counter unknown. fmtIdx is the index of the format argument.
func fprintfIntrinsic(fmtIdx int) intrinsicFn {
	return func(a *Act, st *State, c *ssa.Function, x []Val, p tokenPos) Val {
		d := a.u.D
		format := x[fmtIdx].T
		lit := ""
		for s, cst := range d.strlits {
			if cst == format {
				lit = s
			}
		}
		if lit == "%*s" && len(x) > fmtIdx+1 {
			args := x[fmtIdx+1].T // []any
			anyT := types.Type(types.NewInterfaceType(nil, nil))
			if sl, ok := types.Unalias(x[fmtIdx+1].Typ).Underlying().(*types.Slice); ok {
				anyT = sl.Elem()
			}
			hAny, hsAny := d.CellHeap(anyT)
			e0 := hsel(a.u, st.heap(hAny, hsAny), app("saddr", args, "0"))
			e1 := hsel(a.u, st.heap(hAny, hsAny), app("saddr", args, "1"))
			hi, hsi := d.CellHeap(tInt)
			hs, hss := d.CellHeap(tString)
			w := sel(st.heap(hi, hsi), app("iptr", e0))
			s := sel(st.heap(hs, hss), app("iptr", e1))
			n := a.runeCount(s)
			a.outAdd(st, ite(app(">=", w, n), w, n))
			a.u.Trusted["fmt: Fprintf(\"%*s\", w, s) writes max(w, runes(s)) runes (colour escape sequences not counted)"] = true
			return a.outResult(st, c)
		}
		return outUnknown(a, st, c, x, p)
	}
}

// f64: rounding of an exact (decimal) number to float64 - uninterpreted except that zero stays zero and the
// sign is kept. float64 arithmetic itself is exact real arithmetic in this model (listed assumption): only
// the decimal -> float conversions are visible as lossy.
func (a *Act) f64(x Term) Term {
	d := a.u.D
	f := d.Fun("f64", []string{"Real"}, "Real")
	if !a.u.pureDefined["f64"] {
		a.u.pureDefined["f64"] = true
		a.u.Fact(eq(app(f, "0.0"), "0.0"))
		a.u.Fact(fmt.Sprintf("(forall ((x Real)) (! (and (=> (>= x 0.0) (>= (%s x) 0.0)) (=> (<= x 0.0) (<= (%s x) 0.0))) :pattern ((%s x))))", f, f, f))
	}
	return app(f, x)
}

// civilDayNumber: days from 0001-01-01 to the given constant date (all three terms integer literals).
func civilDayNumber(y, m, d Term) (int64, bool) {
	var yy, mm, dd int64
	for _, p := range []struct {
		t Term
		v *int64
	}{{y, &yy}, {m, &mm}, {d, &dd}} {
		if _, err := fmt.Sscanf(string(p.t), "%d", p.v); err != nil || strings.ContainsAny(string(p.t), "( ") {
			return 0, false
		}
	}
	if yy < 1 || yy > 9999 || mm < 1 || mm > 12 || dd < 1 || dd > 31 {
		return 0, false
	}
	t := time.Date(int(yy), time.Month(mm), int(dd), 0, 0, 0, 0, time.UTC)
	return (t.Unix() - time.Date(1, 1, 1, 0, 0, 0, 0, time.UTC).Unix()) / 86400, true
}
