package kv

import (
	"fmt"
	"go/token"
	"go/types"
	"os"
	"path/filepath"
	"sort"
	"strings"

	"golang.org/x/tools/go/packages"
	"golang.org/x/tools/go/ssa"
	"golang.org/x/tools/go/ssa/ssautil"
)

const ModulePath = "github.com/sboehler/knut"

type Engine struct {
	RepoDir   string
	Fset      *token.FileSet
	Pkgs      []*packages.Package
	Prog      *ssa.Program
	SSAPkgs   map[string]*ssa.Package // by path
	TypesPkgs map[string]*types.Package
	ByName    map[string][]*types.Package // by package name

	Files     []*ContractFile
	Contracts map[*ssa.Function]*FuncContract
	FuncByKey map[string]*ssa.Function // "pkgpath.Key"
	Defs      map[string]*Def
	Specs     map[string]*SpecFn
	Axioms    []*Axiom
	Lemmas    []*Lemma

	AllFuncs map[*ssa.Function]bool

	globalStores map[*ssa.Global][]*ssa.Store
}

// GlobalStores lists every store to a package-level variable in the program (computed once).
func (e *Engine) GlobalStores(g *ssa.Global) []*ssa.Store {
	if e.globalStores == nil {
		e.globalStores = map[*ssa.Global][]*ssa.Store{}
		for fn := range e.AllFuncs {
			for _, b := range fn.Blocks {
				for _, ins := range b.Instrs {
					if st, ok := ins.(*ssa.Store); ok {
						if gg, ok := st.Addr.(*ssa.Global); ok {
							e.globalStores[gg] = append(e.globalStores[gg], st)
						}
					}
				}
			}
		}
	}
	return e.globalStores[g]
}

func Load(repo string) (*Engine, error) {
	cfg := &packages.Config{Mode: packages.LoadSyntax, Dir: repo, BuildFlags: []string{"-tags=verif"},
		Env: append(os.Environ(), "GOFLAGS=-mod=mod", "GOPROXY=off", "GOSUMDB=off", "GOTOOLCHAIN=local")}
	pkgs, err := packages.Load(cfg, "./...")
	if err != nil {
		return nil, err
	}
	var errs []string
	for _, p := range pkgs {
		for _, e := range p.Errors {
			errs = append(errs, e.Error())
		}
	}
	if len(errs) > 0 {
		return nil, fmt.Errorf("package errors:\n%s", strings.Join(errs, "\n"))
	}
	prog, spkgs := ssautil.Packages(pkgs, ssa.InstantiateGenerics|ssa.GlobalDebug)
	prog.Build()
	e := &Engine{RepoDir: repo, Pkgs: pkgs, Prog: prog, SSAPkgs: map[string]*ssa.Package{}, TypesPkgs: map[string]*types.Package{},
		ByName: map[string][]*types.Package{}, Contracts: map[*ssa.Function]*FuncContract{}, FuncByKey: map[string]*ssa.Function{},
		Defs: map[string]*Def{}, Specs: map[string]*SpecFn{}}
	if len(pkgs) > 0 {
		e.Fset = pkgs[0].Fset
	}
	for i, p := range pkgs {
		if spkgs[i] != nil {
			e.SSAPkgs[p.PkgPath] = spkgs[i]
		}
		e.TypesPkgs[p.PkgPath] = p.Types
		e.ByName[p.Name] = append(e.ByName[p.Name], p.Types)
	}
	// also index imported (dependency) packages by name for constants such as utf8.RuneError
	for _, p := range pkgs {
		for _, imp := range p.Types.Imports() {
			if _, ok := e.TypesPkgs[imp.Path()]; !ok {
				e.TypesPkgs[imp.Path()] = imp
				e.ByName[imp.Name()] = append(e.ByName[imp.Name()], imp)
			}
		}
	}
	e.AllFuncs = ssautil.AllFunctions(prog)
	for fn := range e.AllFuncs {
		if k := e.KeyOf(fn); k != "" {
			if old, ok := e.FuncByKey[k]; !ok || fn.Synthetic == "" && old.Synthetic != "" {
				e.FuncByKey[k] = fn
			}
		}
	}
	// contract files
	for _, p := range pkgs {
		if len(p.GoFiles) == 0 && len(p.OtherFiles) == 0 && len(p.IgnoredFiles) == 0 {
			continue
		}
		dir := filepath.Join(repo, strings.TrimPrefix(strings.TrimPrefix(p.PkgPath, ModulePath), "/"))
		path := filepath.Join(dir, "contracts_verif.go")
		if _, err := os.Stat(path); err != nil {
			continue
		}
		cf, err := ParseContractFile(path, p.PkgPath)
		if err != nil {
			return nil, err
		}
		e.Files = append(e.Files, cf)
		for _, d := range cf.Defs {
			if _, dup := e.Defs[d.Name]; dup {
				return nil, fmt.Errorf("%s: duplicate def %s", path, d.Name)
			}
			e.Defs[d.Name] = d
		}
		for _, s := range cf.Specs {
			if _, dup := e.Specs[s.Name]; dup {
				return nil, fmt.Errorf("%s: duplicate spec %s", path, s.Name)
			}
			e.Specs[s.Name] = s
		}
		e.Axioms = append(e.Axioms, cf.Axioms...)
		e.Lemmas = append(e.Lemmas, cf.Lemmas...)
	}
	sort.Slice(e.Files, func(i, j int) bool { return e.Files[i].Pkg < e.Files[j].Pkg })
	return e, nil
}

// BindContracts resolves contract keys to SSA functions. Unresolvable keys are returned
// (they become failed #structure obligations of the properties that claim them).
func (e *Engine) BindContracts() []string {
	var missing []string
	for _, cf := range e.Files {
		for _, fc := range cf.Funcs {
			fn := e.FuncByKey[fc.Pkg+"."+fc.Key]
			if fn == nil {
				// allow external (trusted) functions keyed by full path, e.g. "time.Time.Before"
				fn = e.FuncByKey[fc.Key]
			}
			if fn == nil {
				// a generic function: the contract applies to every instantiation
				found := false
				for f := range e.AllFuncs {
					if o := f.Origin(); o != nil && f != o && o.Pkg != nil && o.Pkg.Pkg.Path() == fc.Pkg && (relName(o) == fc.Key || stripTypeArgs(relName(o)) == fc.Key) {
						if _, specific := e.Contracts[f]; !specific {
							e.Contracts[f] = fc
						}
						found = true
					}
					// a contract for one instantiation only: "(*Node[balance.Value]).GetOrCreate"
					if o := f.Origin(); o != nil && f != o && o.Pkg != nil && o.Pkg.Pkg.Path() == fc.Pkg && (relName(f) == fc.Key || strings.HasPrefix(relName(f), fc.Key+"[")) {
						e.Contracts[f] = fc
						found = true
					}
				}
				if !found {
					missing = append(missing, fc.Pkg+"."+fc.Key)
				}
				continue
			}
			e.Contracts[fn] = fc
			if fn.TypeParams().Len() > 0 || fn.Signature.Recv() != nil {
				for f := range e.AllFuncs {
					if o := f.Origin(); o == fn && f != fn {
						e.Contracts[f] = fc
					}
				}
			}
		}
	}
	return missing
}

// KeyOf gives the contract key of a function: "<pkgpath>.<Name>" with methods written
// "(*T).M" / "(T).M" and closures "Outer$1".
func (e *Engine) KeyOf(fn *ssa.Function) string {
	name := relName(fn)
	pkg := pkgOf(fn)
	if pkg == "" {
		return name
	}
	return pkg + "." + name
}

func pkgOf(fn *ssa.Function) string {
	for f := fn; f != nil; f = f.Parent() {
		if f.Pkg != nil {
			return f.Pkg.Pkg.Path()
		}
		if o := f.Origin(); o != nil && o.Pkg != nil {
			return o.Pkg.Pkg.Path()
		}
		if f.Object() != nil && f.Object().Pkg() != nil {
			return f.Object().Pkg().Path()
		}
	}
	return ""
}

func relName(fn *ssa.Function) string {
	if fn.Parent() != nil {
		// closure: Parent$N
		p := relName(fn.Parent())
		n := fn.Name()
		if i := strings.LastIndex(n, "$"); i >= 0 {
			return p + n[i:]
		}
		return p + "$" + n
	}
	if recv := fn.Signature.Recv(); recv != nil {
		t := recv.Type()
		ptr := false
		if p, ok := t.(*types.Pointer); ok {
			ptr = true
			t = p.Elem()
		}
		tn := typeBaseName(t)
		if ptr {
			return "(*" + tn + ")." + fn.Name()
		}
		return "(" + tn + ")." + fn.Name()
	}
	return fn.Name()
}

func typeBaseName(t types.Type) string {
	if n, ok := t.(*types.Named); ok {
		s := n.Obj().Name()
		if ta := n.TypeArgs(); ta != nil && ta.Len() > 0 {
			var as []string
			for i := 0; i < ta.Len(); i++ {
				as = append(as, shortType(ta.At(i)))
			}
			s += "[" + strings.Join(as, ",") + "]"
		}
		return s
	}
	return t.String()
}

func shortType(t types.Type) string {
	return types.TypeString(t, func(p *types.Package) string { return p.Name() })
}

func (e *Engine) Pos(p token.Pos) string {
	if !p.IsValid() {
		return ""
	}
	pos := e.Fset.Position(p)
	rel, err := filepath.Rel(e.RepoDir, pos.Filename)
	if err != nil {
		rel = pos.Filename
	}
	return fmt.Sprintf("%s:%d", rel, pos.Line)
}

// LoopInfo lists the loops of a function (ordinal, head block, source position, phi names).
func (e *Engine) LoopInfo(key string) []string {
	fn := e.FuncByKey[ModulePath+"/"+key]
	if fn == nil {
		return []string{"not found: " + key}
	}
	a := &Act{fn: fn}
	a.findLoops()
	var out []string
	for _, li := range a.loops {
		var phis []string
		pos := ""
		for _, ins := range li.head.Instrs {
			if phi, ok := ins.(*ssa.Phi); ok {
				phis = append(phis, phi.Comment)
			}
			if pos == "" && ins.Pos().IsValid() {
				pos = e.Pos(ins.Pos())
			}
		}
		if pos == "" {
			for b := range li.blocks {
				for _, ins := range b.Instrs {
					if ins.Pos().IsValid() && (pos == "" || e.Pos(ins.Pos()) < pos) {
						pos = e.Pos(ins.Pos())
					}
				}
			}
		}
		out = append(out, fmt.Sprintf("loop %d: block %d (%s) at %s phis=%v blocks=%d", li.ord, li.head.Index, li.head.Comment, pos, phis, len(li.blocks)))
	}
	return out
}

// stripTypeArgs: "(Set[T]).AddAll" -> "(Set).AddAll"
func stripTypeArgs(s string) string {
	var b strings.Builder
	d := 0
	for _, c := range s {
		switch {
		case c == '[':
			d++
		case c == ']':
			d--
		case d == 0:
			b.WriteRune(c)
		}
	}
	return b.String()
}

// IsGenericShell: an uninstantiated generic function or a method shell over type parameters; only its
// instantiations run, and only they are verified.
func IsGenericShell(fn *ssa.Function) bool {
	for _, t := range fn.TypeArgs() {
		if _, ok := t.(*types.TypeParam); ok {
			return true
		}
	}
	return fn.TypeParams().Len() > 0 && len(fn.TypeArgs()) == 0
}
