package kv

import (
	"fmt"
	"go/types"
	"sort"
	"strings"

	"golang.org/x/tools/go/ssa"
)

func (a *Act) staticCallee(com *ssa.CallCommon) *ssa.Function {
	if com.IsInvoke() {
		return nil
	}
	switch v := com.Value.(type) {
	case *ssa.Function:
		return v
	case *ssa.MakeClosure:
		return v.Fn.(*ssa.Function)
	}
	if x, ok := a.vals[com.Value]; ok && x.Fn != nil {
		return x.Fn
	}
	return nil
}

func (a *Act) isPureFnValue(v ssa.Value) bool {
	if a.pureFns[v] {
		return true
	}
	// a phi that selects between pure function values and simple effect-free static functions
	// (predicate.True, mapper.Identity: `if f == nil { f = Default }`) is a pure function value itself
	if phi, ok := v.(*ssa.Phi); ok {
		for _, e := range phi.Edges {
			if a.pureFns[e] {
				continue
			}
			if fn, ok := e.(*ssa.Function); ok && a.simpleStatic(fn) {
				continue
			}
			return false
		}
		return len(phi.Edges) > 0
	}
	return false
}

// simpleStatic: a closure-free straight-line function without calls or memory access: its value as a
// function constant is characterised by the axiom apply(f, args) == body(args).
func (a *Act) simpleStatic(fn *ssa.Function) bool {
	if len(fn.Blocks) != 1 || len(fn.FreeVars) > 0 || fn.Signature.Results().Len() != 1 {
		return false
	}
	for _, ins := range fn.Blocks[0].Instrs {
		switch ins.(type) {
		case *ssa.Return, *ssa.DebugRef:
		default:
			return false
		}
	}
	ret := fn.Blocks[0].Instrs[len(fn.Blocks[0].Instrs)-1].(*ssa.Return)
	switch ret.Results[0].(type) {
	case *ssa.Parameter, *ssa.Const:
	default:
		return false
	}
	// the defining axiom
	key := "simple:" + a.u.E.KeyOf(fn)
	if a.u.pureDefined[key] {
		return true
	}
	a.u.pureDefined[key] = true
	d := a.u.D
	fc := intLit(int64(d.FuncID(a.u.E.KeyOf(fn))))
	var binders, vars []string
	var args []Val
	for i, p := range fn.Params {
		v := fmt.Sprintf("pv%d", i)
		binders = append(binders, fmt.Sprintf("(%s %s)", v, d.SortOf(p.Type())))
		vars = append(vars, v)
		args = append(args, Val{T: Term(v), Typ: p.Type()})
	}
	lhs := a.applyPure(fc, args, fn.Signature).T
	var rhs Term
	switch r := ret.Results[0].(type) {
	case *ssa.Parameter:
		for i, p := range fn.Params {
			if p == r {
				rhs = Term(vars[i])
			}
		}
	case *ssa.Const:
		rhs = a.constVal(r).T
	}
	if rhs == "" {
		return false
	}
	if len(binders) == 0 {
		a.u.Fact(eq(lhs, rhs))
	} else {
		a.u.Fact(fmt.Sprintf("(forall (%s) (! (= %s %s) :pattern (%s)))", strings.Join(binders, " "), lhs, rhs, lhs))
	}
	return true
}

func (a *Act) invokeIsPure(com *ssa.CallCommon) bool {
	// error.Error, fmt.Stringer.String: no effect on the modelled heap
	n := com.Method.Name()
	return n == "Error" || n == "String" || n == "Name"
}

func (a *Act) canInline(fn *ssa.Function, stack []*ssa.Function) bool {
	if len(fn.Blocks) == 0 {
		return false
	}
	for _, s := range stack {
		if s == fn {
			return false
		}
	}
	for _, b := range fn.Blocks {
		for _, s := range b.Succs {
			if backEdge(b, s) {
				return false
			}
		}
		for _, ins := range b.Instrs {
			switch x := ins.(type) {
			case *ssa.Go, *ssa.Select, *ssa.Send:
				return false
			case *ssa.Defer:
				if !isMutexDefer(x) {
					return false
				}
			}
		}
	}
	return true
}

func (a *Act) call(st *State, x *ssa.Call, com *ssa.CallCommon) {
	res := a.doCall(st, com, x.Pos(), x)
	if res.Tuple == nil && res.T == "" && res.Loc == nil {
		// no result
		a.vals[x] = Val{Typ: x.Type()}
		return
	}
	res.Typ = x.Type()
	a.vals[x] = res
}

func (a *Act) argVals(com *ssa.CallCommon) []Val {
	var out []Val
	for _, arg := range com.Args {
		v := a.val(arg)
		if v.Loc != nil && v.Loc.RootT != nil && len(v.Loc.Path) == 0 {
			// kept as a location: inlined callees can still read and write the element; contract calls
			// and dynamic calls receive the opaque reference
			out = append(out, v)
			continue
		}
		out = append(out, v)
	}
	return out
}

func resultVal(vals []Val, sig *types.Signature) Val {
	switch len(vals) {
	case 0:
		return Val{}
	case 1:
		return vals[0]
	}
	return Val{Tuple: vals}
}

func (a *Act) doCall(st *State, com *ssa.CallCommon, pos tokenPos, site ssa.Value) Val {
	if b, ok := com.Value.(*ssa.Builtin); ok {
		return a.builtin(st, b, com, pos)
	}
	sig := com.Signature()
	if com.IsInvoke() {
		return a.invoke(st, com, pos)
	}
	callee := a.staticCallee(com)
	if callee != nil {
		if v, ok := a.sortCall(st, callee, com, pos); ok {
			return v
		}
	}
	args := a.argVals(com)
	var env []Val
	if mc, ok := com.Value.(*ssa.MakeClosure); ok {
		env = a.val(mc).Env
	} else if v, ok := a.vals[com.Value]; ok && v.Fn != nil {
		env = v.Env
	}
	if callee == nil {
		if a.isPureFnValue(com.Value) {
			return a.applyPure(a.term(com.Value), args, sig)
		}
		if name, ok := a.fieldOf(com.Value); ok && a.top.fc != nil {
			for _, pn := range a.top.fc.Pure {
				if pn == name {
					return a.applyPure(a.term(com.Value), args, sig)
				}
			}
		}
		if name, ok := a.assumedCallback(com.Value); ok {
			a.u.Trusted["assumed: callback "+name+" does not touch the modelled heap ("+fnName(a.fn)+")"] = true
			res := a.freshResult(st, sig)
			if fc := a.top.fc; fc != nil && fc.CallbackRank != nil {
				a.traceEvent(st, fc, name, args, pos, res, sig)
			}
			return res
		}
		if !a.top.hasDynamicCallbacks() {
			a.u.Opaque["dynamic call "+com.Value.Name()+" in "+fnName(a.fn)] = true
			a.havocHeaps(st, false)
			st.setHeap(outHeap, "Int", a.u.D.Fresh("out", "Int"))
			okNew := a.u.D.Fresh("outok", "Bool")
			a.u.Fact(implies(okNew, st.heap(outOKHeap, "Bool")))
			st.setHeap(outOKHeap, "Bool", okNew)
			return a.freshResult(st, sig)
		}
		return a.opaqueCall(st, "dynamic call "+com.Value.Name()+" in "+fnName(a.fn), sig, pos)
	}
	res := a.callFn(st, callee, args, env, pos, sig)
	a.sortedAfterCompareSort(st, callee, com)
	return res
}

// sortedAfterCompareSort: after compare.Sort(ts, cmp) - a thin wrapper of sort.Slice with
// less(i, j) = (cmp(ts[i], ts[j]) == Smaller) - the slice is ordered by the comparator: for i < j,
// cmp(ts[j], ts[i]) is not Smaller. This is the contract of the standard library's sort (trusted, like the
// permutation), stated through the CONTRACT of the comparator when that is a statically known function
// under contract: a fresh function R(j, i) stands for the comparator's result on the elements at j and i,
// constrained by the comparator's postconditions.
func (a *Act) sortedAfterCompareSort(st *State, callee *ssa.Function, com *ssa.CallCommon) {
	if a.spec || callee == nil || len(com.Args) != 2 {
		return
	}
	o := callee
	if callee.Origin() != nil {
		o = callee.Origin()
	}
	if o.Pkg == nil || o.Pkg.Pkg.Path() != ModulePath+"/lib/common/compare" || o.Name() != "Sort" {
		return
	}
	var cmp *ssa.Function
	switch x := com.Args[1].(type) {
	case *ssa.Function:
		cmp = x
	case *ssa.MakeClosure:
		if len(x.Bindings) == 0 {
			cmp, _ = x.Fn.(*ssa.Function)
		}
	}
	cmpArg := com.Args[1]
	if ct, ok := cmpArg.(*ssa.ChangeType); ok {
		cmpArg = ct.X // compare.Compare[T] handed over as func(T, T) Order
	}
	if cmp == nil && a.isPureFnValue(cmpArg) {
		// the comparator is a pure function value of the function under verification (a parameter declared `pure`):
		// the slice is ordered by it, stated through the application of that value
		sl, ok := types.Unalias(com.Args[0].Type()).Underlying().(*types.Slice)
		sig, ok2 := types.Unalias(com.Args[1].Type()).Underlying().(*types.Signature)
		if !ok || !ok2 || sig.Params().Len() != 2 {
			return
		}
		s := a.term(com.Args[0])
		lh := a.elemHeap(sl.Elem())
		heap := st.heap(lh.name, lh.sort)
		at := func(ix string) Term { return hsel(a.u, heap, lh.addr(app("saddr", s, ix))) }
		*a.top.qnPtr()++
		i, j := fmt.Sprintf("i!s%d", *a.top.qnPtr()), fmt.Sprintf("j!s%d", *a.top.qnPtr())
		r := a.applyPure(a.term(cmpArg), []Val{{T: at(j), Typ: sig.Params().At(0).Type()}, {T: at(i), Typ: sig.Params().At(1).Type()}}, sig).T
		a.u.Trusted["sort.Slice leaves the slice ordered by its comparator (compare.Sort with the pure function value "+cmpArg.Name()+" of "+fnName(a.fn)+")"] = true
		a.u.Fact(fmt.Sprintf("(forall ((%s Int) (%s Int)) (! (=> (and (<= 0 %s) (< %s %s) (< %s (slen %s))) %s) :pattern (%s %s)))", i, j, i, i, j, j, s, not(eq(r, "(- 1)")), at(i), at(j)))
		return
	}
	if cmp == nil || len(cmp.Params) != 2 {
		return
	}
	fc := a.u.E.Contracts[cmp]
	if fc == nil || fc.Trusted {
		return
	}
	sl, ok := types.Unalias(com.Args[0].Type()).Underlying().(*types.Slice)
	if !ok {
		return
	}
	d := a.u.D
	s := a.term(com.Args[0])
	lh := a.elemHeap(sl.Elem())
	heap := st.heap(lh.name, lh.sort)
	at := func(ix string) Term { return hsel(a.u, heap, lh.addr(app("saddr", s, ix))) }
	*a.top.qnPtr()++
	i, j := fmt.Sprintf("i!s%d", *a.top.qnPtr()), fmt.Sprintf("j!s%d", *a.top.qnPtr())
	r := d.Fun(fmt.Sprintf("sortcmp!%d", *a.top.qnPtr()), []string{"Int", "Int"}, "Int")
	rt := app(r, j, i)
	var cs []Term
	nFacts, nConsts := len(a.u.Facts), d.n
	err := catch(func() {
		env := a.fnEnv(cmp, []Val{{T: at(j), Typ: cmp.Params[0].Type()}, {T: at(i), Typ: cmp.Params[1].Type()}}, nil, st, st, []Val{{T: rt, Typ: cmp.Signature.Results().At(0).Type()}})
		for _, cl := range fc.Clauses {
			if cl.Kind != "ensures" || cl.Loop != 0 || mentionsTrace(cl.Expr) {
				continue
			}
			cs = append(cs, a.evalClause(env, cl))
		}
	})
	// facts recorded while evaluating the clauses (typing facts of the loaded elements) mention the bound
	// indices: they belong inside the quantifier; fresh constants defined in terms of them cannot be kept
	side := append([]Term{}, a.u.Facts[nFacts:]...)
	a.u.Facts = a.u.Facts[:nFacts]
	if err != nil || len(cs) == 0 || d.n != nConsts {
		return
	}
	cs = append(side, cs...)
	cs = append(cs, not(eq(rt, "(- 1)")))
	a.u.Trusted["sort.Slice leaves the slice ordered by its comparator (compare.Sort with "+fnName(cmp)+"; the comparator's preconditions are assumed to hold for the elements)"] = true
	a.u.Fact(fmt.Sprintf("(forall ((%s Int) (%s Int)) (! (=> (and (<= 0 %s) (< %s %s) (< %s (slen %s))) %s) :pattern ((%s %s %s))))", i, j, i, i, j, j, s, and(cs...), r, j, i))
	// make the instances available: R(j, i) is mentioned for every pair through its definition only, so give
	// the solver the elements as additional triggers
	a.u.Fact(fmt.Sprintf("(forall ((%s Int) (%s Int)) (! (=> (and (<= 0 %s) (< %s %s) (< %s (slen %s))) %s) :pattern (%s %s)))", i, j, i, i, j, j, s, and(cs...), at(i), at(j)))
}

func (a *Act) qnPtr() *int {
	if a.qn == nil {
		a.qn = new(int)
	}
	return a.qn
}

func (a *Act) callFn(st *State, callee *ssa.Function, args []Val, env []Val, pos tokenPos, sig *types.Signature) Val {
	// static calls named in the callback clause are recorded in the ghost trace as well (and then executed)
	if fc := a.top.fc; fc != nil && fc.CallbackRank != nil && !a.spec && a.depth == 0 {
		cname := callee.Name()
		if o := callee.Origin(); o != nil {
			cname = o.Name()
		}
		if _, traced := fc.CallbackRank[cname]; traced {
			var targs []Val
			targs = append(targs, args...)
			if callee.Signature.Recv() != nil && len(targs) > 0 {
				targs = targs[1:] // arguments without the receiver, like for interface calls
			}
			at := st.heap(traceLen, "Int")
			if callee.Signature.Recv() != nil && len(args) > 0 {
				a.traceSlot(st, cname+"_recv", "T_recv_"+cname, at, args[0])
			}
			a.traceEvent(st, fc, cname, targs, pos, Val{}, types.NewSignatureType(nil, nil, nil, nil, nil, false))
			res := a.callFn1(st, callee, args, env, pos, sig)
			a.traceResult(st, cname, at, res)
			// assumed well-formedness of external input (clause `input Name: expr`)
			for _, cl := range fc.InputAssume[cname] {
				var rs []Val
				if res.Tuple != nil {
					rs = res.Tuple
				} else {
					rs = []Val{res}
				}
				ienv := a.fnEnv(callee, args, nil, st, st, rs)
				st.assume(a.evalClause(ienv, cl))
				a.u.Trusted["assumed about the external input (result of "+cname+"): "+cl.Src] = true
			}
			return res
		}
	}
	return a.callFn1(st, callee, args, env, pos, sig)
}

// traceResult records the (first) result of a traced static call: tres("Name", i).
func (a *Act) traceResult(st *State, name string, at Term, res Val) {
	r0 := res
	if res.Tuple != nil && len(res.Tuple) > 0 {
		r0 = res.Tuple[0]
	}
	a.traceSlot(st, name+"_res", "T_res_"+name, at, r0)
	if res.Tuple != nil && len(res.Tuple) > 1 {
		a.traceSlot(st, name+"_res1", "T_res1_"+name, at, res.Tuple[1])
	}
}

// traceSlot stores one value of a traced call (receiver, result) in a ghost array indexed by event.
func (a *Act) traceSlot(st *State, key, h string, at Term, v Val) {
	if v.Loc != nil || v.Tuple != nil || v.T == "" || v.Typ == nil {
		return
	}
	if a.u.traceArgType == nil {
		a.u.traceArgType = map[string]types.Type{}
	}
	a.u.traceArgType[key] = v.Typ
	hs := "(Array Int " + a.u.D.SortOf(v.Typ) + ")"
	st.setHeap(h, hs, store(st.heap(h, hs), at, v.T))
}

func (a *Act) callFn1(st *State, callee *ssa.Function, args []Val, env []Val, pos tokenPos, sig *types.Signature) Val {
	key := intrinsicKey(callee)
	if in, ok := intrinsics[key]; ok {
		a.u.Trusted["intrinsic "+key] = true
		return in(a, st, callee, args, pos)
	}
	if fc := a.u.E.Contracts[callee]; fc != nil && !fc.Inline {
		return a.callByContract(st, callee, fc, args, env, pos)
	}
	if a.canInline(callee, a.stack) && len(a.stack) < 10 {
		return a.inline(st, callee, args, env, pos)
	}
	// a function of another module that receives only plain values (numbers, strings, times, decimals,
	// pointers to that module's own opaque types) cannot reach any object of the repository: no heap
	// effect, an unconstrained well-formed result
	if !a.canInline(callee, a.stack) && externalValueOnly(callee) {
		a.u.Trusted["external function over plain values: "+a.u.E.KeyOf(callee)] = true
		return a.freshResult(st, sig)
	}
	// a known function outside the contract set that is not handed any function value cannot reach the
	// callbacks of the function under verification: its (unknown) effect spares the event trace
	if !sigTakesFunc(callee.Signature) || !a.top.hasDynamicCallbacks() {
		a.u.Opaque[a.u.E.KeyOf(callee)] = true
		a.havocHeaps(st, false)
		st.setHeap(outHeap, "Int", a.u.D.Fresh("out", "Int"))
		okNew := a.u.D.Fresh("outok", "Bool")
		a.u.Fact(implies(okNew, st.heap(outOKHeap, "Bool")))
		st.setHeap(outOKHeap, "Bool", okNew)
		return a.freshResult(st, sig)
	}
	return a.opaqueCall(st, a.u.E.KeyOf(callee), sig, pos)
}

func (a *Act) inline(st *State, callee *ssa.Function, args []Val, env []Val, pos tokenPos) Val {
	a.u.Inlined[a.u.E.KeyOf(callee)] = true
	sub := &Act{u: a.u, fn: callee, vals: map[ssa.Value]Val{}, depth: a.depth + 1, top: a.top, entry: a.entry, spec: a.spec,
		pureFns: map[ssa.Value]bool{}, stack: append(append([]*ssa.Function{}, a.stack...), callee)}
	for i, p := range callee.Params {
		if i < len(args) {
			v := args[i]
			v.Typ = p.Type()
			sub.vals[p] = v
			if a.pureFnVal(args[i]) {
				sub.pureFns[p] = true
			}
		}
	}
	for i, fv := range callee.FreeVars {
		if i < len(env) {
			sub.vals[fv] = env[i]
		} else {
			fail("closure %s called without known bindings", callee)
		}
	}
	out, vals := sub.run(st)
	if out == nil {
		// callee never returns (panics): the rest of this path is unreachable
		st.guard = "false"
		return a.freshResult(st, callee.Signature)
	}
	*st = *out
	// results of a Go function satisfy the invariants of their types (slices well formed, references
	// allocated) - also when the value is a merge of several return sites
	for i, v := range vals {
		if v.Loc == nil && v.Tuple == nil && v.T != "" && i < callee.Signature.Results().Len() {
			a.assumeAllocated(st, v.T, callee.Signature.Results().At(i).Type())
		}
	}
	return resultVal(vals, callee.Signature)
}

func (a *Act) pureFnVal(v Val) bool { return false }

func (a *Act) freshResult(st *State, sig *types.Signature) Val {
	var vals []Val
	for i := 0; i < sig.Results().Len(); i++ {
		t := sig.Results().At(i).Type()
		c := a.u.D.Fresh("res", a.u.D.SortOf(t))
		a.assumeAllocated(st, c, t)
		vals = append(vals, Val{T: c, Typ: t})
	}
	return resultVal(vals, sig)
}

// opaqueCall: unknown effect: the whole heap is havoced, results unconstrained.
func (a *Act) opaqueCall(st *State, what string, sig *types.Signature, pos tokenPos) Val {
	a.u.Opaque[what] = true
	a.havocAll(st)
	return a.freshResult(st, sig)
}

func (a *Act) havocAll(st *State) { a.havocHeaps(st, true) }

func isGhostHeap(n string) bool {
	_, isTrace := traceSorts[n]
	// G_<name>: ghost variables of the function under verification (no callee can touch them)
	return isTrace || strings.HasPrefix(n, "T_arg_") || strings.HasPrefix(n, "T_res") || strings.HasPrefix(n, "T_recv_") || strings.HasPrefix(n, "G_") || n == outHeap || n == outOKHeap
}

// havocHeaps forgets the program heaps; the ghost heaps (event trace, output counter) only when asked:
// at a call by contract they follow their own rules (see callByContract).
func (a *Act) havocHeaps(st *State, ghostToo bool) {
	u := a.u
	var names []string
	for n := range u.heapSort {
		if (!ghostToo && isGhostHeap(n)) || strings.HasPrefix(n, "G_") {
			continue // ghost variables belong to the function under verification: no call can change them
		}
		names = append(names, n)
	}
	sort.Strings(names)
	for _, n := range names {
		st.heaps[n] = u.FreshHeap(n, u.heapSort[n])
	}
	na := u.D.Fresh("alloc", "Int")
	u.Fact(app(">=", na, st.alloc))
	st.alloc = na
	// heaps first used later are unconstrained anyway only if their initial constant is not reused:
	// record the havoc so that later first uses get a fresh constant
	st.havocGen = u.newHavocGen()
	if ghostToo {
		st.ghostGen = st.havocGen
	}
}

func (a *Act) invoke(st *State, com *ssa.CallCommon, pos tokenPos) Val {
	sig := com.Signature()
	name := com.Method.Name()
	if fc := a.top.fc; fc != nil {
		for _, c := range fc.Callbacks {
			// a name that the contract uses for a statically called function is not also an interface callback
			if c == name && !a.top.staticTraced[name] {
				a.u.Trusted["assumed: interface method "+name+" does not touch the modelled heap ("+fnName(a.fn)+")"] = true
				res := a.freshResult(st, sig)
				if fc.CallbackRank != nil {
					a.traceEvent(st, fc, name, a.argVals(com), pos, res, sig)
				}
				return res
			}
		}
	}
	recvT := com.Value.Type()
	full := shortType(recvT) + "." + name
	if in, ok := invokeIntrinsics[full]; ok {
		a.u.Trusted["intrinsic "+full] = true
		return in(a, st, com, pos)
	}
	if v, ok := a.closedWorldInvoke(st, com, pos); ok {
		return v
	}
	if a.invokeIsPure(com) {
		a.u.Trusted["pure interface method "+full] = true
		return a.freshResult(st, sig)
	}
	if !a.top.hasDynamicCallbacks() {
		// no callback of the function under verification can be reached through an unknown method: the event trace is spared
		a.u.Opaque["interface method "+full] = true
		a.havocHeaps(st, false)
		st.setHeap(outHeap, "Int", a.u.D.Fresh("out", "Int"))
		okNew := a.u.D.Fresh("outok", "Bool")
		a.u.Fact(implies(okNew, st.heap(outOKHeap, "Bool")))
		st.setHeap(outOKHeap, "Bool", okNew)
		return a.freshResult(st, sig)
	}
	return a.opaqueCall(st, "interface method "+full, sig, pos)
}

// applyPure: call of a function value declared pure: an uninterpreted function of its arguments.
func (a *Act) applyPure(f Term, args []Val, sig *types.Signature) Val {
	d := a.u.D
	var sorts []string
	sorts = append(sorts, "Int")
	ts := []Term{f}
	for _, x := range args {
		if x.Loc != nil {
			fail("local address passed to pure function value")
		}
		sorts = append(sorts, d.SortOf(x.Typ))
		ts = append(ts, x.T)
	}
	if sig.Results().Len() != 1 {
		fail("pure function value with %d results", sig.Results().Len())
	}
	rt := sig.Results().At(0).Type()
	fn := d.Fun("apply_"+sanitize(strings.Join(sorts[1:], "_")+"__"+d.SortOf(rt)), sorts, d.SortOf(rt))
	return Val{T: app(fn, ts...), Typ: rt}
}

func (a *Act) builtin(st *State, b *ssa.Builtin, com *ssa.CallCommon, pos tokenPos) Val {
	d := a.u.D
	switch b.Name() {
	case "len":
		x := a.term(com.Args[0])
		switch t := types.Unalias(com.Args[0].Type()).Underlying().(type) {
		case *types.Slice:
			return Val{T: app("slen", x)}
		case *types.Basic:
			return Val{T: app("str_len", x)}
		case *types.Map:
			return Val{T: a.mapLen(st, t, x)}
		case *types.Array:
			return Val{T: intLit(t.Len())}
		}
		fail("len of %s", com.Args[0].Type())
	case "cap":
		return Val{T: app("scap", a.term(com.Args[0]))}
	case "append":
		return Val{T: a.appendOp(st, com, pos)}
	case "delete":
		m := a.term(com.Args[0])
		mt := com.Args[0].Type().Underlying().(*types.Map)
		k := a.term(com.Args[1])
		// delete on a nil map is a no-op
		dn, _, ds, _ := a.mapHeapSorts(mt)
		old := st.heap(dn, ds)
		st.setHeap(dn, ds, ite(eq(m, "nil"), old, store(old, m, store(sel(old, m), k, "false"))))
		return Val{}
	case "min", "max":
		op := "<="
		if b.Name() == "max" {
			op = ">="
		}
		r := a.term(com.Args[0])
		for _, x := range com.Args[1:] {
			y := a.term(x)
			r = ite(app(op, r, y), r, y)
		}
		return Val{T: r}
	case "print", "println":
		return Val{}
	case "copy":
		// element contents after copy are not modelled: havoc the element heaps
		if sl, ok := com.Args[0].Type().Underlying().(*types.Slice); ok {
			for _, lh := range a.elemHeaps(sl.Elem()) {
				st.setHeap(lh.name, lh.sort, d.Fresh(lh.name, lh.sort))
			}
		}
		n := d.Fresh("copied", "Int")
		a.u.Fact(app(">=", n, "0"))
		return Val{T: n}
	}
	fail("builtin %s", b.Name())
	return Val{}
}

func (a *Act) mapLen(st *State, mt *types.Map, m Term) Term {
	d := a.u.D
	ks := d.SortOf(mt.Key())
	card := d.Fun("card_"+sanitize(ks), []string{"(Array " + ks + " Bool)"}, "Int")
	dom := ite(eq(m, "nil"), fmt.Sprintf("((as const (Array %s Bool)) false)", ks), a.mapDom(st, mt, m))
	c := d.Fresh("maplen", "Int")
	a.u.Fact(eq(c, app(card, dom)))
	a.u.Fact(app(">=", c, "0"))
	a.u.Fact(eq(eq(c, "0"), fmt.Sprintf("(forall ((kk %s)) (not (select %s kk)))", ks, dom)))
	return c
}

// appendOp models append with in-place growth when the capacity suffices.
func (a *Act) appendOp(st *State, com *ssa.CallCommon, pos tokenPos) Term {
	d := a.u.D
	u := a.u
	s := a.term(com.Args[0])
	sl := com.Args[0].Type().Underlying().(*types.Slice)
	et := sl.Elem()
	if _, isStr := types.Unalias(com.Args[1].Type()).Underlying().(*types.Basic); isStr {
		fail("append of string to byte slice")
	}
	t := a.term(com.Args[1])
	n := app("slen", t)
	// constant number of appended elements (varargs)?
	constN := int64(-1)
	if so, ok := com.Args[1].(*ssa.Slice); ok {
		if al, ok := so.X.(*ssa.Alloc); ok && so.Low == nil && so.High == nil {
			if arr, ok := derefType(al.Type()).Underlying().(*types.Array); ok {
				constN = arr.Len()
				n = intLit(constN)
			}
		}
	}
	if c, ok := com.Args[1].(*ssa.Const); ok && c.Value == nil {
		return s // append(s, nil...)
	}
	newLen := app("+", app("slen", s), n)
	inplace := d.Fresh("inplace", "Bool")
	u.Fact(eq(inplace, app("<=", newLen, app("scap", s))))
	nr := st.newRef()
	ncap := d.Fresh("newcap", "Int")
	u.Fact(app(">=", ncap, newLen))
	res := d.Fresh("appended", "Slice")
	u.Fact(eq(res, ite(inplace, app("mkslice", app("sarr", s), app("soff", s), newLen, app("scap", s)), app("mkslice", nr, "0", newLen, ncap))))
	srcS := func(i Term) Term { return app("saddr", s, i) }
	srcT := func(i Term) Term { return app("saddr", t, i) }
	at := func(i Term) Term { return app("saddr", res, i) }
	for _, lh := range a.elemHeaps(et) {
		old := st.heap(lh.name, lh.sort)
		nh := d.Fresh(lh.name, lh.sort)
		// the elements of s are (still) the first elements of the result
		u.Fact(fmt.Sprintf("(forall ((k Int)) (! (=> (and (<= 0 k) (< k (slen %s))) (= (select %s %s) (select %s %s))) :pattern ((select %s %s))))",
			s, nh, at("k"), old, srcS("k"), nh, at("k")))
		// the appended elements follow
		if constN >= 0 {
			for j := int64(0); j < constN; j++ {
				u.Fact(eq(sel(nh, at(app("+", app("slen", s), intLit(j)))), sel(old, srcT(intLit(j)))))
			}
		} else {
			u.Fact(fmt.Sprintf("(forall ((k Int)) (! (=> (and (<= (slen %s) k) (< k (slen %s))) (= (select %s %s) (select %s %s))) :pattern ((select %s %s))))",
				s, res, nh, at("k"), old, srcT(app("-", "k", app("slen", s))), nh, at("k")))
		}
		// frame: in place only the appended range of the backing array changes; otherwise only the new array
		u.Fact(implies(inplace, fmt.Sprintf("(forall ((r Ref)) (! (=> (not (= (rid r) (rid (sarr %s)))) (= (select %s r) (select %s r))) :pattern ((select %s r))))", s, nh, old, nh)))
		u.Fact(implies(inplace, fmt.Sprintf("(forall ((k Int)) (! (=> (not (and (<= (+ (soff %s) (slen %s)) k) (< k (+ (soff %s) (slen %s) %s)))) (= (select %s (elem (sarr %s) k)) (select %s (elem (sarr %s) k)))) :pattern ((select %s (elem (sarr %s) k)))))",
			s, s, s, s, n, nh, s, old, s, nh, s)))
		u.Fact(implies(inplace, fmt.Sprintf("(forall ((r Ref)) (! (=> (and (= (rid r) (rid (sarr %s))) (not (and ((_ is pelem) (rpath r)) (= (pe_rest (rpath r)) (rpath (sarr %s)))))) (= (select %s r) (select %s r))) :pattern ((select %s r))))", s, s, nh, old, nh)))
		u.Fact(implies(not(inplace), fmt.Sprintf("(forall ((r Ref)) (! (=> (not (= (rid r) (rid %s))) (= (select %s r) (select %s r))) :pattern ((select %s r))))", nr, nh, old, nh)))
		st.setHeap(lh.name, lh.sort, nh)
	}
	return res
}

// closureCreated: preconditions of a contracted closure that mention only captured variables are
// obligations at the point of creation; the captured variables must not be reassigned afterwards.
func (a *Act) closureCreated(st *State, mc *ssa.MakeClosure, fn *ssa.Function, env []Val) {
	fc := a.u.E.Contracts[fn]
	if fc == nil || a.spec {
		return
	}
	for _, v := range env {
		if v.Loc != nil {
			return
		}
	}
	var args []Val
	penv := a.fnEnv(fn, args, env, st, st, nil)
	params := map[string]bool{}
	for _, p := range fn.Params {
		params[p.Name()] = true
	}
	checked := false
	for _, cl := range fc.Clauses {
		if cl.Kind != "requires" || cl.Loop != 0 {
			continue
		}
		if mentions(cl.Expr, params) {
			a.u.warn("precondition of closure %s mentions its parameters: not checked at creation (dynamic call sites are unchecked): %s", fnName(fn), cl.Src)
			continue
		}
		t := a.evalClause(penv, cl)
		detail := fnName(fn)
		if cl.Label != "" {
			detail += "@" + cl.Label
		}
		a.u.Oblige("pre-closure", detail, a.pos(mc.Pos()), "captured-state precondition of "+fnName(fn)+" at creation: "+cl.Src, st.guard, t, cl.Tags)
		checked = true
	}
	if !checked {
		return
	}
	// captured variables must not be stored to after the creation
	for _, b := range mc.Bindings {
		al, ok := b.(*ssa.Alloc)
		if !ok {
			continue
		}
		for _, ref := range *al.Referrers() {
			sto, ok := ref.(*ssa.Store)
			if !ok || sto.Addr != al {
				continue
			}
			okPos := false
			if sto.Block() == mc.Block() {
				for _, ins := range mc.Block().Instrs {
					if ins == sto {
						okPos = true
						break
					}
					if ins == ssa.Instruction(mc) {
						break
					}
				}
			} else if sto.Block().Dominates(mc.Block()) {
				okPos = true
			}
			if !okPos {
				a.u.Oblige("pre-closure", fnName(fn)+":stable", a.pos(sto.Pos()), "captured variable "+al.Comment+" is not reassigned after the closure is created", st.guard, "false", nil)
			}
		}
	}
}

func mentions(e Expr, names map[string]bool) bool {
	switch v := e.(type) {
	case *EIdent:
		return names[v.Name]
	case *ECall:
		for _, x := range v.Args {
			if mentions(x, names) {
				return true
			}
		}
	case *EUnary:
		return mentions(v.X, names)
	case *EBinary:
		return mentions(v.X, names) || mentions(v.Y, names)
	case *ESel:
		return mentions(v.X, names)
	case *EIndex:
		return mentions(v.X, names) || mentions(v.I, names)
	case *ESlice:
		return mentions(v.X, names) || (v.Lo != nil && mentions(v.Lo, names)) || (v.Hi != nil && mentions(v.Hi, names))
	case *EQuant:
		inner := map[string]bool{}
		for k, b := range names {
			inner[k] = b
		}
		for _, p := range v.Vars {
			delete(inner, p.Name)
		}
		return mentions(v.Body, inner)
	case *EOld:
		return mentions(v.X, names)
	case *ECond:
		return mentions(v.C, names) || mentions(v.A, names) || mentions(v.B, names)
	}
	return false
}

// fieldOf: the value is loaded from a struct field (x.F, or the field F of a struct value).
func (a *Act) fieldOf(v ssa.Value) (string, bool) {
	switch x := v.(type) {
	case *ssa.UnOp:
		if fa, ok := x.X.(*ssa.FieldAddr); ok {
			return fieldName(derefType(fa.X.Type()), fa.Field), true
		}
	case *ssa.Field:
		return fieldName(x.X.Type(), x.Field), true
	}
	return "", false
}

// assumedCallback: the called value is loaded from a field declared "callback" in the contract.
func (a *Act) assumedCallback(v ssa.Value) (string, bool) {
	fc := a.top.fc
	if fc == nil || len(fc.Callbacks) == 0 {
		return "", false
	}
	name, ok := a.fieldOf(v)
	if !ok {
		return "", false
	}
	for _, c := range fc.Callbacks {
		if c == name {
			return name, true
		}
	}
	return "", false
}

// sortSliceArg returns the slice-typed SSA value sorted by a call to sort.Slice / sort.SliceStable /
// slices.SortFunc / slices.SortStableFunc, or nil.
func sortSliceArg(callee *ssa.Function, com *ssa.CallCommon) ssa.Value {
	switch intrinsicKey(callee) {
	case "sort.Slice", "sort.SliceStable":
		if mi, ok := com.Args[0].(*ssa.MakeInterface); ok {
			if _, isSlice := types.Unalias(mi.X.Type()).Underlying().(*types.Slice); isSlice {
				return mi.X
			}
		}
	case "slices.SortFunc", "slices.SortStableFunc", "slices.Sort", "golang.org/x/exp/slices.SortFunc", "golang.org/x/exp/slices.SortStableFunc", "golang.org/x/exp/slices.Sort":
		if _, isSlice := types.Unalias(com.Args[0].Type()).Underlying().(*types.Slice); isSlice {
			return com.Args[0]
		}
	}
	return nil
}

// sortCall: sorting permutes the elements of the slice in place: the element heap is havoced for the
// backing array of that slice only; length and identity of the slice are unchanged. The comparison
// function is assumed to have no effect on the modelled heap (listed as trusted).
func (a *Act) sortCall(st *State, callee *ssa.Function, com *ssa.CallCommon, pos tokenPos) (Val, bool) {
	sv := sortSliceArg(callee, com)
	if sv == nil {
		return Val{}, false
	}
	a.u.Trusted["intrinsic "+intrinsicKey(callee)+" (permutes the slice in place; comparator assumed effect-free)"] = true
	s := a.term(sv)
	et := types.Unalias(sv.Type()).Underlying().(*types.Slice).Elem()
	// the result is a permutation of the old contents: new[i] = old[perm[i]] with perm a bijection on [0, len)
	perm := a.u.D.Fresh("perm", "(Array Int Int)")
	inv := a.u.D.Fresh("perminv", "(Array Int Int)")
	n := app("slen", s)
	a.u.Fact(fmt.Sprintf("(forall ((i Int)) (! (=> (and (<= 0 i) (< i %s)) (and (<= 0 (select %s i)) (< (select %s i) %s) (= (select %s (select %s i)) i))) :pattern ((select %s i))))", n, perm, perm, n, inv, perm, perm))
	a.u.Fact(fmt.Sprintf("(forall ((j Int)) (! (=> (and (<= 0 j) (< j %s)) (and (<= 0 (select %s j)) (< (select %s j) %s) (= (select %s (select %s j)) j))) :pattern ((select %s j))))", n, inv, inv, n, perm, inv, inv))
	for _, lh := range a.elemHeaps(et) {
		old := st.heap(lh.name, lh.sort)
		nh := a.u.FreshHeap(lh.name, lh.sort)
		// only the cells s[0..len) change: every other reference - other arrays, other paths in the same
		// allocation, indices outside the slice - keeps its value
		a.u.Fact(fmt.Sprintf("(forall ((r Ref)) (! (=> (not (and (= (rid r) (rid (sarr %s))) ((_ is pelem) (rpath r)) (= (pe_rest (rpath r)) (rpath (sarr %s))) (<= (soff %s) (pe_idx (rpath r))) (< (pe_idx (rpath r)) (+ (soff %s) %s)))) (= (select %s r) (select %s r))) :pattern ((select %s r))))", s, s, s, s, n, nh, old, nh))
		a.u.Fact(fmt.Sprintf("(forall ((i Int)) (! (=> (and (<= 0 i) (< i %s)) (= (select %s (saddr %s i)) (select %s (saddr %s (select %s i))))) :pattern ((select %s (saddr %s i)))))", n, nh, s, old, s, perm, nh, s))
		// ... and the converse direction (a consequence of the two facts above, stated so that a use of an OLD element
		// finds its new place): old[j] = new[perminv[j]]
		a.u.Fact(fmt.Sprintf("(forall ((j Int)) (! (=> (and (<= 0 j) (< j %s)) (and (<= 0 (select %s j)) (< (select %s j) %s) (= (select %s (saddr %s j)) (select %s (saddr %s (select %s j)))))) :pattern ((select %s (saddr %s j)))))", n, inv, inv, n, old, s, nh, s, inv, old, s))
		st.setHeap(lh.name, lh.sort, nh)
	}
	a.top.lastPerm, a.top.lastPermInv = perm, inv
	return Val{}, true
}

// ---- ghost event trace of callback calls ---------------------------------------------------------

const (
	traceLen  = "T_len"
	traceKind = "T_kind"
	traceArg0 = "T_arg0"
	traceArg1 = "T_arg1"
	traceErr  = "T_err"
)

var traceSorts = map[string]string{traceLen: "Int", traceKind: "(Array Int Int)", traceArg0: "(Array Int Ref)", traceArg1: "(Array Int Ref)", traceErr: "(Array Int Bool)"}

func callbackKind(fc *FuncContract, name string) int {
	for i, c := range fc.Callbacks {
		if c == name {
			return i + 1
		}
	}
	return 0
}

// rankTerm maps an event kind term to its rank.
func rankTerm(fc *FuncContract, kind Term) Term {
	t := Term("(- 1)")
	for i := len(fc.Callbacks) - 1; i >= 0; i-- {
		t = ite(eq(kind, intLit(int64(i+1))), intLit(int64(fc.CallbackRank[fc.Callbacks[i]])), t)
	}
	return t
}

func (a *Act) traceEvent(st *State, fc *FuncContract, name string, args []Val, pos tokenPos, res Val, sig *types.Signature) {
	ln := st.heap(traceLen, "Int")
	kinds := st.heap(traceKind, traceSorts[traceKind])
	kind := callbackKind(fc, name)
	rank := fc.CallbackRank[name]
	// order obligation: every event of this call so far has a rank <= the rank of this event
	l0 := a.entry.heap(traceLen, "Int")
	goal := fmt.Sprintf("(forall ((i Int)) (=> (and (<= %s i) (< i %s)) (<= %s %d)))", l0, ln, rankTerm(fc, sel(kinds, "i")), rank)
	a.oblige(st, "order", name, pos, "callback "+name+" is dispatched after all callbacks of lower rank and before those of higher rank", goal)
	st.assume(app(">=", ln, "0"))
	st.setHeap(traceKind, traceSorts[traceKind], store(kinds, ln, intLit(int64(kind))))
	for i, h := range []string{traceArg0, traceArg1} {
		v := Term("nil")
		if i < len(args) && a.u.D.SortOf(args[i].Typ) == "Ref" && args[i].Loc == nil {
			v = args[i].T
		} else if i < len(args) && args[i].Loc != nil && args[i].Loc.RootT != nil && len(args[i].Loc.Path) == 0 {
			v = args[i].Loc.Ref
		}
		st.setHeap(h, traceSorts[h], store(st.heap(h, traceSorts[h]), ln, v))
	}
	// every argument is also recorded in an array of its own sort
	for j, av := range args {
		if av.Loc != nil || av.Tuple != nil || av.T == "" {
			continue
		}
		key := fmt.Sprintf("%s_%d", name, j)
		if a.u.traceArgType == nil {
			a.u.traceArgType = map[string]types.Type{}
		}
		a.u.traceArgType[key] = av.Typ
		h := "T_arg_" + key
		hs := "(Array Int " + a.u.D.SortOf(av.Typ) + ")"
		st.setHeap(h, hs, store(st.heap(h, hs), ln, av.T))
	}
	a.traceResult(st, name, ln, res)
	// did the callback report an error? (last result of interface type)
	failed := Term("false")
	if n := sig.Results().Len(); n > 0 {
		last := res
		if res.Tuple != nil {
			last = res.Tuple[n-1]
		}
		if a.u.D.SortOf(sig.Results().At(n-1).Type()) == "Iface" {
			failed = not(eq(app("itag", last.T), "0"))
		}
	}
	st.setHeap(traceErr, traceSorts[traceErr], store(st.heap(traceErr, traceSorts[traceErr]), ln, failed))
	nl := a.u.D.Fresh("tlen", "Int")
	a.u.Fact(eq(nl, app("+", ln, "1")))
	st.setHeap(traceLen, "Int", nl)
}

// closedWorldInvoke: a call of an unexported method of an interface declared in the repository can only
// reach the implementations in that package; if all of them are small effect-free functions the call is
// the case distinction over the dynamic type tag.
func (a *Act) closedWorldInvoke(st *State, com *ssa.CallCommon, pos tokenPos) (Val, bool) {
	m := com.Method
	if m.Exported() || m.Pkg() == nil || !strings.HasPrefix(m.Pkg().Path(), ModulePath) {
		return Val{}, false
	}
	iface, ok := types.Unalias(com.Value.Type()).Underlying().(*types.Interface)
	if !ok || com.Signature().Results().Len() != 1 {
		return Val{}, false
	}
	recv := a.term(com.Value)
	args := a.argVals(com)
	rt := com.Signature().Results().At(0).Type()
	result := a.u.D.Fresh("dyn_"+m.Name(), a.u.D.SortOf(rt))
	var tags []Term
	scope := m.Pkg().Scope()
	found := 0
	for _, name := range scope.Names() {
		tn, ok := scope.Lookup(name).(*types.TypeName)
		if !ok || tn.IsAlias() {
			continue
		}
		for _, ct := range []types.Type{tn.Type(), types.NewPointer(tn.Type())} {
			if _, isIface := ct.Underlying().(*types.Interface); isIface {
				continue
			}
			if !types.Implements(ct, iface) {
				continue
			}
			if _, isPtr := ct.(*types.Pointer); isPtr && types.Implements(tn.Type(), iface) {
				continue // the value type already implements it; *T would be a different dynamic type only if boxed as pointer
			}
			sel := a.u.E.Prog.MethodSets.MethodSet(ct).Lookup(m.Pkg(), m.Name())
			if sel == nil {
				return Val{}, false
			}
			fn := a.u.E.Prog.MethodValue(sel)
			if fn == nil || !a.canInline(fn, a.stack) {
				return Val{}, false
			}
			tag := intLit(int64(a.u.D.TypeTag(ct)))
			var rv Term
			if a.u.D.SortOf(ct) == "Ref" {
				rv = app("iptr", recv)
			} else {
				rv = a.load(st, app("iptr", recv), ct)
			}
			r := a.callPure(st, fn, append([]Val{{T: rv, Typ: ct}}, args...))
			a.u.Fact(implies(eq(app("itag", recv), tag), eq(result, r.T)))
			tags = append(tags, eq(app("itag", recv), tag))
			found++
		}
	}
	if found == 0 {
		return Val{}, false
	}
	// a nil interface panics; any other dynamic type is impossible (closed world)
	a.oblige(st, "nil", "invoke:"+m.Name(), pos, "method call on nil interface", not(eq(app("itag", recv), "0")))
	st.assume(or(tags...))
	a.u.Trusted["closed-world dispatch of "+m.Pkg().Name()+"."+m.Name()+" over the implementations in its package"] = true
	return Val{T: result, Typ: rt}, true
}

// closedWorldTargets: the implementations an unexported interface method call can reach, if all of
// them are inlinable; ok=false otherwise.
func (a *Act) closedWorldTargets(com *ssa.CallCommon) (fns []*ssa.Function, ok bool) {
	m := com.Method
	if m == nil || m.Exported() || m.Pkg() == nil || !strings.HasPrefix(m.Pkg().Path(), ModulePath) {
		return nil, false
	}
	iface, isI := types.Unalias(com.Value.Type()).Underlying().(*types.Interface)
	if !isI || com.Signature().Results().Len() != 1 {
		return nil, false
	}
	scope := m.Pkg().Scope()
	for _, name := range scope.Names() {
		tn, isT := scope.Lookup(name).(*types.TypeName)
		if !isT || tn.IsAlias() {
			continue
		}
		for _, ct := range []types.Type{tn.Type(), types.NewPointer(tn.Type())} {
			if _, isIface := ct.Underlying().(*types.Interface); isIface {
				continue
			}
			if !types.Implements(ct, iface) {
				continue
			}
			if _, isPtr := ct.(*types.Pointer); isPtr && types.Implements(tn.Type(), iface) {
				continue
			}
			sel := a.u.E.Prog.MethodSets.MethodSet(ct).Lookup(m.Pkg(), m.Name())
			if sel == nil {
				return nil, false
			}
			fn := a.u.E.Prog.MethodValue(sel)
			if fn == nil || !a.canInline(fn, a.stack) {
				return nil, false
			}
			fns = append(fns, fn)
		}
	}
	return fns, len(fns) > 0
}

func sigTakesFunc(sig *types.Signature) bool {
	ps := sig.Params()
	for i := 0; i < ps.Len(); i++ {
		t := types.Unalias(ps.At(i).Type()).Underlying()
		if sl, ok := t.(*types.Slice); ok {
			t = types.Unalias(sl.Elem()).Underlying()
		}
		switch t.(type) {
		case *types.Signature, *types.Interface, *types.Struct, *types.Pointer, *types.Map:
			// function values can travel inside interfaces, structs and through pointers
			if _, isSig := t.(*types.Signature); isSig {
				return true
			}
			if mayCarryFunc(ps.At(i).Type(), 0) {
				return true
			}
		}
	}
	return false
}

// mayCarryFunc: a value of this type can hold a function value of the repository (an empty interface
// or a struct/pointer chain with a func-typed field).
func mayCarryFunc(t types.Type, depth int) bool {
	if depth > 3 {
		return false
	}
	switch u := types.Unalias(t).Underlying().(type) {
	case *types.Signature:
		return true
	case *types.Pointer:
		return mayCarryFunc(u.Elem(), depth+1)
	case *types.Slice:
		return mayCarryFunc(u.Elem(), depth+1)
	case *types.Map:
		return mayCarryFunc(u.Elem(), depth+1)
	case *types.Struct:
		for i := 0; i < u.NumFields(); i++ {
			if mayCarryFunc(u.Field(i).Type(), depth+1) {
				return true
			}
		}
	case *types.Interface:
		// only the empty interface can be handed arbitrary repository values such as closures; a method
		// interface (io.Reader, io.Writer) is reached through its methods, which are not callbacks here
		return u.NumMethods() == 0
	}
	return false
}

func externalValueOnly(callee *ssa.Function) bool {
	pk := pkgOf(callee)
	if pk == "" || strings.HasPrefix(pk, ModulePath) {
		return false
	}
	plain := func(t types.Type) bool {
		switch u := types.Unalias(t).Underlying().(type) {
		case *types.Basic:
			return true
		case *types.Struct:
			// external value types (time.Time, decimal.Decimal, ...)
			if n, ok := types.Unalias(t).(*types.Named); ok && n.Obj().Pkg() != nil && !strings.HasPrefix(n.Obj().Pkg().Path(), ModulePath) {
				return true
			}
		case *types.Pointer:
			if n, ok := types.Unalias(u.Elem()).(*types.Named); ok && n.Obj().Pkg() != nil && !strings.HasPrefix(n.Obj().Pkg().Path(), ModulePath) {
				_, isStruct := n.Underlying().(*types.Struct)
				return isStruct
			}
		}
		return false
	}
	sig := callee.Signature
	if sig.Recv() != nil && !plain(sig.Recv().Type()) {
		return false
	}
	for i := 0; i < sig.Params().Len(); i++ {
		if !plain(sig.Params().At(i).Type()) {
			return false
		}
	}
	return true
}
