package kv

import (
	"fmt"
	"go/constant"
	"go/token"
	"go/types"
	"sort"
	"strings"

	"golang.org/x/tools/go/ssa"
)

// Val is the symbolic value of an SSA value.
type Val struct {
	T     Term
	Loc   *Loc
	Tuple []Val
	Fn    *ssa.Function // statically known function value
	Env   []Val         // bindings of a closure
	Typ   types.Type
}

// Loc is a compile-time location: a (field of a) non-escaping local, or a leaf field of a heap struct.
type Loc struct {
	Local *ssa.Alloc
	Path  []int
	Heap  string
	HSort string
	Ref   Term
	Elem  types.Type
	RootT types.Type // for heap cells holding a whole struct value (slice/array elements): its type; Path selects inside
}

type unsupported struct{ msg string }

func (u unsupported) Error() string { return u.msg }

func fail(format string, args ...any) {
	panic(unsupported{fmt.Sprintf(format, args...)})
}

// Act is one activation of a function body (top-level or inlined).
type Act struct {
	u                     *Unit
	fn                    *ssa.Function
	fc                    *FuncContract
	vals                  map[ssa.Value]Val
	depth                 int
	top                   *Act
	entry                 *State // state at entry of the top-level function (old)
	params                []Val
	free                  []Val
	spec                  bool // pure evaluation: no obligations
	pureFns               map[ssa.Value]bool
	stack                 []*ssa.Function
	loops                 []*loopInfo
	dom                   map[*ssa.BasicBlock]map[*ssa.BasicBlock]bool
	nilOK                 []nilSeen
	measure0              Term // function-level decreases measure at entry
	seenObl               map[string]bool
	onceCells             map[Term]bool   // refs of write-once captured variables (top activation)
	onceVals              map[Term]Term   // their fixed values once stored
	lastPerm, lastPermInv Term            // permutation witness of the most recent sort call (spec builtins perm(i), perminv(j))
	staticTraced          map[string]bool // callback names that are statically called functions (set on the top activation)
	qn                    *int
}

type nilSeen struct {
	t Term
	b *ssa.BasicBlock
}

type loopInfo struct {
	head    *ssa.BasicBlock
	ord     int
	blocks  map[*ssa.BasicBlock]bool
	latches []*ssa.BasicBlock
	// filled at head processing
	measure  Term
	hasMeas  bool
	headVals map[string]SVal
	phiVals  map[*ssa.Phi]Val
	st       *State
	entrySt  *State
	entryPhi map[*ssa.Phi]Val
	modSt    *State
	modNames map[string]bool
	invCache map[ssa.Value]*Val
}

func (a *Act) pos(p token.Pos) string { return a.u.E.Pos(p) }

func fnName(fn *ssa.Function) string {
	return relName(fn)
}

// ---------------------------------------------------------------------------------------
// memory access

func (a *Act) load(st *State, ref Term, t types.Type) Term {
	d := a.u.D
	if isStructType(t) {
		si := d.structInfo(t)
		if len(si.Fields) == 0 {
			return "mk_" + si.Sort
		}
		var as []Term
		for i, f := range si.Fields {
			if isStructType(f.Type) || isArrayType(f.Type) {
				as = append(as, a.load(st, app("sub", ref, intLit(int64(i))), f.Type))
			} else {
				h, hs := d.FieldHeap(t, i)
				as = append(as, hsel(st.u, st.heap(h, hs), ref))
			}
		}
		return app("mk_"+si.Sort, as...)
	}
	if arr, ok := types.Unalias(t).Underlying().(*types.Array); ok {
		// array value: build from elements (small arrays only)
		if arr.Len() > 8 {
			fail("load of large array value")
		}
		v := d.Zero(t)
		eh := a.elemHeap(arr.Elem())
		for i := int64(0); i < arr.Len(); i++ {
			v = store(v, intLit(i), hsel(st.u, st.heap(eh.name, eh.sort), app("elem", ref, intLit(i))))
		}
		return v
	}
	h, hs := d.CellHeap(t)
	return hsel(st.u, st.heap(h, hs), ref)
}

func (a *Act) store(st *State, ref Term, t types.Type, v Term) {
	d := a.u.D
	if isStructType(t) {
		si := d.structInfo(t)
		for i, f := range si.Fields {
			fv := selOf(f.Sel, v)
			if isStructType(f.Type) || isArrayType(f.Type) {
				a.store(st, app("sub", ref, intLit(int64(i))), f.Type, fv)
			} else {
				h, hs := d.FieldHeap(t, i)
				st.setHeap(h, hs, store(st.heap(h, hs), ref, fv))
			}
		}
		return
	}
	if arr, ok := types.Unalias(t).Underlying().(*types.Array); ok {
		if arr.Len() > 8 {
			fail("store of large array value")
		}
		eh := a.elemHeap(arr.Elem())
		for i := int64(0); i < arr.Len(); i++ {
			st.setHeap(eh.name, eh.sort, store(st.heap(eh.name, eh.sort), app("elem", ref, intLit(i)), sel(v, intLit(i))))
		}
		return
	}
	h, hs := d.CellHeap(t)
	st.setHeap(h, hs, store(st.heap(h, hs), ref, v))
}

// leafHeaps enumerates the leaf heaps of a value of type t stored at a reference: for each,
// the heap name/sort and a function mapping the object ref to the address inside it.
type leafHeap struct {
	name, sort string
	addr       func(ref Term) Term
}

// elemHeap: slice and array elements are stored as whole values (struct elements as datatype values)
// in one typed cell heap, addressed by elem(array, index).
func (a *Act) elemHeap(et types.Type) leafHeap {
	h, hs := a.u.D.CellHeap(et)
	return leafHeap{h, hs, func(r Term) Term { return r }}
}

func (a *Act) elemHeaps(et types.Type) []leafHeap { return []leafHeap{a.elemHeap(et)} }

func (a *Act) leafHeaps(t types.Type) []leafHeap {
	d := a.u.D
	var out []leafHeap
	var rec func(t types.Type, addr func(Term) Term)
	rec = func(t types.Type, addr func(Term) Term) {
		if isStructType(t) {
			si := d.structInfo(t)
			for i, f := range si.Fields {
				i := i
				if isStructType(f.Type) || isArrayType(f.Type) {
					rec(f.Type, func(r Term) Term { return app("sub", addr(r), intLit(int64(i))) })
				} else {
					h, hs := d.FieldHeap(t, i)
					out = append(out, leafHeap{h, hs, addr})
				}
			}
			return
		}
		if arr, ok := types.Unalias(t).Underlying().(*types.Array); ok {
			eh := a.elemHeap(arr.Elem())
			for i := int64(0); i < arr.Len() && i < 8; i++ {
				i := i
				out = append(out, leafHeap{eh.name, eh.sort, func(r Term) Term { return app("elem", addr(r), intLit(i)) }})
			}
			return
		}
		h, hs := d.CellHeap(t)
		out = append(out, leafHeap{h, hs, addr})
	}
	rec(t, func(r Term) Term { return r })
	return out
}

// projection / update inside a local struct value
func (a *Act) project(v Term, t types.Type, path []int) (Term, types.Type) {
	for _, i := range path {
		si := a.u.D.structInfo(t)
		v = selOf(si.Fields[i].Sel, v)
		t = si.Fields[i].Type
	}
	return v, t
}

func (a *Act) update(v Term, t types.Type, path []int, nv Term) Term {
	if len(path) == 0 {
		return nv
	}
	si := a.u.D.structInfo(t)
	var as []Term
	for i, f := range si.Fields {
		fv := selOf(f.Sel, v)
		if i == path[0] {
			fv = a.update(fv, f.Type, path[1:], nv)
		}
		as = append(as, fv)
	}
	return app("mk_"+si.Sort, as...)
}

func derefType(t types.Type) types.Type {
	if p, ok := types.Unalias(t).Underlying().(*types.Pointer); ok {
		return p.Elem()
	}
	fail("deref of non-pointer type %s", t)
	return nil
}

// loadPtr dereferences a pointer value.
func (a *Act) loadPtr(st *State, p Val, pos token.Pos, what string) Term {
	elem := derefType(p.Typ)
	if p.Loc != nil {
		if p.Loc.Local != nil {
			base := st.locals[p.Loc.Local]
			v, _ := a.project(base, derefType(p.Loc.Local.Type()), p.Loc.Path)
			return v
		}
		v := hsel(st.u, st.heap(p.Loc.Heap, p.Loc.HSort), p.Loc.Ref)
		if p.Loc.RootT != nil {
			v, _ = a.project(v, p.Loc.RootT, p.Loc.Path)
		}
		a.assumeAllocated(st, v, elem)
		return v
	}
	if v, ok := a.top.onceVals[p.T]; ok {
		return v
	}
	a.checkNonNil(st, p.T, pos, what)
	v := a.load(st, p.T, elem)
	a.assumeAllocated(st, v, elem)
	return v
}

func (a *Act) assumeAllocated(st *State, v Term, t types.Type) {
	if c := st.allocated(v, t); c != "true" {
		st.assume(c)
	}
}

func (a *Act) storePtr(st *State, p Val, v Term, pos token.Pos, what string) {
	elem := derefType(p.Typ)
	if p.Loc != nil {
		if p.Loc.Local != nil {
			lt := derefType(p.Loc.Local.Type())
			st.locals[p.Loc.Local] = a.update(st.locals[p.Loc.Local], lt, p.Loc.Path, v)
			return
		}
		if p.Loc.RootT != nil {
			v = a.update(hsel(st.u, st.heap(p.Loc.Heap, p.Loc.HSort), p.Loc.Ref), p.Loc.RootT, p.Loc.Path, v)
		}
		st.setHeap(p.Loc.Heap, p.Loc.HSort, store(st.heap(p.Loc.Heap, p.Loc.HSort), p.Loc.Ref, v))
		return
	}
	a.checkNonNil(st, p.T, pos, what)
	a.store(st, p.T, elem, v)
}

func (a *Act) dominates(x, y *ssa.BasicBlock) bool { return x.Dominates(y) }

func (a *Act) checkNonNil(st *State, ref Term, pos token.Pos, what string) {
	if a.spec {
		return
	}
	if strings.HasPrefix(ref, "new!") || strings.HasPrefix(ref, "(sub new!") || strings.HasPrefix(ref, "(elem new!") {
		return
	}
	a.oblige(st, "nil", what, pos, "nil dereference", not(eq(ref, "nil")))
	st.assume(not(eq(ref, "nil")))
}

func (a *Act) oblige(st *State, kind, detail string, pos token.Pos, desc string, goal Term) {
	if a.spec {
		return
	}
	if goal == "true" {
		return
	}
	// dedupe identical (guard, goal) pairs
	key := kind + "|" + st.guard + "|" + goal
	if a.top.seenObl == nil {
		a.top.seenObl = map[string]bool{}
	}
	if a.top.seenObl[key] {
		return
	}
	a.top.seenObl[key] = true
	if a.depth > 0 {
		detail = strings.TrimSuffix("inl:"+fnName(a.fn)+":"+detail, ":")
	}
	a.u.Oblige(kind, detail, a.pos(pos), desc, st.guard, goal, nil)
}

// ---------------------------------------------------------------------------------------
// constants and operands

func (a *Act) constVal(c *ssa.Const) Val {
	d := a.u.D
	t := c.Type()
	v := Val{Typ: t}
	if c.Value == nil {
		v.T = d.Zero(t)
		return v
	}
	switch d.SortOf(t) {
	case "Bool":
		if constant.BoolVal(c.Value) {
			v.T = "true"
		} else {
			v.T = "false"
		}
	case "Int":
		if c.Value.Kind() == constant.Float {
			f, _ := constant.Float64Val(c.Value)
			v.T = intLit(int64(f))
		} else if i, ok := constant.Int64Val(constant.ToInt(c.Value)); ok {
			v.T = intLit(i)
		} else {
			// uint64 beyond int64
			v.T = constant.ToInt(c.Value).ExactString()
		}
	case "Real":
		f, _ := constant.Float64Val(c.Value)
		v.T = realLit(f)
	case "Str":
		v.T = d.StrLit(constant.StringVal(c.Value))
	default:
		fail("constant of type %s", t)
	}
	return v
}

func realLit(f float64) Term {
	s := fmt.Sprintf("%f", f)
	if f < 0 {
		return fmt.Sprintf("(- %s)", s[1:])
	}
	return s
}

func (a *Act) val(v ssa.Value) Val {
	switch x := v.(type) {
	case *ssa.Const:
		return a.constVal(x)
	case *ssa.Function:
		return Val{T: intLit(int64(a.u.D.FuncID(a.u.E.KeyOf(x)))), Fn: x, Typ: x.Type()}
	case *ssa.Global:
		// address of a package-level variable: a fixed allocated reference
		name := "G_" + sanitize(x.Pkg.Pkg.Name()+"."+x.Name())
		c := a.u.D.Const(name, "Ref")
		if !a.u.pureDefined[name] {
			a.u.pureDefined[name] = true
			a.u.Fact(and(app("<", app("rid", c), a.u.alloc0), app(">", app("rid", c), "0"), eq(app("rpath", c), "pnil")))
		}
		return Val{T: c, Typ: x.Type()}
	case *ssa.Builtin:
		return Val{Typ: x.Type()}
	}
	if r, ok := a.vals[v]; ok {
		return r
	}
	fail("value %s (%T) used before definition in %s", v.Name(), v, a.fn)
	return Val{}
}

// firstClass turns a pointer to a slice element into an opaque first-class reference: what is read
// through it later is unconstrained (sound for reads); writes through it are not tracked (listed).
func (a *Act) firstClass(x Val, name string) Val {
	if x.Loc != nil && x.Loc.RootT != nil && len(x.Loc.Path) == 0 {
		a.u.Trusted["assumed: no writes through the escaping element pointer "+name+" in "+fnName(a.fn)] = true
		return Val{T: x.Loc.Ref, Typ: x.Typ}
	}
	return x
}

func (a *Act) term(v ssa.Value) Term {
	x := a.firstClass(a.val(v), v.Name())
	if x.Loc != nil {
		fail("pointer to %s used as a first-class value (%s in %s)", locDesc(x.Loc), v.Name(), a.fn)
	}
	if x.Tuple != nil {
		fail("tuple used as value")
	}
	return x.T
}

func locDesc(l *Loc) string {
	if l.Local != nil {
		return "local " + l.Local.Comment
	}
	return "field " + l.Heap
}

// ---------------------------------------------------------------------------------------
// CFG helpers

func backEdge(from, to *ssa.BasicBlock) bool { return to.Dominates(from) }

func (a *Act) findLoops() {
	fn := a.fn
	heads := map[*ssa.BasicBlock]*loopInfo{}
	for _, b := range fn.Blocks {
		for _, s := range b.Succs {
			if backEdge(b, s) {
				li := heads[s]
				if li == nil {
					li = &loopInfo{head: s, blocks: map[*ssa.BasicBlock]bool{s: true}}
					heads[s] = li
				}
				li.latches = append(li.latches, b)
			}
		}
	}
	for _, li := range heads {
		var stack []*ssa.BasicBlock
		for _, l := range li.latches {
			if !li.blocks[l] {
				li.blocks[l] = true
				stack = append(stack, l)
			}
		}
		for len(stack) > 0 {
			b := stack[len(stack)-1]
			stack = stack[:len(stack)-1]
			for _, p := range b.Preds {
				if !li.blocks[p] {
					li.blocks[p] = true
					stack = append(stack, p)
				}
			}
		}
		a.loops = append(a.loops, li)
	}
	sort.Slice(a.loops, func(i, j int) bool { return a.loops[i].head.Index < a.loops[j].head.Index })
	for i, li := range a.loops {
		li.ord = i + 1
	}
}

func (a *Act) loopAt(b *ssa.BasicBlock) *loopInfo {
	for _, li := range a.loops {
		if li.head == b {
			return li
		}
	}
	return nil
}

// topological order of the CFG without back edges
func topo(fn *ssa.Function) []*ssa.BasicBlock {
	seen := map[*ssa.BasicBlock]bool{}
	var post []*ssa.BasicBlock
	var visit func(b *ssa.BasicBlock)
	visit = func(b *ssa.BasicBlock) {
		seen[b] = true
		for _, s := range b.Succs {
			if !seen[s] && !backEdge(b, s) {
				visit(s)
			}
		}
		post = append(post, b)
	}
	if len(fn.Blocks) > 0 {
		visit(fn.Blocks[0])
	}
	for i, j := 0, len(post)-1; i < j; i, j = i+1, j-1 {
		post[i], post[j] = post[j], post[i]
	}
	return post
}

type edgeState struct {
	from *ssa.BasicBlock
	st   *State
}

type retInfo struct {
	st   *State
	vals []Val
}

// merge joins states on mutually exclusive guards.
func (a *Act) merge(ins []*State, label string) *State {
	if len(ins) == 1 {
		return ins[0].clone()
	}
	u := a.u
	out := ins[0].clone()
	for _, s := range ins[1:] {
		if len(s.defers) != len(out.defers) {
			fail("paths with different deferred calls join: outside the supported subset")
		}
		for i := range s.defers {
			if s.defers[i] != out.defers[i] {
				fail("paths with different deferred calls join: outside the supported subset")
			}
		}
	}
	for _, s := range ins[1:] {
		if s.ghostGen != out.ghostGen {
			out.ghostGen = u.newHavocGen()
		}
		if s.havocGen != out.havocGen {
			out.havocGen = u.newHavocGen()
			break
		}
	}
	var gs []Term
	for _, s := range ins {
		gs = append(gs, s.guard)
	}
	g := u.D.Fresh("g_"+label, "Bool")
	u.Fact(eq(g, or(gs...)))
	out.guard = g
	mergeTerm := func(get func(*State) Term, sortOf func() string, name string) Term {
		first := get(ins[0])
		same := true
		for _, s := range ins[1:] {
			if get(s) != first {
				same = false
			}
		}
		if same {
			return first
		}
		t := get(ins[len(ins)-1])
		for i := len(ins) - 2; i >= 0; i-- {
			t = ite(ins[i].guard, get(ins[i]), t)
		}
		c := u.D.Fresh(name, sortOf())
		u.Fact(eq(c, t))
		return c
	}
	names := map[string]bool{}
	for _, s := range ins {
		for h := range s.heaps {
			names[h] = true
		}
	}
	var hn []string
	for h := range names {
		hn = append(hn, h)
	}
	sort.Strings(hn)
	for _, h := range hn {
		h := h
		srt := u.heapSort[h]
		out.heaps[h] = mergeTerm(func(s *State) Term { return s.heap(h, srt) }, func() string { return srt }, h)
	}
	locals := map[*ssa.Alloc]bool{}
	for _, s := range ins {
		for l := range s.locals {
			locals[l] = true
		}
	}
	for l := range locals {
		l := l
		ok := true
		for _, s := range ins {
			if _, has := s.locals[l]; !has {
				ok = false
			}
		}
		if !ok {
			delete(out.locals, l)
			continue
		}
		out.locals[l] = mergeTerm(func(s *State) Term { return s.locals[l] }, func() string { return u.D.SortOf(derefType(l.Type())) }, "loc_"+l.Comment)
	}
	out.alloc = mergeTerm(func(s *State) Term { return s.alloc }, func() string { return "Int" }, "alloc")
	seen := map[ssa.Value]bool{}
	for _, s := range ins {
		for k := range s.seen {
			seen[k] = true
		}
	}
	for k := range seen {
		k := k
		ok := true
		for _, s := range ins {
			if _, has := s.seen[k]; !has {
				ok = false
			}
		}
		if !ok {
			delete(out.seen, k)
			continue
		}
		out.seen[k] = mergeTerm(func(s *State) Term { return s.seen[k] }, func() string { return a.seenSort(k) }, "seen")
	}
	return out
}

func (a *Act) seenSort(rng ssa.Value) string {
	r := rng.(*ssa.Range)
	if m, ok := types.Unalias(r.X.Type()).Underlying().(*types.Map); ok {
		return "(Array " + a.u.D.SortOf(m.Key()) + " Bool)"
	}
	return "Int"
}

// ---------------------------------------------------------------------------------------
// running a function body

// run executes the body from the given state; it returns the merged return state and values,
// or nil if no return is reachable.
func (a *Act) run(st0 *State) (*State, []Val) {
	fn := a.fn
	if len(fn.Blocks) == 0 {
		fail("function %s has no body", fn)
	}
	a.findLoops()
	order := topo(fn)
	in := map[*ssa.BasicBlock][]edgeState{}
	var rets []retInfo
	entrySt := st0
	for _, b := range order {
		var st *State
		var preds []edgeState
		if b == fn.Blocks[0] {
			st = entrySt
		} else {
			preds = in[b]
			if len(preds) == 0 {
				continue // unreachable
			}
		}
		li := a.loopAt(b)
		if b != fn.Blocks[0] {
			var ins []*State
			for _, p := range preds {
				ins = append(ins, p.st)
			}
			st = a.merge(ins, fmt.Sprintf("b%d", b.Index))
			// phis
			for _, ins := range b.Instrs {
				phi, ok := ins.(*ssa.Phi)
				if !ok {
					break
				}
				a.vals[phi] = a.phiVal(phi, preds, b)
			}
		}
		if li != nil {
			st = a.loopHead(li, st, preds)
		}
		// instructions
		terminated := false
		for _, ins := range b.Instrs {
			if _, ok := ins.(*ssa.Phi); ok {
				continue
			}
			switch x := ins.(type) {
			case *ssa.If:
				c := a.term(x.Cond)
				a.edge(in, b, b.Succs[0], st, c, rets)
				a.edge(in, b, b.Succs[1], st, not(c), rets)
				terminated = true
			case *ssa.Jump:
				a.edge(in, b, b.Succs[0], st, "true", rets)
				terminated = true
			case *ssa.Return:
				var vs []Val
				for _, r := range x.Results {
					v := a.val(r)
					if v.Loc != nil {
						fail("returning pointer to %s", locDesc(v.Loc))
					}
					vs = append(vs, v)
				}
				rets = append(rets, retInfo{st, vs})
				terminated = true
			case *ssa.Panic:
				if !(a.depth == 0 && a.fc != nil && a.fc.MayPanic) {
					a.oblige(st, "panic", "", x.Pos(), "explicit panic reachable", "false")
				}
				terminated = true
			default:
				a.instr(st, ins)
			}
			if terminated {
				break
			}
		}
	}
	if len(rets) == 0 {
		return nil, nil
	}
	var ins []*State
	for _, r := range rets {
		ins = append(ins, r.st)
	}
	out := a.merge(ins, "ret")
	n := len(rets[0].vals)
	vals := make([]Val, n)
	for i := 0; i < n; i++ {
		if len(rets) == 1 {
			vals[i] = rets[0].vals[i]
			continue
		}
		t := rets[len(rets)-1].vals[i].T
		for j := len(rets) - 2; j >= 0; j-- {
			t = ite(rets[j].st.guard, rets[j].vals[i].T, t)
		}
		c := a.u.D.Fresh("ret", a.u.D.SortOf(rets[0].vals[i].Typ))
		a.u.Fact(eq(c, t))
		vals[i] = Val{T: c, Typ: rets[0].vals[i].Typ}
		// keep static function info if all returns agree
		same := true
		for _, r := range rets {
			if r.vals[i].Fn != rets[0].vals[i].Fn {
				same = false
			}
		}
		if same {
			vals[i].Fn = rets[0].vals[i].Fn
			vals[i].Env = rets[0].vals[i].Env
		}
	}
	return out, vals
}

func (a *Act) phiVal(phi *ssa.Phi, preds []edgeState, b *ssa.BasicBlock) Val {
	// order of phi.Edges corresponds to b.Preds
	var vs []Val
	var gs []Term
	for _, p := range preds {
		for i, pb := range b.Preds {
			if pb == p.from {
				vs = append(vs, a.val(phi.Edges[i]))
				gs = append(gs, p.st.guard)
				break
			}
		}
	}
	if len(vs) == 0 {
		fail("phi without reachable edges")
	}
	for _, v := range vs {
		if v.Loc != nil {
			fail("phi of local addresses")
		}
	}
	t := vs[len(vs)-1].T
	for i := len(vs) - 2; i >= 0; i-- {
		t = ite(gs[i], vs[i].T, t)
	}
	out := Val{T: t, Typ: phi.Type()}
	same := true
	for _, v := range vs {
		if v.Fn != vs[0].Fn {
			same = false
		}
	}
	if same {
		out.Fn, out.Env = vs[0].Fn, vs[0].Env
	}
	if strings.HasPrefix(t, "(ite ") {
		c := a.u.D.Fresh("phi_"+phi.Comment, a.u.D.SortOf(phi.Type()))
		a.u.Fact(eq(c, t))
		out.T = c
	}
	return out
}

func (a *Act) edge(in map[*ssa.BasicBlock][]edgeState, from, to *ssa.BasicBlock, st *State, cond Term, _ []retInfo) {
	ns := st.clone()
	if cond != "true" {
		g := a.u.D.Fresh(fmt.Sprintf("g_b%d_b%d", from.Index, to.Index), "Bool")
		a.u.Fact(eq(g, and(st.guard, cond)))
		ns.guard = g
	}
	if backEdge(from, to) {
		a.loopBack(a.loopAt(to), ns, from)
		return
	}
	in[to] = append(in[to], edgeState{from, ns})
}
