package kv

import (
	"fmt"
	"go/token"
	"go/types"
	"os"
	"sort"
	"strings"

	"golang.org/x/tools/go/ssa"
)

// modSet describes what a loop may modify.
type modSet struct {
	heaps  map[string]*heapMod
	locals map[*ssa.Alloc]bool
	ranges map[ssa.Value]bool
	all    bool // an opaque call: everything
}

type heapMod struct {
	sort       string
	unknown    bool
	appendArgs []ssa.Value // first arguments of the appends that write this (element) heap
	other      bool        // some write that is neither an append nor to an object allocated in the loop
	exact      []Term      // exact addresses written (loop-invariant)
	roots      []Term      // root ids written (loop-invariant)
}

func (m *modSet) heap(name, sort string) *heapMod {
	h := m.heaps[name]
	if h == nil {
		h = &heapMod{sort: sort}
		m.heaps[name] = h
	}
	return h
}

// inLoop reports whether v is defined inside the loop.
func inLoop(li *loopInfo, v ssa.Value) bool {
	switch x := v.(type) {
	case *ssa.Const, *ssa.Function, *ssa.Global, *ssa.Parameter, *ssa.FreeVar, *ssa.Builtin:
		return false
	case ssa.Instruction:
		return li.blocks[x.Block()]
	}
	return false
}

// rootsOf: loop-entry-evaluable root ids of the backing arrays a slice value may have; ok=false if unknown.
func (a *Act) rootsOf(li *loopInfo, v ssa.Value, visited map[ssa.Value]bool) (roots []Term, ok bool) {
	if visited[v] {
		return nil, true
	}
	visited[v] = true
	if !inLoop(li, v) {
		x := a.val(v)
		if x.Loc != nil || x.T == "" {
			return nil, false
		}
		switch a.u.D.SortOf(v.Type()) {
		case "Slice":
			return []Term{app("rid", app("sarr", x.T))}, true
		case "Ref":
			return []Term{app("rid", x.T)}, true
		}
		return nil, false
	}
	switch x := v.(type) {
	case *ssa.Phi:
		var out []Term
		for _, e := range x.Edges {
			r, ok := a.rootsOf(li, e, visited)
			if !ok {
				return nil, false
			}
			out = append(out, r...)
		}
		return out, true
	case *ssa.Call:
		if b, isB := x.Call.Value.(*ssa.Builtin); isB && b.Name() == "append" {
			return a.rootsOf(li, x.Call.Args[0], visited) // plus fresh roots
		}
		if callee := a.staticCallee(x.Common()); callee != nil {
			if fc := a.u.E.Contracts[callee]; fc != nil && resultIsFresh(fc) {
				return nil, true // the contract promises a freshly allocated result
			}
			if freshSliceIntrinsics[intrinsicKey(callee)] {
				return nil, true // modelled as returning a freshly allocated slice
			}
		}
		return nil, false
	case *ssa.Slice:
		return a.rootsOf(li, x.X, visited)
	case *ssa.Alloc, *ssa.MakeSlice:
		return nil, true // fresh
	case *ssa.IndexAddr:
		return a.rootsOf(li, x.X, visited)
	case *ssa.FieldAddr:
		return a.rootsOf(li, x.X, visited)
	case *ssa.UnOp:
		// load of an "accumulator field": a slice-typed field of a loop-invariant object whose only
		// stores inside the loop write values derived from itself (x.f = append(x.f, ...))
		fa, ok := x.X.(*ssa.FieldAddr)
		if !ok || li.modSt == nil {
			return nil, false
		}
		base, ok := a.invariantAddr(li, fa.X)
		if !ok {
			return nil, false
		}
		stT := derefType(fa.X.Type())
		ft := derefType(fa.Type())
		if a.u.D.SortOf(ft) != "Slice" {
			return nil, false
		}
		h, hs := a.u.D.FieldHeap(stT, fa.Field)
		out := []Term{app("rid", app("sarr", hsel(a.u, li.modSt.heap(h, hs), base)))}
		for b := range li.blocks {
			for _, ins := range b.Instrs {
				sto, ok := ins.(*ssa.Store)
				if !ok {
					continue
				}
				sfa, ok := sto.Addr.(*ssa.FieldAddr)
				if !ok {
					continue
				}
				if sfa.Field != fa.Field || !types.Identical(derefType(sfa.X.Type()), stT) {
					continue
				}
				sbase, ok := a.invariantAddr(li, sfa.X)
				if !ok || sbase != base {
					// a store to the same field of a possibly different object: fresh objects cannot alias
					if al, isAlloc := sfa.X.(*ssa.Alloc); isAlloc && inLoop(li, al) {
						continue
					}
					return nil, false
				}
				r, ok := a.rootsOf(li, sto.Val, visited)
				if !ok {
					return nil, false
				}
				out = append(out, r...)
			}
		}
		return out, true
	}
	return nil, false
}

// addrMods records the effect of a store through addr of a value of type t.
func (a *Act) addrMods(li *loopInfo, m *modSet, addr ssa.Value, t types.Type) {
	// a location inside a slice / array element: the element heap, by root
	for cur := addr; cur != nil; {
		switch x := cur.(type) {
		case *ssa.FieldAddr:
			cur = x.X
			continue
		case *ssa.IndexAddr:
			if et := indexElemType(x.X.Type()); et != nil {
				roots, rok := a.rootsOf(li, x.X, map[ssa.Value]bool{})
				for _, lh := range a.elemHeaps(et) {
					hm := m.heap(lh.name, lh.sort)
					if !(rok && len(roots) == 0) {
						hm.other = true
					}
					if rok {
						hm.roots = append(hm.roots, roots...)
					} else {
						hm.unknown = true
					}
				}
				return
			}
		}
		break
	}
	// local?
	base := addr
	for {
		switch x := base.(type) {
		case *ssa.FieldAddr:
			base = x.X
			continue
		case *ssa.IndexAddr:
			base = x.X
			continue
		}
		break
	}
	if al, ok := base.(*ssa.Alloc); ok && !al.Heap && a.isLocalVar(al) {
		m.locals[al] = true
		return
	}
	// heap targets
	var heaps []leafHeap
	if fa, ok := addr.(*ssa.FieldAddr); ok && !isStructType(t) && !isArrayType(t) {
		st := derefType(fa.X.Type())
		h, hs := a.u.D.FieldHeap(st, fa.Field)
		heaps = []leafHeap{{h, hs, nil}}
	} else {
		heaps = a.leafHeaps(t)
	}
	// exact address if the whole address chain is loop-invariant
	var exact Term
	if !inLoop(li, addr) {
		if v, ok := a.vals[addr]; ok {
			if v.Loc != nil && v.Loc.Heap != "" {
				exact = v.Loc.Ref
			} else if v.Loc == nil && v.T != "" {
				exact = v.T
			}
		}
	} else if fa, ok := addr.(*ssa.FieldAddr); ok && !inLoop(li, fa.X) && !isStructType(t) && !isArrayType(t) {
		if v, ok := a.vals[fa.X]; ok && v.Loc == nil && v.T != "" {
			exact = v.T
		}
	}
	roots, rok := a.rootsOf(li, base, map[ssa.Value]bool{})
	for _, lh := range heaps {
		hm := m.heap(lh.name, lh.sort)
		if !(rok && len(roots) == 0 && exact == "") {
			hm.other = true
		}
		if exact != "" && len(heaps) == 1 {
			hm.exact = append(hm.exact, exact)
		} else if rok {
			hm.roots = append(hm.roots, roots...)
		} else {
			hm.unknown = true
		}
	}
}

func (a *Act) isLocalVar(al *ssa.Alloc) bool {
	t := derefType(al.Type())
	return !al.Heap && !isArrayType(t)
}

func (a *Act) loopMods(li *loopInfo, st *State) *modSet {
	li.modSt = st
	li.modNames = nil
	first := a.loopMods1(li)
	names := map[string]bool{}
	for n, hm := range first.heaps {
		// heaps written only at objects allocated inside the loop keep every pre-existing location
		if hm.unknown || len(hm.exact) > 0 || len(hm.roots) > 0 {
			names[n] = true
		}
	}
	if first.all {
		names["*"] = true
	}
	li.modNames = names
	li.invCache = nil
	m := a.loopMods1(li)
	if os.Getenv("KV_DEBUG") != "" {
		for n, h := range m.heaps {
			fmt.Fprintf(os.Stderr, "loopmods %s L%d %s unknown=%v exact=%v roots=%v\n", fnName(a.fn), li.ord, n, h.unknown, h.exact, h.roots)
		}
	}
	return m
}

func (a *Act) loopMods1(li *loopInfo) *modSet {
	m := &modSet{heaps: map[string]*heapMod{}, locals: map[*ssa.Alloc]bool{}, ranges: map[ssa.Value]bool{}}
	var blocks []*ssa.BasicBlock
	for b := range li.blocks {
		blocks = append(blocks, b)
	}
	sort.Slice(blocks, func(i, j int) bool { return blocks[i].Index < blocks[j].Index })
	for _, b := range blocks {
		for _, ins := range b.Instrs {
			a.instrMods(li, m, ins, 0, nil)
		}
	}
	return m
}

// instrMods accumulates the possible effects of one instruction (of the loop body, or of an inlined callee).
// resolveBase walks an address expression of an inlined callee down to the value it is rooted in,
// substituting callee parameters by the caller's arguments.
func resolveBase(v ssa.Value, subst map[ssa.Value]ssa.Value) ssa.Value {
	for i := 0; i < 64; i++ {
		switch x := v.(type) {
		case *ssa.FieldAddr:
			v = x.X
			continue
		case *ssa.IndexAddr:
			v = x.X
			continue
		case *ssa.Parameter:
			if w, ok := subst[x]; ok {
				v = w
				continue
			}
			return nil
		}
		return v
	}
	return nil
}

func (a *Act) instrMods(li *loopInfo, m *modSet, ins ssa.Instruction, depth int, stack []*ssa.Function) {
	a.instrModsS(li, m, ins, depth, stack, nil)
}

func (a *Act) instrModsS(li *loopInfo, m *modSet, ins ssa.Instruction, depth int, stack []*ssa.Function, subst map[ssa.Value]ssa.Value) {
	d := a.u.D
	fresh := func(t types.Type) {
		for _, lh := range a.leafHeaps(t) {
			m.heap(lh.name, lh.sort) // fresh roots only
		}
	}
	switch x := ins.(type) {
	case *ssa.Store:
		if depth > 0 {
			// store inside an inlined callee: by the root of the address, seen from the caller
			base := resolveBase(x.Addr, subst)
			var roots []Term
			rok := false
			if base != nil && li != nil {
				if al, isAlloc := base.(*ssa.Alloc); isAlloc && al.Parent() != a.fn {
					rok = true // object allocated by the callee: fresh
				} else if al, isAlloc := base.(*ssa.Alloc); isAlloc && !al.Heap && a.isLocalVar(al) && al.Parent() == a.fn {
					m.locals[al] = true
					return
				} else {
					roots, rok = a.rootsOf(li, base, map[ssa.Value]bool{})
				}
			}
			for _, lh := range a.storeHeaps(x.Addr, x.Val.Type()) {
				hm := m.heap(lh.name, lh.sort)
				if !(rok && len(roots) == 0) {
					hm.other = true
				}
				if rok {
					hm.roots = append(hm.roots, roots...)
				} else {
					hm.unknown = true
				}
			}
			return
		}
		a.addrMods(li, m, x.Addr, x.Val.Type())
	case *ssa.Alloc:
		if x.Heap || !a.isLocalVar(x) {
			fresh(derefType(x.Type()))
		} else if depth == 0 {
			m.locals[x] = true
		}
	case *ssa.MakeSlice:
		for _, lh := range a.elemHeaps(x.Type().Underlying().(*types.Slice).Elem()) {
			m.heap(lh.name, lh.sort)
		}
	case *ssa.MakeInterface:
		if d.SortOf(x.X.Type()) != "Ref" {
			fresh(x.X.Type())
		}
	case *ssa.MakeMap:
		mt := x.Type().Underlying().(*types.Map)
		dn, vn, ks, vs := d.MapHeaps(mt)
		m.heap(dn, "(Array Ref (Array "+ks+" Bool))")
		m.heap(vn, "(Array Ref (Array "+ks+" "+vs+"))")
	case *ssa.MakeClosure:
		for _, b := range x.Bindings {
			_ = b
		}
	case *ssa.MapUpdate:
		mt := x.Map.Type().Underlying().(*types.Map)
		mv := x.Map
		d2 := depth
		if p, ok := mv.(*ssa.Parameter); ok && depth > 0 && subst != nil {
			if w, ok := subst[p]; ok {
				if _, still := w.(*ssa.Parameter); !still || w.Parent() == a.fn {
					mv, d2 = w, 0
				}
			}
		}
		a.mapMods(li, m, mv, mt, d2)
	case *ssa.Next:
		if depth == 0 {
			m.ranges[x.Iter] = true
		}
	case *ssa.Defer:
		if !isMutexDefer(x) {
			m.all = true
		}
	case *ssa.Go, *ssa.Send, *ssa.Select:
		m.all = true
	case ssa.CallInstruction:
		a.callMods(li, m, x, depth, stack, subst)
	}
}

func indexElemType(t types.Type) types.Type {
	switch u := types.Unalias(t).Underlying().(type) {
	case *types.Slice:
		return u.Elem()
	case *types.Pointer:
		if arr, ok := u.Elem().Underlying().(*types.Array); ok {
			return arr.Elem()
		}
	}
	return nil
}

func (a *Act) storeHeaps(addr ssa.Value, t types.Type) []leafHeap {
	for cur := addr; cur != nil; {
		switch x := cur.(type) {
		case *ssa.FieldAddr:
			cur = x.X
			continue
		case *ssa.IndexAddr:
			if et := indexElemType(x.X.Type()); et != nil {
				return a.elemHeaps(et)
			}
		}
		break
	}
	if fa, ok := addr.(*ssa.FieldAddr); ok && !isStructType(t) && !isArrayType(t) {
		st := derefType(fa.X.Type())
		h, hs := a.u.D.FieldHeap(st, fa.Field)
		return []leafHeap{{h, hs, nil}}
	}
	return a.leafHeaps(t)
}

func (a *Act) mapMods(li *loopInfo, m *modSet, mv ssa.Value, mt *types.Map, depth int) {
	d := a.u.D
	dn, vn, ks, vs := d.MapHeaps(mt)
	hd := m.heap(dn, "(Array Ref (Array "+ks+" Bool))")
	hv := m.heap(vn, "(Array Ref (Array "+ks+" "+vs+"))")
	if depth == 0 && li != nil {
		if t, ok := a.invariantAddr(li, mv); ok {
			hd.exact = append(hd.exact, t)
			hv.exact = append(hv.exact, t)
			return
		}
	}
	hd.unknown = true
	hv.unknown = true
}

func (a *Act) callMods(li *loopInfo, m *modSet, c ssa.CallInstruction, depth int, stack []*ssa.Function, outer map[ssa.Value]ssa.Value) {
	com := c.Common()
	if b, ok := com.Value.(*ssa.Builtin); ok {
		switch b.Name() {
		case "append":
			et := com.Args[0].Type().Underlying().(*types.Slice).Elem()
			var roots []Term
			rok := false
			if depth == 0 && li != nil {
				roots, rok = a.rootsOf(li, com.Args[0], map[ssa.Value]bool{})
			}
			for _, lh := range a.elemHeaps(et) {
				hm := m.heap(lh.name, lh.sort)
				if depth == 0 {
					hm.appendArgs = append(hm.appendArgs, com.Args[0])
				} else {
					hm.other = true
				}
				if rok {
					hm.roots = append(hm.roots, roots...)
				} else {
					hm.unknown = true
				}
			}
		case "copy":
			if sl, ok := com.Args[0].Type().Underlying().(*types.Slice); ok {
				for _, lh := range a.elemHeaps(sl.Elem()) {
					m.heap(lh.name, lh.sort).unknown = true
				}
			}
		case "delete":
			mt := com.Args[0].Type().Underlying().(*types.Map)
			a.mapMods(li, m, com.Args[0], mt, depth)
		case "clear":
			m.all = true
		}
		return
	}
	callee := a.staticCallee(com)
	if callee == nil {
		if a.isPureFnValue(com.Value) || com.IsInvoke() && a.invokeIsPure(com) {
			return
		}
		if com.IsInvoke() {
			if _, ok := invokeIntrinsics[shortType(com.Value.Type())+"."+com.Method.Name()]; ok {
				m.heap(outHeap, "Int").unknown = true
				m.heap(outOKHeap, "Bool").unknown = true
				return
			}
			if fns, ok := a.closedWorldTargets(com); ok {
				for _, fn := range fns {
					for _, b := range fn.Blocks {
						for _, ins := range b.Instrs {
							a.instrModsS(li, m, ins, depth+1, append(stack, fn), nil)
						}
					}
				}
				return
			}
			if fc := a.top.fc; fc != nil {
				for _, c := range fc.Callbacks {
					if c == com.Method.Name() {
						if fc.CallbackRank != nil {
							for _, h := range []string{traceLen, traceKind, traceArg0, traceArg1, traceErr} {
								m.heap(h, traceSorts[h]).unknown = true
							}
							for h, srt := range a.u.heapSort {
								if strings.HasPrefix(h, "T_arg_") || strings.HasPrefix(h, "T_res") || strings.HasPrefix(h, "T_recv_") {
									m.heap(h, srt).unknown = true
								}
							}
						}
						return
					}
				}
			}
		}
		if _, ok := a.assumedCallback(com.Value); ok {
			if fc := a.top.fc; fc != nil && fc.CallbackRank != nil {
				for _, h := range []string{traceLen, traceKind, traceArg0, traceArg1, traceErr} {
					m.heap(h, traceSorts[h]).unknown = true
				}
				for h, srt := range a.u.heapSort {
					if strings.HasPrefix(h, "T_arg_") || strings.HasPrefix(h, "T_res") || strings.HasPrefix(h, "T_recv_") {
						m.heap(h, srt).unknown = true
					}
				}
			}
			return
		}
		m.all = true
		return
	}
	// a statically called function that the contract traces (callback clause): the call appends to the
	// ghost event trace, so a loop containing it modifies the trace heaps
	if fc := a.top.fc; fc != nil && fc.CallbackRank != nil && depth == 0 {
		cname := callee.Name()
		if o := callee.Origin(); o != nil {
			cname = o.Name()
		}
		if _, traced := fc.CallbackRank[cname]; traced {
			for _, h := range []string{traceLen, traceKind, traceArg0, traceArg1, traceErr} {
				m.heap(h, traceSorts[h]).unknown = true
			}
			for h, srt := range a.u.heapSort {
				if strings.HasPrefix(h, "T_arg_") || strings.HasPrefix(h, "T_res") || strings.HasPrefix(h, "T_recv_") {
					m.heap(h, srt).unknown = true
				}
			}
		}
	}
	if sv := sortSliceArg(callee, com); sv != nil {
		et := types.Unalias(sv.Type()).Underlying().(*types.Slice).Elem()
		var roots []Term
		rok := false
		if depth == 0 && li != nil {
			roots, rok = a.rootsOf(li, sv, map[ssa.Value]bool{})
		}
		for _, lh := range a.elemHeaps(et) {
			hm := m.heap(lh.name, lh.sort)
			hm.other = true
			if rok {
				hm.roots = append(hm.roots, roots...)
			} else {
				hm.unknown = true
			}
		}
		return
	}
	if _, ok := intrinsics[intrinsicKey(callee)]; ok {
		if eff := intrinsicEffects[intrinsicKey(callee)]; eff != nil {
			eff(a, m, com)
		}
		return
	}
	if fc := a.u.E.Contracts[callee]; fc != nil && !fc.Inline {
		a.contractMods(li, m, callee, fc, com, depth)
		return
	}
	if !a.canInline(callee, stack) && externalValueOnly(callee) {
		return
	}
	if a.canInline(callee, stack) && depth < 6 {
		subst := map[ssa.Value]ssa.Value{}
		for i, p := range callee.Params {
			if i < len(com.Args) {
				arg := com.Args[i]
				// arguments that are themselves parameters of an enclosing inlined callee
				if pp, ok := arg.(*ssa.Parameter); ok && outer != nil {
					if w, ok := outer[pp]; ok {
						arg = w
					}
				}
				subst[p] = arg
			}
		}
		if outer != nil {
			// address expressions of the enclosing callee may appear as arguments: keep its substitution
			for k, v := range outer {
				if _, dup := subst[k]; !dup {
					subst[k] = v
				}
			}
		}
		for _, b := range callee.Blocks {
			for _, ins := range b.Instrs {
				a.instrModsS(li, m, ins, depth+1, append(stack, callee), subst)
			}
		}
		return
	}
	m.all = true
}

// contractMods: heaps named by a callee's modifies clauses.
func (a *Act) contractMods(li *loopInfo, m *modSet, callee *ssa.Function, fc *FuncContract, com *ssa.CallCommon, depth int) {
	if fc.NoFrame || fc.ModCallbacks {
		m.all = true
		return
	}
	for _, cl := range fc.Clauses {
		if cl.Kind != "modifies" {
			continue
		}
		for _, me := range cl.Mods {
			if id, ok := me.(*EIdent); ok && id.Name == "globals" {
				m.all = true
				return
			}
			tg, err := a.modTarget(callee, me)
			if err != nil {
				a.u.warn("modifies target %s of %s: %v", me, callee, err)
				m.all = true
				return
			}
			var exact []Term
			if depth == 0 && li != nil && tg.exact != nil {
				exact = a.exactTargets(li, callee, com, tg)
			}
			// a target rooted in an object that was freshly allocated inside the loop
			if exact == nil && depth == 0 && li != nil && tg.rootParam >= 0 && tg.rootParam < len(com.Args) {
				if roots, ok := a.rootsOf(li, com.Args[tg.rootParam], map[ssa.Value]bool{}); ok && tg.underRoot {
					for _, lh := range tg.heaps {
						hm := m.heap(lh.name, lh.sort)
						hm.other = true
						hm.roots = append(hm.roots, roots...)
					}
					continue
				}
			}
			for i, lh := range tg.heaps {
				hm := m.heap(lh.name, lh.sort)
				hm.other = true
				if exact != nil && i < len(exact) {
					hm.exact = append(hm.exact, exact[i])
					continue
				}
				hm.unknown = true
			}
		}
	}
	// callee allocations touch only fresh roots; nothing to record
}

func callArgs(com *ssa.CallCommon) []ssa.Value {
	return com.Args
}

// havoc the loop-modified part of the state at a loop head.
func (a *Act) loopHead(li *loopInfo, st *State, preds []edgeState) *State {
	u := a.u
	b := li.head
	mods := a.loopMods(li, st)
	// 1. invariants on entry
	invs, decr := a.loopClauses(li)
	entryEnv := a.loopEnv(li, st, "entry", nil)
	for _, cl := range invs {
		if hasExactTag(cl.Tags, "trusted") {
			// an assumed loop invariant: no obligations, listed with the assumptions of the evidence
			u.Trusted["trusted loop invariant of "+fnName(a.fn)+": "+cl.Src] = true
			continue
		}
		t := a.evalClause(entryEnv, cl)
		a.obligeClause(st, "inv-entry", fmt.Sprintf("L%d", li.ord), cl, b.Instrs[0].Pos(), "loop invariant on entry: "+cl.Src, t)
	}
	// 2. havoc
	h := st.clone()
	g := u.D.Fresh(fmt.Sprintf("g_loop%d", li.ord), "Bool")
	u.Fact(implies(g, st.guard))
	h.guard = g
	na := u.D.Fresh("alloc_loop", "Int")
	u.Fact(app(">=", na, st.alloc))
	h.alloc = na
	li.phiVals = map[*ssa.Phi]Val{}
	li.entrySt = st.clone()
	li.entryPhi = map[*ssa.Phi]Val{}
	for _, ins := range b.Instrs {
		phi, ok := ins.(*ssa.Phi)
		if !ok {
			break
		}
		old := a.vals[phi]
		li.entryPhi[phi] = old
		c := u.D.Fresh("phi_"+phi.Comment, u.D.SortOf(phi.Type()))
		nv := Val{T: c, Typ: phi.Type(), Fn: nil}
		_ = old
		a.vals[phi] = nv
		li.phiVals[phi] = nv
		if al := h.allocated(c, phi.Type()); al != "true" {
			h.assume(al)
		}
		if phi.Comment == "rangeindex" {
			// by construction of go/ssa's range-over-slice loop the hidden index starts at -1 and is incremented
			h.assume(app(">=", c, "(- 1)"))
			// ... and never beyond the length fixed before the loop: at the head index+1 <= len (the loop
			// continues only while index+1 < len, and len is an SSA value computed in the preheader)
			for _, ins := range b.Instrs {
				if bo, ok := ins.(*ssa.BinOp); ok && bo.Op == token.LSS {
					if inc, ok := bo.X.(*ssa.BinOp); ok && inc.Op == token.ADD && inc.X == ssa.Value(phi) {
						if lv, ok := a.vals[bo.Y]; ok && lv.T != "" && lv.Loc == nil {
							h.assume(app("<=", app("+", c, "1"), lv.T))
						}
					}
				}
			}
		}
	}
	if mods.all {
		for name, srt := range u.heapSort {
			h.heaps[name] = u.FreshHeap(name, srt)
		}
		h.havocGen = u.newHavocGen()
		h.ghostGen = h.havocGen
		u.warn("%s: loop %d contains an opaque call: whole heap havoced at the loop head", a.fn, li.ord)
	} else {
		var names []string
		for n := range mods.heaps {
			names = append(names, n)
		}
		sort.Strings(names)
		for _, n := range names {
			hm := mods.heaps[n]
			oldH := st.heap(n, hm.sort)
			nh := u.FreshHeap(n, hm.sort)
			h.setHeap(n, hm.sort, nh)
			srt, isTrace := traceSorts[n]
			if strings.HasPrefix(n, "T_arg_") || strings.HasPrefix(n, "T_res") || strings.HasPrefix(n, "T_recv_") {
				isTrace = true // argument / result / receiver slots of traced calls: indexed by event, append-only as well
			}
			if isTrace {
				// the ghost event trace is append-only: entries below the length at loop entry are unchanged
				l0 := st.heap(traceLen, "Int")
				if n == traceLen {
					u.Fact(app(">=", nh, l0))
				} else {
					u.Fact(fmt.Sprintf("(forall ((i Int)) (! (=> (< i %s) (= (select %s i) (select %s i))) :pattern ((select %s i))))", l0, nh, oldH, nh))
				}
				_ = srt
				continue
			}
			if !hm.unknown {
				conds := []Term{app("<", app("rid", "r"), st.alloc)}
				seen := map[string]bool{}
				for _, e := range hm.exact {
					if !seen["e"+e] {
						seen["e"+e] = true
						conds = append(conds, not(eq("r", e)))
					}
				}
				for _, r := range hm.roots {
					if !seen["r"+r] {
						seen["r"+r] = true
						conds = append(conds, not(eq(app("rid", "r"), r)))
					}
				}
				u.Fact(fmt.Sprintf("(forall ((r Ref)) (! (=> %s (= (select %s r) (select %s r))) :pattern ((select %s r))))", and(conds...), nh, oldH, nh))
			}
		}
	}
	// accumulator slices: x = append(x, ...) is the only way the loop writes the element heap of x
	// (besides objects it allocates itself): the elements below the entry length are unchanged.
	if !mods.all {
		for _, ins := range b.Instrs {
			phi, ok := ins.(*ssa.Phi)
			if !ok {
				break
			}
			sl, isSlice := types.Unalias(phi.Type()).Underlying().(*types.Slice)
			if !isSlice {
				continue
			}
			eh := a.elemHeap(sl.Elem())
			hm := mods.heaps[eh.name]
			if hm == nil || hm.other || hm.unknown || !a.isAccumulator(li, phi, hm) {
				continue
			}
			ev := li.entryPhi[phi].T
			nv := a.vals[phi].T
			if ev == "" || nv == "" {
				continue
			}
			u.Fact(implies(g, app(">=", app("slen", nv), app("slen", ev))))
			u.Fact(implies(g, fmt.Sprintf("(forall ((j Int)) (! (=> (and (<= 0 j) (< j (slen %s))) (= (select %s (saddr %s j)) (select %s (saddr %s j)))) :pattern ((select %s (saddr %s j)))))",
				ev, h.heap(eh.name, eh.sort), nv, st.heap(eh.name, eh.sort), ev, h.heap(eh.name, eh.sort), nv)))
		}
	}
	for al := range mods.locals {
		if _, ok := h.locals[al]; ok {
			h.locals[al] = u.D.Fresh("loc_"+al.Comment, u.D.SortOf(derefType(al.Type())))
		}
	}
	for r := range mods.ranges {
		if _, ok := h.seen[r]; ok {
			h.seen[r] = u.D.Fresh("seen", a.seenSort(r))
			if a.seenSort(r) == "Int" {
				h.assume(app(">=", h.seen[r], "0"))
			}
		}
	}
	// ghost variables updated by this loop (or a nested one) are havoced
	if a.fc != nil && a == a.top {
		for _, g := range a.fc.Ghosts {
			ns := map[int]bool{}
			for n := range g.Updates {
				ns[n] = true
			}
			for n := range g.EndUpdates {
				ns[n] = true
			}
			for n := range ns {
				var inner *loopInfo
				for _, l2 := range a.loops {
					if l2.ord == n {
						inner = l2
					}
				}
				if inner != nil && li.blocks[inner.head] {
					srt, _ := ghostSort(g.Sort)
					h.setHeap("G_"+g.Name, srt, u.D.Fresh("G_"+g.Name, srt))
				}
			}
		}
	}
	// 3. assume invariants
	headEnv := a.loopEnv(li, h, "head", nil)
	for _, cl := range invs {
		u.TaggedFact(implies(h.guard, a.evalClause(headEnv, cl)), fmt.Sprintf("inv:L%d#%d", li.ord, cl.Ord))
	}
	// 4. ghost updates of this loop head (in textual order)
	if a.fc != nil && a == a.top {
		for _, gu := range a.fc.GhostUpdates {
			if gu.Loop != li.ord || gu.End {
				continue
			}
			var g *GhostVar
			for _, x := range a.fc.Ghosts {
				if x.Name == gu.Name {
					g = x
				}
			}
			srt, _ := ghostSort(g.Sort)
			var t Term
			if err := catch(func() {
				v := headEnv.value(headEnv.eval(gu.Expr))
				t = v.T
				if v.Sort == "Int" && srt == "Real" {
					t = toReal(t)
				}
			}); err != nil {
				u.Errors = append(u.Errors, fmt.Sprintf("%s: ghost update %s: %v", u.Name, g.Name, err))
				continue
			}
			h.setHeap("G_"+g.Name, srt, t)
		}
	}
	li.st = h
	li.hasMeas = false
	if decr != nil {
		li.measure = a.evalClauseTerm(headEnv, decr)
		c := u.D.Fresh("measure", "Int")
		u.Fact(eq(c, li.measure))
		li.measure = c
		li.hasMeas = true
	} else if !(b.Comment == "rangeindex.loop" || b.Comment == "rangeiter.loop") {
		u.LoopsNoDecr = append(u.LoopsNoDecr, fmt.Sprintf("%s loop %d", fnName(a.fn), li.ord))
	}
	if u.smokeOn {
		o := u.Oblige("smoke", fmt.Sprintf("L%d", li.ord), a.pos(b.Instrs[0].Pos()), "loop head reachable under the invariant", h.guard, "false", nil)
		o.Smoke = true
	}
	return h
}

func (a *Act) loopBack(li *loopInfo, st *State, from *ssa.BasicBlock) {
	invs, decr := a.loopClauses(li)
	if a.fc != nil && a == a.top {
		for _, gu := range a.fc.GhostUpdates {
			if gu.Loop != li.ord || !gu.End {
				continue
			}
			var g *GhostVar
			for _, x := range a.fc.Ghosts {
				if x.Name == gu.Name {
					g = x
				}
			}
			srt, _ := ghostSort(g.Sort)
			genv := a.loopEnv(li, st, "back", from)
			var t Term
			if err := catch(func() {
				v := genv.value(genv.eval(gu.Expr))
				t = v.T
				if v.Sort == "Int" && srt == "Real" {
					t = toReal(t)
				}
			}); err != nil {
				a.u.Errors = append(a.u.Errors, fmt.Sprintf("%s: ghost-end update %s: %v", a.u.Name, g.Name, err))
				continue
			}
			st.setHeap("G_"+g.Name, srt, t)
		}
	}
	env := a.loopEnv(li, st, "back", from)
	pos := from.Instrs[len(from.Instrs)-1].Pos()
	if !pos.IsValid() {
		pos = li.head.Instrs[0].Pos()
	}
	for _, cl := range invs {
		if hasExactTag(cl.Tags, "trusted") {
			continue
		}
		t := a.evalClause(env, cl)
		a.obligeClause(st, "inv-step", fmt.Sprintf("L%d", li.ord), cl, pos, "loop invariant preserved: "+cl.Src, t)
	}
	if decr != nil && li.hasMeas {
		m := a.evalClauseTerm(env, decr)
		a.obligeClause(st, "decreases", fmt.Sprintf("L%d", li.ord), decr, pos, "loop variant decreases: "+decr.Src,
			and(app("<", m, li.measure), app("<=", "0", li.measure)))
	}
}

func (a *Act) obligeClause(st *State, kind, detail string, cl *Clause, pos interface{ IsValid() bool }, desc string, goal Term) {
	if a.spec {
		return
	}
	if cl.Label != "" {
		detail = detail + "@" + cl.Label
	}
	p := ""
	if tp, ok := pos.(interface{ IsValid() bool }); ok && tp.IsValid() {
		p = a.u.E.Pos(pos.(tokenPos))
	}
	o := a.u.Oblige(kind, detail, p, desc, st.guard, goal, cl.Tags)
	if cl.Kind == "invariant" {
		o.KeepTag = fmt.Sprintf("inv:L%d#%d", cl.Loop, cl.Ord)
	}
}

func (a *Act) loopClauses(li *loopInfo) (invs []*Clause, decr *Clause) {
	if a.fc == nil {
		return nil, nil
	}
	for _, cl := range a.fc.Clauses {
		if cl.Loop != li.ord {
			continue
		}
		switch cl.Kind {
		case "invariant":
			invs = append(invs, cl)
		case "decreases":
			decr = cl
		}
	}
	return
}

// invariantAddr: the value of an expression computed inside the loop that is the same in every
// iteration: it is evaluated symbolically in the loop-entry state (pure instructions and inlinable
// calls only) and must not read any heap the loop modifies at pre-existing objects.
func (a *Act) invariantAddr(li *loopInfo, v ssa.Value) (Term, bool) {
	if !inLoop(li, v) {
		if x, ok := a.vals[v]; ok && x.Loc == nil && x.T != "" {
			return x.T, true
		}
		switch v.(type) {
		case *ssa.Parameter, *ssa.FreeVar, *ssa.Const, *ssa.Global, *ssa.Function:
			x := a.val(v)
			return x.T, x.T != "" && x.Loc == nil
		}
		return "", false
	}
	if li.modSt == nil {
		return "", false
	}
	if li.invCache == nil {
		li.invCache = map[ssa.Value]*Val{}
	}
	if c, ok := li.invCache[v]; ok {
		if c == nil || c.Loc != nil || c.T == "" {
			return "", false
		}
		return c.T, true
	}
	li.invCache[v] = nil
	// first pass (modNames unknown yet): only pure address arithmetic
	probe := li.modSt.clone()
	probe.probe = map[string]bool{}
	probe.guard = "true"
	sub := &Act{u: a.u, fn: a.fn, fc: nil, vals: map[ssa.Value]Val{}, depth: a.depth, top: a.top, entry: a.entry, spec: true,
		pureFns: a.pureFns, stack: a.stack, params: a.params, free: a.free}
	var eval func(v ssa.Value, depth int) bool
	eval = func(v ssa.Value, depth int) bool {
		if depth > 12 {
			return false
		}
		if _, ok := sub.vals[v]; ok {
			return true
		}
		if !inLoop(li, v) {
			switch v.(type) {
			case *ssa.Const, *ssa.Function, *ssa.Global, *ssa.Builtin:
				return true
			}
			x, ok := a.vals[v]
			if !ok {
				return false
			}
			sub.vals[v] = x
			return true
		}
		ins, ok := v.(ssa.Instruction)
		if !ok {
			return false
		}
		switch x := ins.(type) {
		case *ssa.FieldAddr, *ssa.Field, *ssa.Extract, *ssa.ChangeType, *ssa.Convert, *ssa.BinOp:
		case *ssa.UnOp:
			if x.Op != token.MUL && x.Op != token.SUB && x.Op != token.NOT {
				return false
			}
		case *ssa.Call:
			callee := a.staticCallee(x.Common())
			if callee == nil || a.u.E.Contracts[callee] != nil && !a.u.E.Contracts[callee].Inline || !a.canInline(callee, a.stack) {
				if callee == nil {
					return false
				}
				if _, isIntr := intrinsics[intrinsicKey(callee)]; !isIntr {
					return false
				}
			}
		default:
			return false
		}
		for _, op := range ins.Operands(nil) {
			if *op == nil {
				continue
			}
			if !eval(*op, depth+1) {
				return false
			}
		}
		nf := len(a.u.Facts)
		if err := catch(func() { sub.instr(probe, ins) }); err != nil {
			a.u.Facts = a.u.Facts[:nf]
			return false
		}
		_, ok = sub.vals[v]
		return ok
	}
	if !eval(v, 0) {
		return "", false
	}
	if li.modNames == nil {
		if len(probe.probe) > 0 {
			delete(li.invCache, v) // retry in the second pass
			return "", false
		}
	} else {
		if li.modNames["*"] {
			return "", false
		}
		for h := range probe.probe {
			if li.modNames[h] {
				return "", false
			}
		}
	}
	r := sub.vals[v]
	li.invCache[v] = &r
	if r.Loc != nil || r.T == "" {
		return "", false
	}
	return r.T, true
}

// exactTargets evaluates the addresses of a modifies target for a call inside a loop, using only
// loop-invariant arguments and heaps the loop does not modify; nil if that is not possible.
func (a *Act) exactTargets(li *loopInfo, callee *ssa.Function, com *ssa.CallCommon, tg *modTargetInfo) (out []Term) {
	args := com.Args
	vals := make([]Val, len(callee.Params))
	okArg := make([]bool, len(callee.Params))
	for i := range callee.Params {
		if i < len(args) {
			if t, ok := a.invariantAddr(li, args[i]); ok {
				vals[i] = Val{T: t, Typ: callee.Params[i].Type()}
				okArg[i] = true
			}
		}
	}
	if li.modSt == nil || li.modNames == nil || li.modNames["*"] {
		return nil
	}
	probe := li.modSt.clone()
	probe.probe = map[string]bool{}
	env := a.fnEnv(callee, vals, nil, probe, probe, nil)
	inner := env.lookup
	bad := false
	env.lookup = func(name string) (SVal, bool) {
		for i, p := range callee.Params {
			if p.Name() == name && !okArg[i] {
				bad = true
			}
		}
		return inner(name)
	}
	if err := catch(func() { out = tg.exact(env) }); err != nil || bad {
		return nil
	}
	for h := range probe.probe {
		if li.modNames[h] {
			return nil // the address depends on something the loop modifies
		}
	}
	return out
}

// isAccumulator: every value the slice phi takes on a back edge is obtained from the phi itself by a
// chain of appends (possibly through joins and inner loops), and every append that writes the element
// heap inside the loop extends this chain.
func (a *Act) isAccumulator(li *loopInfo, phi *ssa.Phi, hm *heapMod) bool {
	chain := map[ssa.Value]bool{phi: true}
	var derived func(v ssa.Value, depth int) bool
	derived = func(v ssa.Value, depth int) bool {
		if chain[v] {
			return true
		}
		if depth > 32 || !inLoop(li, v) {
			return false
		}
		switch x := v.(type) {
		case *ssa.Call:
			if b, ok := x.Call.Value.(*ssa.Builtin); ok && b.Name() == "append" {
				if derived(x.Call.Args[0], depth+1) {
					chain[v] = true
					return true
				}
			}
		case *ssa.Phi:
			chain[v] = true // assume, then check the edges
			for _, e := range x.Edges {
				if !derived(e, depth+1) {
					delete(chain, v)
					return false
				}
			}
			return true
		}
		return false
	}
	for i, pb := range li.head.Preds {
		if !li.blocks[pb] {
			continue
		}
		if !derived(phi.Edges[i], 0) {
			return false
		}
	}
	for _, arg := range hm.appendArgs {
		if !derived(arg, 0) {
			// an append to some other slice: only harmless if that slice lives in memory allocated in the loop
			roots, ok := a.rootsOf(li, arg, map[ssa.Value]bool{})
			if !ok || len(roots) > 0 {
				return false
			}
		}
	}
	return true
}

// freshSliceIntrinsics: library functions modelled by pureFresh whose slice result is newly allocated.
var freshSliceIntrinsics = map[string]bool{"strings.Split": true, "strings.SplitN": true, "strings.Fields": true}

// resultIsFresh: the contract has a top-level conjunct fresh(result) in some ensures clause.
func resultIsFresh(fc *FuncContract) bool {
	var conj func(e Expr) bool
	conj = func(e Expr) bool {
		switch v := e.(type) {
		case *EBinary:
			if v.Op == "&&" {
				return conj(v.X) || conj(v.Y)
			}
		case *ECall:
			if v.Fn == "fresh" && len(v.Args) == 1 {
				if r, ok := v.Args[0].(*EResult); ok && r.Idx <= 0 {
					return true
				}
			}
		}
		return false
	}
	for _, cl := range fc.Clauses {
		if cl.Kind == "ensures" && cl.Expr != nil && conj(cl.Expr) {
			return true
		}
	}
	return false
}
