package kv

import (
	"bytes"
	"context"
	"fmt"
	"os"
	"os/exec"
	"strings"
	"sync"
	"time"
)

// Term is an SMT-LIB2 expression in concrete syntax.
type Term = string

func app(f string, args ...Term) Term {
	if len(args) == 0 {
		return f
	}
	return "(" + f + " " + strings.Join(args, " ") + ")"
}

func and(ts ...Term) Term {
	var out []Term
	for _, t := range ts {
		if t == "true" {
			continue
		}
		if t == "false" {
			return "false"
		}
		out = append(out, t)
	}
	switch len(out) {
	case 0:
		return "true"
	case 1:
		return out[0]
	}
	return app("and", out...)
}

func or(ts ...Term) Term {
	var out []Term
	for _, t := range ts {
		if t == "false" {
			continue
		}
		if t == "true" {
			return "true"
		}
		out = append(out, t)
	}
	switch len(out) {
	case 0:
		return "false"
	case 1:
		return out[0]
	}
	return app("or", out...)
}

func not(t Term) Term {
	switch t {
	case "true":
		return "false"
	case "false":
		return "true"
	}
	if strings.HasPrefix(t, "(not ") && strings.HasSuffix(t, ")") {
		inner := t[5 : len(t)-1]
		if balanced(inner) {
			return inner
		}
	}
	return app("not", t)
}

func balanced(s string) bool {
	d := 0
	for i, c := range s {
		switch c {
		case '(':
			d++
		case ')':
			d--
			if d == 0 && i != len(s)-1 {
				return false
			}
			if d < 0 {
				return false
			}
		case ' ':
			if d == 0 {
				return false
			}
		}
	}
	return d == 0
}

func implies(a, b Term) Term {
	if a == "true" {
		return b
	}
	if b == "true" {
		return "true"
	}
	return app("=>", a, b)
}

func eq(a, b Term) Term {
	if a == b {
		return "true"
	}
	return app("=", a, b)
}

func ite(c, a, b Term) Term {
	if c == "true" {
		return a
	}
	if c == "false" {
		return b
	}
	if a == b {
		return a
	}
	return app("ite", c, a, b)
}

func intLit(n int64) Term {
	if n < 0 {
		return fmt.Sprintf("(- %d)", -n)
	}
	return fmt.Sprintf("%d", n)
}

func sel(a, i Term) Term      { return app("select", a, i) }
func store(a, i, v Term) Term { return app("store", a, i, v) }

// Prelude is shared by every query.
const Prelude = `
(declare-datatypes ((Path 0)) (((pnil) (pfield (pf_idx Int) (pf_rest Path)) (pelem (pe_idx Int) (pe_rest Path)))))
(declare-datatypes ((Ref 0)) (((mkref (rid Int) (rpath Path)))))
(define-fun nil () Ref (mkref 0 pnil))
(define-fun sub ((r Ref) (k Int)) Ref (mkref (rid r) (pfield k (rpath r))))
(define-fun elem ((r Ref) (i Int)) Ref (mkref (rid r) (pelem i (rpath r))))
(declare-datatypes ((Slice 0)) (((mkslice (sarr Ref) (soff Int) (slen Int) (scap Int)))))
(define-fun nilslice () Slice (mkslice nil 0 0 0))
(declare-datatypes ((Iface 0)) (((mkiface (itag Int) (iptr Ref)))))
(define-fun niliface () Iface (mkiface 0 nil))
(declare-sort Str 0)
(declare-fun str_len (Str) Int)
(declare-fun str_at (Str Int) Int)
(declare-fun str_sub (Str Int Int) Str)
(declare-fun str_cat (Str Str) Str)
(declare-const str_empty Str)
(assert (= (str_len str_empty) 0))
(assert (forall ((s Str)) (! (= (str_sub s 0 (str_len s)) s) :pattern ((str_sub s 0 (str_len s))))))
(assert (forall ((s Str)) (! (and (>= (str_len s) 0) (<= (str_len s) 72057594037927936) (=> (= (str_len s) 0) (= s str_empty))) :pattern ((str_len s)))))
(declare-fun saddr (Slice Int) Ref)
(assert (forall ((s Slice) (i Int)) (! (= (saddr s i) (elem (sarr s) (+ (soff s) i))) :pattern ((saddr s i)))))
(define-fun wfslice ((s Slice)) Bool (and (<= 0 (soff s)) (<= 0 (slen s)) (<= (slen s) (scap s)) (<= (scap s) 72057594037927936) (<= (soff s) 72057594037927936) (=> (= (sarr s) nil) (= (scap s) 0))))
(define-fun trunc_int ((x Real)) Int (ite (>= x 0.0) (to_int x) (- (to_int (- x)))))
(define-fun absr ((x Real)) Real (ite (>= x 0.0) x (- x)))
`

type SolverResult struct {
	Status string // unsat | sat | unknown | timeout | error
	Solver string
	Output string
	Model  string
	Dur    time.Duration
}

type solverSpec struct {
	name string
	argv func(file string, timeoutSec int) []string
}

var solvers = []solverSpec{
	{"z3-new", func(f string, t int) []string { return []string{"z3-new", fmt.Sprintf("-T:%d", t), f} }},
	{"z3", func(f string, t int) []string { return []string{"/usr/bin/z3", fmt.Sprintf("-T:%d", t), f} }},
	{"cvc5", func(f string, t int) []string {
		return []string{"cvc5", "--lang=smt2", fmt.Sprintf("--tlimit=%d", t*1000), f}
	}},
}

// RunSolvers races the portfolio on one query. If all is true every solver is run to completion
// and a disagreement (unsat vs sat) is reported as status "inconsistent".
func RunSolvers(query string, wantModel bool, timeoutSec int, all bool, only []string) SolverResult {
	return RunSolversCtx(context.Background(), query, wantModel, timeoutSec, all, only)
}

func RunSolversCtx(parent context.Context, query string, wantModel bool, timeoutSec int, all bool, only []string) SolverResult {
	dir, err := os.MkdirTemp("", "kvq")
	if err != nil {
		return SolverResult{Status: "error", Output: err.Error()}
	}
	defer os.RemoveAll(dir)
	ctx, cancel := context.WithTimeout(parent, time.Duration(timeoutSec+5)*time.Second)
	defer cancel()
	type res struct {
		r SolverResult
	}
	var use []solverSpec
	for _, s := range solvers {
		if len(only) > 0 {
			ok := false
			for _, o := range only {
				if o == s.name {
					ok = true
				}
			}
			if !ok {
				continue
			}
		}
		use = append(use, s)
	}
	ch := make(chan SolverResult, len(use))
	var wg sync.WaitGroup
	for _, s := range use {
		s := s
		wg.Add(1)
		go func() {
			defer wg.Done()
			q := query
			if s.name == "cvc5" {
				q = "(set-option :produce-models true)\n(set-logic ALL)\n" + q
			}
			tail := "(check-sat)\n"
			if wantModel {
				tail += "(get-model)\n"
			}
			file := fmt.Sprintf("%s/%s.smt2", dir, s.name)
			os.WriteFile(file, []byte(q+tail), 0o644)
			argv := s.argv(file, timeoutSec)
			t0 := time.Now()
			cmd := exec.CommandContext(ctx, argv[0], argv[1:]...)
			var out bytes.Buffer
			cmd.Stdout = &out
			cmd.Stderr = &out
			cmd.Run()
			o := out.String()
			first := ""
			for _, ln := range strings.Split(o, "\n") {
				ln = strings.TrimSpace(ln)
				if ln == "sat" || ln == "unsat" || ln == "unknown" || ln == "timeout" {
					first = ln
					break
				}
			}
			r := SolverResult{Solver: s.name, Output: o, Dur: time.Since(t0)}
			if strings.Contains(o, "(error ") && !strings.Contains(o, "model is not available") {
				first = "error"
			}
			switch {
			case first == "unsat":
				r.Status = "unsat"
			case first == "sat":
				r.Status = "sat"
				if i := strings.Index(o, "sat\n"); i >= 0 {
					r.Model = o[i+4:]
				}
			case first == "unknown":
				r.Status = "unknown"
			case first == "timeout" || strings.Contains(o, "timeout") || strings.Contains(o, "interrupted") || ctx.Err() != nil:
				r.Status = "timeout"
			default:
				r.Status = "error"
			}
			ch <- r
		}()
	}
	go func() { wg.Wait(); close(ch) }()
	var results []SolverResult
	for r := range ch {
		results = append(results, r)
		if !all && (r.Status == "unsat" || r.Status == "sat") {
			cancel()
			return r
		}
	}
	var unsat, sat *SolverResult
	best := SolverResult{Status: "unknown"}
	for i := range results {
		r := &results[i]
		switch r.Status {
		case "unsat":
			if unsat == nil {
				unsat = r
			}
		case "sat":
			if sat == nil {
				sat = r
			}
		case "error":
			if best.Status == "unknown" && best.Output == "" {
				best = *r
			}
		case "timeout":
			best = *r
		}
	}
	if unsat != nil && sat != nil {
		return SolverResult{Status: "inconsistent", Solver: unsat.Solver + "/" + sat.Solver, Output: "unsat by " + unsat.Solver + ", sat by " + sat.Solver, Model: sat.Model}
	}
	if sat != nil {
		return *sat
	}
	if unsat != nil {
		return *unsat
	}
	if best.Status == "error" {
		// every solver errored: surface the first error
		return best
	}
	var outs []string
	for _, r := range results {
		outs = append(outs, r.Solver+": "+strings.TrimSpace(firstLines(r.Output, 3)))
	}
	best.Output = strings.Join(outs, "\n")
	if best.Status == "" {
		best.Status = "unknown"
	}
	return best
}

func firstLines(s string, n int) string {
	ls := strings.SplitN(s, "\n", n+1)
	if len(ls) > n {
		ls = ls[:n]
	}
	return strings.Join(ls, "\n")
}

// topArgs splits "(f a b c)" into f and its top-level arguments.
func topArgs(t Term) (string, []Term) {
	if len(t) < 2 || t[0] != '(' || t[len(t)-1] != ')' {
		return t, nil
	}
	body := t[1 : len(t)-1]
	var parts []Term
	d := 0
	start := 0
	for i := 0; i < len(body); i++ {
		switch body[i] {
		case '(':
			d++
		case ')':
			d--
		case ' ', '\n', '\t', '\r':
			if d == 0 {
				if i > start {
					parts = append(parts, body[start:i])
				}
				start = i + 1
			}
		}
	}
	if start < len(body) {
		parts = append(parts, body[start:])
	}
	if len(parts) == 0 {
		return t, nil
	}
	return parts[0], parts[1:]
}

// selOf applies a datatype selector, simplifying selector-of-constructor.
func selOf(sel string, v Term) Term {
	if strings.HasPrefix(v, "(mk_") {
		f, args := topArgs(v)
		// selector name is "<Sort>_<field>", constructor "mk_<Sort>"
		srt := strings.TrimPrefix(f, "mk_")
		if strings.HasPrefix(sel, srt+"_") {
			if idx, ok := selIndex[sel]; ok && idx < len(args) {
				return args[idx]
			}
		}
	}
	return app(sel, v)
}

var selIndex = map[string]int{}

// StrLtDecl: the lexicographic order on strings as an uninterpreted strict total order (declared on demand).
const StrLtDecl = `(declare-fun str_lt (Str Str) Bool)
(assert (forall ((x Str) (y Str)) (! (=> (str_lt x y) (not (str_lt y x))) :pattern ((str_lt x y)))))
(assert (forall ((x Str) (y Str)) (! (or (str_lt x y) (str_lt y x) (= x y)) :pattern ((str_lt x y)))))
(assert (forall ((x Str) (y Str) (z Str)) (! (=> (and (str_lt x y) (str_lt y z)) (str_lt x z)) :pattern ((str_lt x y) (str_lt y z)))))`

// Trunc8Decl: decimal Truncate(8) as an uninterpreted function with its axioms (declared on demand).
const Trunc8Decl = `(declare-fun trunc8 (Real) Real)
(assert (forall ((x Real)) (! (and (<= (absr (trunc8 x)) (absr x)) (< (absr (- x (trunc8 x))) 0.00000001) (=> (>= x 0.0) (>= (trunc8 x) 0.0)) (=> (<= x 0.0) (<= (trunc8 x) 0.0))) :pattern ((trunc8 x)))))
(assert (forall ((x Real)) (! (= (trunc8 (- x)) (- (trunc8 x))) :pattern ((trunc8 (- x))))))
(assert (forall ((x Real)) (! (= (trunc8 (trunc8 x)) (trunc8 x)) :pattern ((trunc8 (trunc8 x))))))
(assert (= (trunc8 0.0) 0.0))`
