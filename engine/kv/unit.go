package kv

import (
	"fmt"
	"go/types"
	"os"
	"regexp"
	"sort"
	"strings"
	"time"

	"golang.org/x/tools/go/ssa"
)

// Obligation is one named proof obligation: facts[:NFacts] ∧ Guard ⊢ Goal.
type Obligation struct {
	Name    string   `json:"name"`
	Kind    string   `json:"kind"`
	Func    string   `json:"func"`
	Pos     string   `json:"pos,omitempty"`
	Desc    string   `json:"desc,omitempty"`
	Tags    []string `json:"tags,omitempty"`
	NFacts  int      `json:"-"`
	Guard   Term     `json:"-"`
	Goal    Term     `json:"-"`
	Smoke   bool     `json:"smoke,omitempty"`
	KeepTag string   `json:"-"` // "#<clause ordinal>" for invariant obligations
	unit    *Unit

	Status string  `json:"status"`
	Solver string  `json:"solver,omitempty"`
	Secs   float64 `json:"secs"`
	Output string  `json:"output,omitempty"`
	Model  string  `json:"-"`
}

// Unit is the verification of one function (or lemma): declarations, ordered facts, obligations.
type Unit struct {
	E        *Engine
	D        *Decls
	Name     string
	Facts    []Term
	Obls     []*Obligation
	counts   map[string]int
	heap0    map[string]Term // initial heap constants
	heapSort map[string]string

	Opaque       map[string]bool // opaque calls made
	Trusted      map[string]bool // intrinsics / trusted contracts used
	Inlined      map[string]bool
	ByContract   map[string]bool
	Warnings     []string
	specFnsUsed  map[string]bool
	LoopsNoDecr  []string
	Errors       []string
	alloc0       Term
	pureDefined  map[string]bool
	smokeOn      bool
	axioms       []Term
	factTags     map[int]string
	wfSeen       map[Term]bool
	traceArgType map[string]types.Type // "<callback>_<argindex>" -> Go type
	storeDef     map[Term][3]Term      // heap constant -> (base, index, value) when defined by a store
	entryEnv     func() *Env
	gens         int
}

func NewUnit(e *Engine, name string) *Unit {
	u := &Unit{E: e, D: NewDecls(), Name: name, counts: map[string]int{}, heap0: map[string]Term{}, heapSort: map[string]string{},
		Opaque: map[string]bool{}, Trusted: map[string]bool{}, Inlined: map[string]bool{}, ByContract: map[string]bool{}, specFnsUsed: map[string]bool{}, pureDefined: map[string]bool{}}
	u.alloc0 = u.D.Const("alloc!0", "Int")
	u.Fact(app(">", u.alloc0, "0"))
	return u
}

func (u *Unit) Fact(t Term) {
	if t == "true" {
		return
	}
	u.Facts = append(u.Facts, t)
}

// TaggedFact records a hypothesis together with its origin (an assumed loop-invariant clause), so
// that a query can be retried with unrelated quantified invariant clauses left out (dropping
// hypotheses is always sound).
func (u *Unit) TaggedFact(t Term, tag string) {
	if t == "true" {
		return
	}
	if u.factTags == nil {
		u.factTags = map[int]string{}
	}
	u.factTags[len(u.Facts)] = tag
	u.Facts = append(u.Facts, t)
}

func (u *Unit) warn(format string, args ...any) {
	w := fmt.Sprintf(format, args...)
	for _, x := range u.Warnings {
		if x == w {
			return
		}
	}
	u.Warnings = append(u.Warnings, w)
}

// Oblige registers an obligation. name is the stable part after "<func>#".
func (u *Unit) Oblige(kind, detail, pos, desc string, guard, goal Term, tags []string) *Obligation {
	key := kind
	if detail != "" {
		key = kind + ":" + detail
	}
	u.counts[key]++
	name := fmt.Sprintf("%s#%s#%d", u.Name, key, u.counts[key])
	o := &Obligation{Name: name, Kind: kind, Func: u.Name, Pos: pos, Desc: desc, NFacts: len(u.Facts), Guard: guard, Goal: goal, Tags: tags, unit: u}
	u.Obls = append(u.Obls, o)
	return o
}

func (u *Unit) Query(o *Obligation) string { return u.QueryVariant(o, 0) }

// CandidateQuery drops every quantified hypothesis: a satisfying assignment of it is only a candidate
// counterexample (never a verdict) that the replay on the real code confirms or discards.
func (u *Unit) CandidateQuery(o *Obligation) string {
	var b strings.Builder
	full := u.QueryVariant(o, 0)
	for _, ln := range strings.Split(full, "\n") {
		if strings.HasPrefix(ln, "(assert ") && strings.Contains(ln, "(forall ") && !strings.HasPrefix(ln, "(assert (not ") {
			continue
		}
		b.WriteString(ln + "\n")
	}
	return b.String()
}

// QueryVariant 0 = all hypotheses; 1 = quantified loop-invariant hypotheses are kept only if they
// belong to the clause the obligation is about (its KeepTag).
func (u *Unit) QueryVariant(o *Obligation, variant int) string {
	var b strings.Builder
	b.WriteString(Prelude)
	b.WriteString(goPrelude)
	b.WriteString(u.D.Text())
	for _, f := range u.D.StrLitFacts() {
		b.WriteString("(assert " + f + ")\n")
	}
	for _, a := range u.axiomTerms() {
		b.WriteString("(assert " + a + ")\n")
	}
	var anc map[string]bool
	if variant == 4 {
		anc = u.guardAncestors(o)
	}
	for i, f := range u.Facts[:o.NFacts] {
		if variant == 4 {
			// path-local variant: a hypothesis that is guarded by a path condition which is not on the way to
			// this obligation (a sibling branch) is dropped
			if g := leadingGuard(f); g != "" && !anc[g] {
				continue
			}
		}
		if variant > 0 && variant < 4 && o.KeepTag != "" {
			if tag, ok := u.factTags[i]; ok && strings.Contains(f, "(forall ") {
				loopPart := o.KeepTag[:strings.Index(o.KeepTag, "#")] // "inv:L2"
				same := tag == o.KeepTag
				sameLoop := strings.HasPrefix(tag, loopPart+"#")
				keep := true
				switch variant {
				case 1: // only the clause itself
					keep = same
				case 2: // the clause itself and everything from other loops
					keep = same || !sameLoop
				case 3: // the whole loop, nothing from other loops
					keep = sameLoop
				}
				if !keep {
					continue
				}
			}
		}
		b.WriteString("(assert " + f + ")\n")
	}
	b.WriteString("(assert " + o.Guard + ")\n")
	b.WriteString("(assert " + not(o.Goal) + ")\n")
	return b.String()
}

const goPrelude = `
(define-fun godiv ((x Int) (y Int)) Int (ite (>= x 0) (ite (> y 0) (div x y) (- (div x (- y)))) (ite (> y 0) (- (div (- x) y)) (div (- x) (- y)))))
(define-fun gomod ((x Int) (y Int)) Int (- x (* y (godiv x y))))
`

// heap returns the initial constant of a heap array.
func (u *Unit) heapInit(name, sort string) Term {
	if t, ok := u.heap0[name]; ok {
		return t
	}
	t := u.D.Const(name+"!0", sort)
	u.heapWF(t, sort)
	u.heap0[name] = t
	u.heapSort[name] = sort
	return t
}

// State is the symbolic state at a program point.
type State struct {
	u        *Unit
	guard    Term
	heaps    map[string]Term
	locals   map[*ssa.Alloc]Term
	alloc    Term
	seen     map[ssa.Value]Term // ghost: keys already produced by a map range; position of a string range
	dom0     map[ssa.Value]Term
	probe    map[string]bool // when non-nil: records the heaps read (used to detect loop-variant address expressions)
	defers   []*ssa.Defer    // deferred calls registered on this path (run in reverse order at RunDefers)
	ghostGen int             // like havocGen, for the ghost heaps (event trace, output counter): only whole-state havocs that include them
	havocGen int             // generation of whole-heap havocs: heaps first used later get a generation-specific constant
}

func (s *State) clone() *State {
	n := &State{u: s.u, guard: s.guard, alloc: s.alloc, havocGen: s.havocGen, ghostGen: s.ghostGen, defers: append([]*ssa.Defer(nil), s.defers...), heaps: make(map[string]Term, len(s.heaps)), locals: make(map[*ssa.Alloc]Term, len(s.locals)), seen: make(map[ssa.Value]Term, len(s.seen)), dom0: s.dom0}
	for k, v := range s.heaps {
		n.heaps[k] = v
	}
	for k, v := range s.locals {
		n.locals[k] = v
	}
	for k, v := range s.seen {
		n.seen[k] = v
	}
	return n
}

func (s *State) heap(name, sort string) Term {
	if s.probe != nil {
		s.probe[name] = true
	}
	if t, ok := s.heaps[name]; ok {
		return t
	}
	gen := s.havocGen
	if isGhostHeap(name) {
		gen = s.ghostGen
	}
	if gen > 0 {
		s.u.heapInit(name, sort)
		cn := fmt.Sprintf("%s!gen%d", name, gen)
		_, seen := s.u.D.consts[sanitize(cn)]
		t := s.u.D.Const(cn, sort)
		if !seen {
			s.u.heapWF(t, sort)
		}
		return t
	}
	return s.u.heapInit(name, sort)
}

func (s *State) setHeap(name, sort string, t Term) {
	s.u.heapInit(name, sort)
	if strings.HasPrefix(t, "(") {
		// name every heap version: keeps the query text linear in the size of the function
		c := s.u.D.Fresh(name, sort)
		s.u.Fact(eq(c, t))
		if f, args := topArgs(t); f == "store" && len(args) == 3 {
			if s.u.storeDef == nil {
				s.u.storeDef = map[Term][3]Term{}
			}
			s.u.storeDef[c] = [3]Term{args[0], args[1], args[2]}
		}
		t = c
	}
	s.heaps[name] = t
}

func (s *State) assume(t Term) {
	s.u.Fact(implies(s.guard, t))
}

// newRef allocates a fresh object reference.
func (s *State) newRef() Term {
	r := app("mkref", s.alloc, "pnil")
	// keep allocation counters as named constants so that terms stay small
	na := s.u.D.Fresh("alloc", "Int")
	s.u.Fact(eq(na, app("+", s.alloc, "1")))
	// name the ref
	rc := s.u.D.Fresh("new", "Ref")
	s.u.Fact(eq(rc, r))
	s.alloc = na
	return rc
}

// allocated states that every reference contained in the value v (of Go type t) is allocated now.
func (s *State) allocated(v Term, t types.Type) Term {
	return s.u.allocatedAt(v, t, s.alloc, 0)
}

func (u *Unit) allocatedAt(v Term, t types.Type, alloc Term, depth int) Term {
	if depth > 3 {
		return "true"
	}
	if b, ok := types.Unalias(t).Underlying().(*types.Basic); ok && depth <= 1 {
		// machine integers: a value of a signed integer type lies in the range of that type
		switch b.Kind() {
		case types.Int, types.Int64:
			return and(app("<=", "(- 9223372036854775808)", v), app("<=", v, "9223372036854775807"))
		case types.Int32:
			return and(app("<=", "(- 2147483648)", v), app("<=", v, "2147483647"))
		}
	}
	switch u.D.SortOf(t) {
	case "Ref":
		return app("<", app("rid", v), alloc)
	case "Slice":
		return and(app("<", app("rid", app("sarr", v)), alloc), app("wfslice", v))
	case "Iface":
		return app("<", app("rid", app("iptr", v)), alloc)
	}
	if isStructType(t) {
		si := u.D.structInfo(t)
		var cs []Term
		for _, f := range si.Fields {
			cs = append(cs, u.allocatedAt(selOf(f.Sel, v), f.Type, alloc, depth+1))
		}
		return and(cs...)
	}
	return "true"
}

// ---------------------------------------------------------------------------------------

func (u *Unit) newHavocGen() int {
	u.gens++
	return u.gens
}

func (u *Unit) axiomTerms() []Term {
	return u.axioms
}

var _ = sort.Strings
var _ = time.Now

// hsel reads a heap version; a read at the (syntactically) same index as the store that defines the
// version yields the stored value directly (read-over-write), which keeps terms in the shape the
// quantifier triggers expect.
func hsel(u *Unit, h Term, idx Term) Term {
	if os.Getenv("KV_NOHSEL") != "" {
		return sel(h, idx)
	}
	if d, ok := u.storeDef[h]; ok && d[1] == idx {
		return d[2]
	}
	return sel(h, idx)
}

// heapWF: type invariant of an unconstrained heap version: every slice stored in it is well formed
// (0 <= len <= cap, ...). Versions obtained by stores of well-formed values inherit it.
func (u *Unit) heapWF(h Term, sort string) {
	if os.Getenv("KV_WF") == "" {
		return // replaced by ground facts at the specification read sites (see Env.sv)
	}
	if strings.HasSuffix(sort, " Slice)") && strings.HasPrefix(sort, "(Array Ref ") {
		u.Fact(fmt.Sprintf("(forall ((r Ref)) (! (wfslice (select %s r)) :pattern ((select %s r))))", h, h))
	}
}

// FreshHeap: an unconstrained new version of a heap array.
func (u *Unit) FreshHeap(name, sort string) Term {
	t := u.D.Fresh(name, sort)
	u.heapWF(t, sort)
	return t
}

var guardTok = regexp.MustCompile(`g_[A-Za-z0-9_]+![0-9]+`)

// leadingGuard: for a fact of the form (=> g_x!n ...), the guard symbol.
func leadingGuard(f Term) string {
	if !strings.HasPrefix(f, "(=> g_") {
		return ""
	}
	rest := f[4:]
	if i := strings.IndexAny(rest, " )"); i > 0 {
		return rest[:i]
	}
	return ""
}

// guardAncestors: the path-condition symbols the obligation's guard is built from (transitively through
// the definitions (= g (and ...)) / (= g (or ...)) emitted at edges and joins).
func (u *Unit) guardAncestors(o *Obligation) map[string]bool {
	defs := map[string][]string{}
	for _, f := range u.Facts[:o.NFacts] {
		if !strings.HasPrefix(f, "(= g_") {
			continue
		}
		toks := guardTok.FindAllString(f, -1)
		if len(toks) > 0 {
			defs[toks[0]] = append(defs[toks[0]], toks[1:]...)
		}
	}
	anc := map[string]bool{}
	var visit func(g string)
	visit = func(g string) {
		if anc[g] {
			return
		}
		anc[g] = true
		for _, p := range defs[g] {
			visit(p)
		}
	}
	for _, g := range guardTok.FindAllString(o.Guard, -1) {
		visit(g)
	}
	for _, g := range guardTok.FindAllString(o.Goal, -1) {
		visit(g)
	}
	return anc
}
