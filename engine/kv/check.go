package kv

import (
	"bytes"
	"encoding/json"
	"flag"
	"fmt"
	"os"
	"os/exec"
	"path/filepath"
	"runtime"
	"sort"
	"strconv"
	"strings"
	"time"
)

type KnownFinding struct {
	Property    string      `json:"property"`
	Obligation  string      `json:"obligation"`
	Status      string      `json:"status"` // open | fixed
	Commit      string      `json:"commit,omitempty"`
	What        string      `json:"what"`
	Witness     string      `json:"witness,omitempty"`
	Residual    string      `json:"residual,omitempty"`
	WitnessTest *ReplaySpec `json:"witness_test,omitempty"` // a fixed witness run on the real code: it must still fail
}

type KnownFindings struct {
	Findings []KnownFinding `json:"findings"`
}

type StandIn struct {
	Name  string   `json:"name"`
	Cmd   []string `json:"cmd"`
	Tier  string   `json:"tier"` // quick | thorough | both
	Bound string   `json:"bound"`
	Label string   `json:"label"` // bounded | exhaustive
}

type ClaimFile struct {
	Property       string    `json:"property"`
	Functions      []string  `json:"functions"`
	Lemmas         []string  `json:"lemmas,omitempty"`
	MinObligations int       `json:"min_obligations"`
	StandIns       []StandIn `json:"standins,omitempty"`
	Assumptions    []string  `json:"assumptions,omitempty"`
	Undecided      []string  `json:"attempted_undecided,omitempty"`
	TimeoutS       int       `json:"timeout_s,omitempty"` // per-query solver timeout of the quick tier (default 10)
	OverflowFuncs  []string  `json:"overflow_functions,omitempty"` // functions whose machine-integer overflow obligations belong to the claim (arithmetic on user-supplied integers)
	Kinds          []string  `json:"kinds,omitempty"`     // when set: only obligations of these kinds belong to the claim (e.g. the safety kinds for a panic-freedom claim)
}

func (c *ClaimFile) kindAllowed(kind string) bool {
	if len(c.Kinds) == 0 {
		// machine-integer overflow obligations belong to a claim only when it asks for them
		return kind != "overflow"
	}
	for _, k := range c.Kinds {
		if k == kind {
			return true
		}
	}
	return false
}

type Evidence struct {
	PropertyID  string         `json:"property_id"`
	Tier        string         `json:"tier"`
	Seed        int            `json:"seed"`
	Level       string         `json:"level"`
	Coverage    map[string]any `json:"coverage"`
	Assumptions []string       `json:"assumptions"`
	WallS       float64        `json:"wall_s"`
	Violations  int            `json:"violations"`
}

func CmdCheck(args []string) int {
	fs := flag.NewFlagSet("check", flag.ExitOnError)
	repo := fs.String("repo", "/repo", "repository")
	verif := fs.String("verif", "/verif", "verification directory")
	prop := fs.String("property", "", "property id")
	tier := fs.String("tier", "", "quick | thorough")
	noEvidence := fs.Bool("no-evidence", false, "do not write evidence or replay files (self-test on scratch copies)")
	noStandins := fs.Bool("no-standins", false, "skip stand-ins (they are bound to /repo)")
	fs.Parse(args)
	if *tier == "" {
		*tier = os.Getenv("VERIF_TIER")
	}
	if *tier == "" {
		*tier = "quick"
	}
	seed, _ := strconv.Atoi(os.Getenv("VERIF_SEED"))
	t0 := time.Now()
	claimPath := filepath.Join(*verif, "claims", *prop+".json")
	data, err := os.ReadFile(claimPath)
	if err != nil {
		fmt.Fprintln(os.Stderr, err)
		return 2
	}
	var claim ClaimFile
	if err := json.Unmarshal(data, &claim); err != nil {
		fmt.Fprintln(os.Stderr, claimPath, err)
		return 2
	}
	var known KnownFindings
	if data, err := os.ReadFile(filepath.Join(*verif, "known-findings.json")); err == nil {
		if err := json.Unmarshal(data, &known); err != nil {
			fmt.Fprintln(os.Stderr, "known-findings.json:", err)
			return 2
		}
	}
	replayDir := filepath.Join(*verif, "replay-out")
	os.MkdirAll(replayDir, 0o755)
	os.MkdirAll(filepath.Join(*verif, "evidence"), 0o755)

	type failure struct {
		name, status, desc, pos, output, model, query string
		hasModel                                      bool
		obl                                           *Obligation
	}
	var failures []failure
	var allObls []*Obligation
	var smokeObls []*Obligation
	trusted := map[string]bool{}
	opaque := map[string]bool{}
	inlined := map[string]bool{}
	warnings := []string{}
	loopsNoDecr := []string{}
	funcs := []string{}

	e, err := Load(*repo)
	if err != nil {
		// the tree does not compile: nothing can be decided; this is not a property violation
		fmt.Fprintln(os.Stderr, "load failed:", err)
		return 2
	}
	missing := e.BindContracts()
	missingSet := map[string]bool{}
	for _, m := range missing {
		missingSet[strings.TrimPrefix(m, ModulePath+"/")] = true
	}
	mirrorNote := checkMirror(*repo, *verif)
	smoke := *tier == "thorough"
	timeout := 30
	if claim.TimeoutS > 0 {
		timeout = claim.TimeoutS
	}
	if *tier == "thorough" {
		timeout = 60
	}
	var units []*Unit
	// "pkg.F[*]": every instantiation of the generic function F that exists in the current tree (which ones exist
	// depends on the callers, so they are not listed by hand: a caller that starts to use F at a new type gets
	// that instantiation verified, and one that disappears is nothing to alarm about); the generic function
	// itself must still exist.
	var claimFuncs []string
	for _, key := range claim.Functions {
		if !strings.HasSuffix(key, "[*]") {
			claimFuncs = append(claimFuncs, key)
			continue
		}
		base := strings.TrimSuffix(key, "[*]")
		if e.FuncByKey[ModulePath+"/"+base] == nil {
			claimFuncs = append(claimFuncs, base)
			continue
		}
		var inst []string
		for k, f := range e.FuncByKey {
			if strings.HasPrefix(k, ModulePath+"/"+base+"[") && !IsGenericShell(f) {
				inst = append(inst, strings.TrimPrefix(k, ModulePath+"/"))
			}
		}
		sort.Strings(inst)
		claimFuncs = append(claimFuncs, inst...)
	}
	for _, key := range claimFuncs {
		fn := e.FuncByKey[ModulePath+"/"+key]
		if fn == nil || missingSet[key] || e.Contracts[fn] == nil {
			failures = append(failures, failure{name: key + "#structure#1", status: "missing", desc: "function under contract not found in the current tree (renamed, removed, or its contract is unresolvable)"})
			continue
		}
		fc := e.Contracts[fn]
		res := e.VerifyFunc(fn, fc, smoke)
		funcs = append(funcs, key)
		if res.Error != "" {
			failures = append(failures, failure{name: key + "#structure#1", status: "unsupported", desc: "the function left the supported subset: " + res.Error})
			continue
		}
		u := res.Unit
		u.FinishAxioms()
		units = append(units, u)
		for _, er := range u.Errors {
			failures = append(failures, failure{name: key + "#structure#1", status: "contract-error", desc: er})
		}
		for _, o := range u.Obls {
			// a clause tagged explicitly with the property belongs to the claim whatever its kind
			explicit := len(o.Tags) > 0 && hasTag(o.Tags, claim.Property)
			if o.Kind == "overflow" {
				// overflow obligations are claimed per function
				listed := false
				for _, f := range claim.OverflowFuncs {
					if f == key {
						listed = true
					}
				}
				if !listed {
					continue
				}
			} else if !hasTag(o.Tags, claim.Property) || !(claim.kindAllowed(o.Kind) || explicit) {
				continue
			}
			if o.Smoke {
				smokeObls = append(smokeObls, o)
			} else {
				allObls = append(allObls, o)
			}
		}
		for k := range u.Trusted {
			trusted[k] = true
		}
		for k := range u.Opaque {
			opaque[key+": "+k] = true
		}
		for k := range u.Inlined {
			inlined[strings.TrimPrefix(k, ModulePath+"/")] = true
		}
		warnings = append(warnings, u.Warnings...)
		loopsNoDecr = append(loopsNoDecr, u.LoopsNoDecr...)
	}
	// lemmas
	for _, ln := range claim.Lemmas {
		u, err := e.VerifyLemma(ln)
		if err != nil {
			failures = append(failures, failure{name: "lemma:" + ln + "#structure#1", status: "contract-error", desc: err.Error()})
			continue
		}
		u.FinishAxioms()
		units = append(units, u)
		allObls = append(allObls, u.Obls...)
		for k := range u.Trusted {
			trusted[k] = true
		}
	}
	Solve(allObls, timeout, *tier == "thorough", runtime.NumCPU())
	if smoke {
		Solve(smokeObls, 5, false, runtime.NumCPU())
	}
	bySolver := map[string]int{}
	solverSecs := 0.0
	discharged := 0
	var samples []any
	for _, o := range allObls {
		solverSecs += o.Secs
		if o.Status == "unsat" {
			discharged++
			bySolver[o.Solver]++
			if os.Getenv("KV_SLOW") != "" && o.Secs > 5 {
				fmt.Fprintf(os.Stderr, "SLOW %.1fs %s (%s)\n", o.Secs, o.Name, o.Solver)
			}
			if len(samples) < 6 {
				samples = append(samples, map[string]any{"obligation": o.Name, "status": o.Status, "solver": o.Solver, "secs": round3(o.Secs), "what": o.Desc, "at": o.Pos})
			}
			continue
		}
		f := failure{name: o.Name, status: o.Status, desc: o.Desc, pos: o.Pos, output: o.Output, model: o.Model, hasModel: o.Model != "", obl: o}
		f.query = o.unit.Query(o)
		failures = append(failures, f)
	}
	smokeBad := []string{}
	for _, o := range smokeObls {
		if o.Status == "unsat" {
			smokeBad = append(smokeBad, o.Name)
		}
	}
	if len(allObls) < claim.MinObligations {
		failures = append(failures, failure{name: claim.Property + "#structure#count", status: "vacuous", desc: fmt.Sprintf("only %d obligations generated, the claim expects at least %d", len(allObls), claim.MinObligations)})
	}
	// stand-ins
	var standinReports []map[string]any
	for _, si := range claim.StandIns {
		if *noStandins {
			break
		}
		if !(si.Tier == "both" || si.Tier == *tier || si.Tier == "") {
			continue
		}
		rep, ok := runStandIn(si, *repo, *verif, seed)
		standinReports = append(standinReports, rep)
		if !ok {
			failures = append(failures, failure{name: "standin:" + si.Name, status: "failed", desc: fmt.Sprint(rep["output"]), hasModel: true})
		}
	}
	// verdict
	violations := 0
	knownPrinted := []string{}
	var lines []string
	seenFailure := map[string]bool{}
	for _, f := range failures {
		if seenFailure[f.name] {
			continue // one report per obligation (a contract error can be found once per clause)
		}
		seenFailure[f.name] = true
		isKnown := false
		for _, k := range known.Findings {
			if k.Property == claim.Property && k.Status == "open" && k.Obligation == f.name {
				// the listed witness must still fail on the real code (when a replay harness exists)
				if k.WitnessTest != nil {
					if ok, _ := runReplay(*verif, *repo, k.WitnessTest, map[string]string{}, f.name); !ok {
						continue
					}
				} else if f.obl != nil && loadReplaySpec(*verif, f.obl.Func) != nil && f.obl.Model != "" {
					if ok, _ := Replay(*verif, *repo, f.obl); !ok {
						continue
					}
				}
				isKnown = true
				lines = append(lines, fmt.Sprintf("KNOWN-FINDING: property=%s %s (%s)", claim.Property, k.What, f.name))
				knownPrinted = append(knownPrinted, f.name)
			}
		}
		if isKnown {
			continue
		}
		violations++
		path := filepath.Join(replayDir, sanitize(claim.Property+"_"+f.name)+".json")
		rp := map[string]any{"property": claim.Property, "obligation": f.name, "status": f.status, "what": f.desc, "at": f.pos, "solver_output": f.output}
		suffix := " no-failing-input-found"
		if f.obl != nil && (f.model != "" || loadReplaySpec(*verif, f.obl.Func) != nil) {
			m := f.model
			if len(m) > 3000 {
				m = m[:3000] + "..."
			}
			rp["model"] = m
			ok, rep := Replay(*verif, *repo, f.obl)
			rp["replay"] = rep
			if ok {
				suffix = ""
			}
		} else if strings.HasPrefix(f.name, "standin:") {
			suffix = ""
		} else if f.obl == nil {
			// the contract no longer fits the function (its structure changed): no obligations, but a replay
			// harness of the function can still run its fixed scenarios on the real code
			fn := strings.SplitN(f.name, "#", 2)[0]
			if rs := loadReplaySpec(*verif, fn); rs != nil {
				ok, out := runReplay(*verif, *repo, rs, map[string]string{}, f.name)
				rp["replay"] = map[string]any{"note": "contract error: only the fixed scenarios of the harness were run", "test": rs.Test, "confirmed": ok, "output": out}
				if ok {
					suffix = ""
				}
			}
		}
		if f.query != "" && !*noEvidence {
			qp := strings.TrimSuffix(path, ".json") + ".smt2"
			os.WriteFile(qp, []byte(f.query+"(check-sat)\n"), 0o644)
			rp["query_file"] = qp
		}
		b, _ := json.MarshalIndent(rp, "", " ")
		if !*noEvidence {
			os.WriteFile(path, b, 0o644)
		}
		lines = append(lines, fmt.Sprintf("VIOLATION property=%s replay=%s obligation=%s status=%s%s", claim.Property, path, f.name, f.status, suffix))
	}
	// evidence
	var tb []string
	for k := range trusted {
		tb = append(tb, k)
	}
	sort.Strings(tb)
	var op []string
	for k := range opaque {
		op = append(op, k)
	}
	sort.Strings(op)
	var inl []string
	for k := range inlined {
		inl = append(inl, k)
	}
	sort.Strings(inl)
	assumptions := append([]string{}, claim.Assumptions...)
	assumptions = append(assumptions,
		"machine integers are treated as mathematical integers, except for the functions for which this claim lists obligations of kind overflow",
		"decimal.Decimal and float64 are modelled as real numbers (exact arithmetic; float rounding, NaN and infinities are invisible), time.Time as a UTC-midnight day number (see DESIGN.md section 4)",
		"text produced by fmt/strings is not modelled; error values carry only their dynamic type tag",
		"calls listed under opaque_calls havoc the whole heap and return unconstrained results",
		"goroutines and channels are outside the subset (functions using them cannot be under contract); defer is supported, mutex operations are no-ops (locks are not modelled)")
	if len(loopsNoDecr) > 0 {
		assumptions = append(assumptions, "termination not proved for: "+strings.Join(uniq(loopsNoDecr), "; "))
	}
	ev := Evidence{PropertyID: claim.Property, Tier: *tier, Seed: seed, Level: "proof", Assumptions: assumptions, Violations: violations}
	ev.Coverage = map[string]any{
		"obligations":              len(allObls) - len(knownPrinted),
		"discharged":               discharged,
		"checker_cmd":              "bin/kv check --property " + claim.Property + " --tier " + *tier + "  (VC generation over go/ssa of /repo's working tree; z3-new 5.1.0 | z3 4.8.12 | cvc5 1.0.3)",
		"trusted_base":             tb,
		"functions_under_contract": funcs,
		"discharged_by_solver":     bySolver,
		"solver_seconds":           round3(solverSecs),
		"opaque_calls":             op,
		"inlined_callees":          inl,
		"samples":                  samples,
		"known_findings_printed":   knownPrinted,
		"smoke_provable_false":     smokeBad,
		"smoke_checked":            len(smokeObls),
		"standins":                 standinReports,
		"warnings":                 uniq(warnings),
		"attempted_undecided":      claim.Undecided,
		"contracts_read_from":      filepath.Join(*repo, "**/contracts_verif.go") + mirrorNote,
		"per_query_timeout_s":      timeout,
	}
	ev.WallS = round3(time.Since(t0).Seconds())
	b, _ := json.MarshalIndent(ev, "", " ")
	// the evidence file describes the repository the registered commands check (/repo); runs against a
	// scratch copy (self-test, seeded changes) still write replay files but never the evidence file
	if !*noEvidence && filepath.Clean(*repo) == "/repo" {
		os.WriteFile(filepath.Join(*verif, "evidence", claim.Property+".json"), b, 0o644)
	}
	for _, l := range lines {
		fmt.Println(l)
	}
	fmt.Printf("%s: %d obligations, %d discharged, %d violations, %d known findings, %.1fs\n", claim.Property, len(allObls), discharged, violations, len(knownPrinted), time.Since(t0).Seconds())
	if violations > 0 {
		return 1
	}
	return 0
}

func uniq(xs []string) []string {
	m := map[string]bool{}
	var out []string
	for _, x := range xs {
		if !m[x] {
			m[x] = true
			out = append(out, x)
		}
	}
	sort.Strings(out)
	return out
}

func round3(f float64) float64 { return float64(int(f*1000+0.5)) / 1000 }

func checkMirror(repo, verif string) string {
	note := ""
	filepath.Walk(filepath.Join(verif, "contracts"), func(p string, info os.FileInfo, err error) error {
		if err != nil || info.IsDir() || info.Name() != "contracts_verif.go" {
			return nil
		}
		rel, _ := filepath.Rel(filepath.Join(verif, "contracts"), p)
		a, _ := os.ReadFile(p)
		b, err2 := os.ReadFile(filepath.Join(repo, rel))
		if err2 != nil || !bytes.Equal(a, b) {
			note += " [differs from mirror: " + rel + "]"
		}
		return nil
	})
	return note
}

func runStandIn(si StandIn, repo, verif string, seed int) (map[string]any, bool) {
	t0 := time.Now()
	cmd := exec.Command(si.Cmd[0], si.Cmd[1:]...)
	cmd.Dir = verif
	cmd.Env = append(os.Environ(), "GOFLAGS=-mod=mod", "GOPROXY=off", "GOSUMDB=off", "GOTOOLCHAIN=local", fmt.Sprintf("VERIF_SEED=%d", seed), "KV_REPO="+repo)
	var out bytes.Buffer
	cmd.Stdout = &out
	cmd.Stderr = &out
	err := cmd.Run()
	rep := map[string]any{"name": si.Name, "label": si.Label, "bound": si.Bound, "secs": round3(time.Since(t0).Seconds()), "ok": err == nil}
	o := out.String()
	if len(o) > 2000 {
		o = o[len(o)-2000:]
	}
	rep["output"] = strings.TrimSpace(o)
	return rep, err == nil
}
