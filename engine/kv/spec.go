package kv

import (
	"fmt"
	"go/constant"
	"go/token"
	"go/types"
	"strings"

	"golang.org/x/tools/go/ssa"
)

// SVal is the value of a specification expression.
type SVal struct {
	T     Term
	Typ   types.Type // Go type, nil for ghost sorts
	Sort  string     // SMT sort
	AtRef bool       // T is a reference to a struct of type Typ that lives in the heap (lvalue)
	Fn    *ssa.Function
	IsNil bool
	Elem  types.Type // for ghost arrays: key type
}

type Env struct {
	a               *Act
	u               *Unit
	cur             *State
	old             *State
	lookup          func(name string) (SVal, bool)
	oldLookup       func(name string) (SVal, bool)
	result          []Val
	pkg             *types.Package
	bound           map[string]SVal
	qn              *int
	fn              *ssa.Function
	loopEntry       *State
	loopEntryLookup func(name string) (SVal, bool)
}

func (env *Env) with(name string, v SVal) *Env {
	n := *env
	n.bound = map[string]SVal{}
	for k, x := range env.bound {
		n.bound[k] = x
	}
	n.bound[name] = v
	return &n
}

func (env *Env) sv(t Term, typ types.Type) SVal {
	v := SVal{T: t, Typ: typ, Sort: env.u.D.SortOf(typ)}
	// type invariant of slices read from the heap in a specification: ground reads get the
	// well-formedness fact (0 <= len <= cap ...), like the values the code itself loads
	if v.Sort == "Slice" && strings.HasPrefix(t, "(select ") && !strings.Contains(t, "!q") {
		if env.u.wfSeen == nil {
			env.u.wfSeen = map[Term]bool{}
		}
		if !env.u.wfSeen[t] {
			env.u.wfSeen[t] = true
			env.u.Fact(app("wfslice", t))
		}
	}
	return v
}

func ghost(t Term, sort string) SVal { return SVal{T: t, Sort: sort} }

var (
	tInt    = types.Typ[types.Int]
	tBool   = types.Typ[types.Bool]
	tString = types.Typ[types.String]
)

// value materialises an lvalue struct.
func (env *Env) value(v SVal) SVal {
	if v.AtRef {
		t := env.a.load(env.cur, v.T, v.Typ)
		return SVal{T: t, Typ: v.Typ, Sort: env.u.D.SortOf(v.Typ)}
	}
	return v
}

func (env *Env) resolveType(text string) (types.Type, string) {
	text = strings.TrimSpace(text)
	switch text {
	case "", "int":
		return tInt, "Int"
	case "bool":
		return tBool, "Bool"
	case "string":
		return tString, "Str"
	case "real", "Decimal", "decimal.Decimal":
		return nil, "Real"
	case "Ref":
		return nil, "Ref"
	case "time.Time", "Time":
		return nil, "Int"
	}
	if t := env.parseType(text); t != nil {
		return t, env.u.D.SortOf(t)
	}
	fail("cannot resolve type %q in specification", text)
	return nil, ""
}

// parseType resolves a small subset of Go type syntax: *T, []T, map[K]V, T, pkg.T.
func (env *Env) parseType(text string) types.Type {
	text = strings.TrimSpace(text)
	switch {
	case strings.HasPrefix(text, "*"):
		if t := env.parseType(text[1:]); t != nil {
			return types.NewPointer(t)
		}
		return nil
	case strings.HasPrefix(text, "[]"):
		if t := env.parseType(text[2:]); t != nil {
			return types.NewSlice(t)
		}
		return nil
	case strings.HasPrefix(text, "map["):
		d := 0
		for i, c := range text {
			if c == '[' {
				d++
			} else if c == ']' {
				d--
				if d == 0 {
					k, v := env.parseType(text[4:i]), env.parseType(text[i+1:])
					if k != nil && v != nil {
						return types.NewMap(k, v)
					}
					return nil
				}
			}
		}
		return nil
	}
	if text == "mapref" {
		// any map value (maps are references); used where a specification only passes a map along
		return types.NewMap(types.Typ[types.String], types.NewStruct(nil, nil))
	}
	if o := types.Universe.Lookup(text); o != nil {
		if tn, ok := o.(*types.TypeName); ok {
			return tn.Type()
		}
	}
	// a type parameter of the (generic) function the contract belongs to: its type argument in this
	// instantiation, or the parameter itself in the uninstantiated origin
	for f := env.fn; f != nil; f = f.Parent() {
		tps := f.TypeParams()
		if o := f.Origin(); o != nil {
			tps = o.TypeParams()
		}
		for i := 0; tps != nil && i < tps.Len(); i++ {
			if tps.At(i).Obj().Name() == text {
				if tas := f.TypeArgs(); i < len(tas) {
					return tas[i]
				}
				return tps.At(i)
			}
		}
	}
	if pn, tn, ok := strings.Cut(text, "."); ok {
		for _, p := range env.u.E.ByName[pn] {
			if o, ok := p.Scope().Lookup(tn).(*types.TypeName); ok {
				return o.Type()
			}
		}
		return nil
	}
	pkgs := []*types.Package{env.pkg}
	for _, p := range env.u.E.Pkgs {
		pkgs = append(pkgs, p.Types)
	}
	for _, p := range pkgs {
		if p == nil {
			continue
		}
		if o, ok := p.Scope().Lookup(text).(*types.TypeName); ok {
			return o.Type()
		}
	}
	return nil
}

func (env *Env) eval(e Expr) SVal {
	u := env.u
	d := u.D
	switch x := e.(type) {
	case *EInt:
		return SVal{T: x.V, Typ: tInt, Sort: "Int"}
	case *EReal:
		return SVal{T: x.V, Sort: "Real"}
	case *EBool:
		if x.V {
			return SVal{T: "true", Typ: tBool, Sort: "Bool"}
		}
		return SVal{T: "false", Typ: tBool, Sort: "Bool"}
	case *EStr:
		return SVal{T: d.StrLit(x.V), Typ: tString, Sort: "Str"}
	case *EIdent:
		return env.ident(x.Name)
	case *EOld:
		if env.old == nil {
			fail("old() not available here")
		}
		n := *env
		n.cur = env.old
		if env.oldLookup != nil {
			n.lookup = env.oldLookup
		}
		return n.value(n.eval(x.X))
	case *EResult:
		if env.result == nil {
			if x.Idx < 0 {
				// no function result in scope (loop invariants): a program variable called "result"
				return env.ident("result")
			}
			fail("result not available here")
		}
		if x.Idx < 0 {
			if len(env.result) != 1 {
				fail("result of a function with %d results: use result.N", len(env.result))
			}
			r := env.result[0]
			return SVal{T: r.T, Typ: r.Typ, Sort: d.SortOf(r.Typ), Fn: r.Fn}
		}
		if x.Idx >= len(env.result) {
			fail("result.%d out of range", x.Idx)
		}
		r := env.result[x.Idx]
		return SVal{T: r.T, Typ: r.Typ, Sort: d.SortOf(r.Typ), Fn: r.Fn}
	case *ECond:
		c := env.eval(x.C)
		a, b := env.value(env.eval(x.A)), env.value(env.eval(x.B))
		a, b = env.unify(a, b)
		return SVal{T: ite(c.T, a.T, b.T), Typ: a.Typ, Sort: a.Sort}
	case *EUnary:
		v := env.eval(x.X)
		switch x.Op {
		case "!":
			return SVal{T: not(v.T), Typ: tBool, Sort: "Bool"}
		case "-":
			v = env.value(v)
			return SVal{T: app("-", v.T), Typ: v.Typ, Sort: v.Sort}
		case "*":
			return env.deref(v)
		case "&":
			if !v.AtRef {
				fail("& of a non-addressable specification expression")
			}
			return SVal{T: v.T, Typ: types.NewPointer(v.Typ), Sort: "Ref"}
		}
	case *EBinary:
		return env.binary(x)
	case *ESel:
		if id, ok := x.X.(*EIdent); ok {
			if _, isVar := env.tryIdent(id.Name); !isVar {
				if pkgs, ok := u.E.ByName[id.Name]; ok {
					for _, p := range pkgs {
						if o := p.Scope().Lookup(x.Name); o != nil {
							if c, ok := o.(*types.Const); ok {
								return env.constVal(c)
							}
						}
					}
					fail("cannot resolve %s.%s", id.Name, x.Name)
				}
			}
		}
		return env.field(env.eval(x.X), x.Name)
	case *EIndex:
		return env.index(env.eval(x.X), env.value(env.eval(x.I)))
	case *ESlice:
		v := env.value(env.eval(x.X))
		switch v.Sort {
		case "Slice":
			lo, hi := Term("0"), app("slen", v.T)
			if x.Lo != nil {
				lo = env.eval(x.Lo).T
			}
			if x.Hi != nil {
				hi = env.eval(x.Hi).T
			}
			return SVal{T: app("mkslice", app("sarr", v.T), app("+", app("soff", v.T), lo), app("-", hi, lo), app("-", app("scap", v.T), lo)), Typ: v.Typ, Sort: "Slice"}
		case "Str":
			lo, hi := Term("0"), app("str_len", v.T)
			if x.Lo != nil {
				lo = env.eval(x.Lo).T
			}
			if x.Hi != nil {
				hi = env.eval(x.Hi).T
			}
			return SVal{T: app("str_sub", v.T, lo, hi), Typ: tString, Sort: "Str"}
		}
		fail("slice expression on %s", v.Sort)
	case *EQuant:
		n := env
		var binders []string
		for _, p := range x.Vars {
			typ, srt := env.resolveType(p.Type)
			*env.qn++
			name := fmt.Sprintf("%s!q%d", p.Name, *env.qn)
			binders = append(binders, fmt.Sprintf("(%s %s)", name, srt))
			n = n.with(p.Name, SVal{T: name, Typ: typ, Sort: srt})
		}
		body := n.eval(x.Body)
		q := "exists"
		if x.Forall {
			q = "forall"
		}
		bt := body.T
		if len(x.Trig) > 0 {
			var ts []string
			for _, t := range x.Trig {
				ts = append(ts, n.value(n.eval(t)).T)
			}
			bt = fmt.Sprintf("(! %s :pattern (%s))", bt, strings.Join(ts, " "))
		}
		return SVal{T: fmt.Sprintf("(%s (%s) %s)", q, strings.Join(binders, " "), bt), Typ: tBool, Sort: "Bool"}
	case *ECall:
		return env.call(x)
	case *EStruct:
		t, _ := env.resolveType(x.Type)
		if t == nil || !isStructType(t) {
			fail("struct literal of non-struct type %s", x.Type)
		}
		si := d.structInfo(t)
		args := make([]Term, len(si.Fields))
		for i, f := range si.Fields {
			args[i] = d.Zero(f.Type)
		}
		for k, n := range x.Names {
			found := false
			for i, f := range si.Fields {
				if f.Name == n {
					v := env.value(env.eval(x.Values[k]))
					if v.IsNil {
						v = nilOf(SVal{Sort: d.SortOf(f.Type)})
					}
					if v.Sort == "Int" && d.SortOf(f.Type) == "Real" {
						v.T = toReal(v.T)
					}
					args[i] = v.T
					found = true
				}
			}
			if !found {
				fail("no field %s in %s", n, x.Type)
			}
		}
		if len(args) == 0 {
			return SVal{T: "mk_" + si.Sort, Typ: t, Sort: si.Sort}
		}
		return SVal{T: app("mk_"+si.Sort, args...), Typ: t, Sort: si.Sort}
	}
	fail("cannot evaluate specification expression %s", e)
	return SVal{}
}

func (env *Env) constVal(c *types.Const) SVal {
	d := env.u.D
	t := c.Type()
	switch d.SortOf(t) {
	case "Int":
		if i, ok := constant.Int64Val(constant.ToInt(c.Val())); ok {
			return SVal{T: intLit(i), Typ: t, Sort: "Int"}
		}
	case "Str":
		return SVal{T: d.StrLit(constant.StringVal(c.Val())), Typ: t, Sort: "Str"}
	case "Bool":
		if constant.BoolVal(c.Val()) {
			return SVal{T: "true", Typ: t, Sort: "Bool"}
		}
		return SVal{T: "false", Typ: t, Sort: "Bool"}
	case "Real":
		f, _ := constant.Float64Val(c.Val())
		return SVal{T: realLit(f), Typ: t, Sort: "Real"}
	}
	fail("constant %s of unsupported type", c.Name())
	return SVal{}
}

func (env *Env) tryIdent(name string) (SVal, bool) {
	if v, ok := env.bound[name]; ok {
		return v, true
	}
	if env.lookup != nil {
		if v, ok := env.lookup(name); ok {
			return v, true
		}
	}
	return SVal{}, false
}

func (env *Env) ident(name string) SVal {
	if name == "nil" {
		return SVal{T: "nil", Sort: "Ref", IsNil: true}
	}
	if v, ok := env.tryIdent(name); ok {
		return v
	}
	// Go constants / functions of the package
	pkgs := []*types.Package{env.pkg}
	for _, p := range env.u.E.Pkgs {
		pkgs = append(pkgs, p.Types)
	}
	for _, p := range pkgs {
		if p == nil {
			continue
		}
		if o := p.Scope().Lookup(name); o != nil {
			switch c := o.(type) {
			case *types.Const:
				return env.constVal(c)
			case *types.Func:
				if sp := env.u.E.SSAPkgs[p.Path()]; sp != nil {
					if fn := sp.Func(name); fn != nil {
						return SVal{T: intLit(int64(env.u.D.FuncID(env.u.E.KeyOf(fn)))), Typ: fn.Type(), Sort: "Int", Fn: fn}
					}
				}
			}
		}
	}
	if d, ok := env.u.E.Defs[name]; ok && len(d.Params) == 0 {
		return env.expandDef(d, nil)
	}
	fail("unknown identifier %q in specification", name)
	return SVal{}
}

func (env *Env) deref(v SVal) SVal {
	if v.AtRef {
		fail("deref of struct lvalue")
	}
	p, ok := types.Unalias(v.Typ).Underlying().(*types.Pointer)
	if !ok {
		fail("deref of non-pointer %s", v.Typ)
	}
	if isStructType(p.Elem()) {
		return SVal{T: v.T, Typ: p.Elem(), Sort: env.u.D.SortOf(p.Elem()), AtRef: true}
	}
	h, hs := env.u.D.CellHeap(p.Elem())
	return env.sv(hsel(env.u, env.cur.heap(h, hs), v.T), p.Elem())
}

// field selects a field by name, following embedded structs and pointers.
func (env *Env) field(v SVal, name string) SVal {
	d := env.u.D
	if v.Typ == nil {
		fail("field %s of ghost value", name)
	}
	// lookup with any package (unexported fields of other packages are allowed in specifications)
	var path []int
	var obj types.Object
	var lookupPkgs []*types.Package
	lookupPkgs = append(lookupPkgs, env.pkg)
	for _, p := range env.u.E.Pkgs {
		lookupPkgs = append(lookupPkgs, p.Types)
	}
	for _, p := range lookupPkgs {
		o, idx, _ := types.LookupFieldOrMethod(v.Typ, true, p, name)
		if o != nil {
			if _, isVar := o.(*types.Var); isVar {
				obj, path = o, idx
				break
			}
		}
	}
	if obj == nil {
		fail("no field %s in %s", name, v.Typ)
	}
	cur := v
	for _, i := range path {
		t := types.Unalias(cur.Typ)
		if p, ok := t.Underlying().(*types.Pointer); ok && !cur.AtRef {
			cur = SVal{T: cur.T, Typ: p.Elem(), Sort: d.SortOf(p.Elem()), AtRef: true}
			t = types.Unalias(p.Elem())
		}
		if !isStructType(t) {
			fail("field selection on non-struct %s", t)
		}
		si := d.structInfo(t)
		f := si.Fields[i]
		if cur.AtRef {
			if isStructType(f.Type) || isArrayType(f.Type) {
				cur = SVal{T: app("sub", cur.T, intLit(int64(i))), Typ: f.Type, Sort: d.SortOf(f.Type), AtRef: true}
			} else {
				h, hs := d.FieldHeap(t, i)
				cur = env.sv(hsel(env.u, env.cur.heap(h, hs), cur.T), f.Type)
			}
		} else {
			cur = env.sv(selOf(f.Sel, cur.T), f.Type)
		}
	}
	return cur
}

func (env *Env) index(v SVal, i SVal) SVal {
	d := env.u.D
	v = env.value(v)
	if v.Typ == nil {
		// ghost array (e.g. $seen)
		if strings.HasPrefix(v.Sort, "(Array ") {
			if v.Elem != nil && !strings.HasSuffix(v.Sort, " Bool)") {
				return env.sv(sel(v.T, i.T), v.Elem)
			}
			switch {
			case strings.HasSuffix(v.Sort, " Real)"):
				return SVal{T: sel(v.T, i.T), Sort: "Real"}
			case strings.HasSuffix(v.Sort, " Int)"):
				return SVal{T: sel(v.T, i.T), Typ: tInt, Sort: "Int"}
			case strings.HasSuffix(v.Sort, " Ref)"):
				return SVal{T: sel(v.T, i.T), Sort: "Ref"}
			}
			return SVal{T: sel(v.T, i.T), Typ: tBool, Sort: "Bool"}
		}
		fail("index of ghost value of sort %s", v.Sort)
	}
	switch t := types.Unalias(v.Typ).Underlying().(type) {
	case *types.Slice:
		addr := app("saddr", v.T, i.T)
		h, hs := d.CellHeap(t.Elem())
		return env.sv(hsel(env.u, env.cur.heap(h, hs), addr), t.Elem())
	case *types.Map:
		val, _ := env.a.mapGet(env.cur, t, v.T, i.T)
		return env.sv(val, t.Elem())
	case *types.Basic:
		return SVal{T: app("str_at", v.T, i.T), Typ: tInt, Sort: "Int"}
	case *types.Array:
		return env.sv(sel(v.T, i.T), t.Elem())
	}
	fail("index of %s", v.Typ)
	return SVal{}
}

func (env *Env) unify(a, b SVal) (SVal, SVal) {
	if a.IsNil && !b.IsNil {
		a = nilOf(b)
	} else if b.IsNil && !a.IsNil {
		b = nilOf(a)
	}
	if a.Sort == "Int" && b.Sort == "Real" {
		a = SVal{T: toReal(a.T), Sort: "Real"}
	} else if a.Sort == "Real" && b.Sort == "Int" {
		b = SVal{T: toReal(b.T), Sort: "Real"}
	}
	return a, b
}

func toReal(t Term) Term {
	if _, err := fmt.Sscanf(t, "%d", new(int64)); err == nil && !strings.ContainsAny(t, " (") {
		return t + ".0"
	}
	return app("to_real", t)
}

func nilOf(x SVal) SVal {
	switch x.Sort {
	case "Slice":
		return SVal{T: "nilslice", Sort: "Slice", Typ: x.Typ, IsNil: true}
	case "Iface":
		return SVal{T: "niliface", Sort: "Iface", Typ: x.Typ, IsNil: true}
	case "Int":
		return SVal{T: "0", Sort: "Int", Typ: x.Typ, IsNil: true}
	}
	return SVal{T: "nil", Sort: "Ref", Typ: x.Typ, IsNil: true}
}

func (env *Env) binary(x *EBinary) SVal {
	b := func(t Term) SVal { return SVal{T: t, Typ: tBool, Sort: "Bool"} }
	switch x.Op {
	case "&&":
		return b(and(env.eval(x.X).T, env.eval(x.Y).T))
	case "||":
		return b(or(env.eval(x.X).T, env.eval(x.Y).T))
	case "==>":
		return b(implies(env.eval(x.X).T, env.eval(x.Y).T))
	case "<==>":
		return b(app("=", env.eval(x.X).T, env.eval(x.Y).T))
	case "in":
		k := env.value(env.eval(x.X))
		m := env.value(env.eval(x.Y))
		if m.Typ == nil {
			return b(sel(m.T, k.T))
		}
		mt, ok := types.Unalias(m.Typ).Underlying().(*types.Map)
		if !ok {
			fail("'in' on non-map %s", m.Typ)
		}
		_, present := env.a.mapGet(env.cur, mt, m.T, k.T)
		return b(present)
	}
	l, r := env.value(env.eval(x.X)), env.value(env.eval(x.Y))
	l, r = env.unify(l, r)
	switch x.Op {
	case "==", "!=":
		var t Term
		switch {
		case l.Sort == "Slice" && r.IsNil:
			t = eq(app("sarr", l.T), "nil")
		case r.Sort == "Slice" && l.IsNil:
			t = eq(app("sarr", r.T), "nil")
		case l.Sort == "Iface" && r.IsNil:
			t = eq(app("itag", l.T), "0")
		case r.Sort == "Iface" && l.IsNil:
			t = eq(app("itag", r.T), "0")
		default:
			if l.Sort != r.Sort {
				fail("comparison of %s and %s in %s", l.Sort, r.Sort, x)
			}
			t = eq(l.T, r.T)
		}
		if x.Op == "!=" {
			t = not(t)
		}
		return b(t)
	case "<", "<=", ">", ">=":
		if l.Sort == "Str" {
			switch x.Op {
			case "<":
				return b(app(env.u.D.StrLt(), l.T, r.T))
			case "<=":
				return b(or(app(env.u.D.StrLt(), l.T, r.T), eq(l.T, r.T)))
			case ">":
				return b(app(env.u.D.StrLt(), r.T, l.T))
			default:
				return b(or(app(env.u.D.StrLt(), r.T, l.T), eq(l.T, r.T)))
			}
		}
		return b(app(x.Op, l.T, r.T))
	case "+", "-", "*":
		return SVal{T: app(x.Op, l.T, r.T), Typ: l.Typ, Sort: l.Sort}
	case "/":
		if l.Sort == "Real" {
			return SVal{T: app("/", l.T, r.T), Sort: "Real"}
		}
		return SVal{T: app("godiv", l.T, r.T), Typ: l.Typ, Sort: "Int"}
	case "%":
		return SVal{T: app("gomod", l.T, r.T), Typ: l.Typ, Sort: "Int"}
	}
	fail("operator %s", x.Op)
	return SVal{}
}

func (env *Env) expandDef(d *Def, args []SVal) SVal {
	n := *env
	n.bound = map[string]SVal{}
	for k, v := range env.bound {
		// bound quantifier variables stay visible only by their unique SMT names, not by source name
		_ = k
		_ = v
	}
	if len(args) != len(d.Params) {
		fail("def %s expects %d arguments", d.Name, len(d.Params))
	}
	for i, p := range d.Params {
		n.bound[p.Name] = args[i]
	}
	// defs see no function-local names
	n.lookup = nil
	n.oldLookup = nil
	if p := env.u.E.TypesPkgs[d.Pkg]; p != nil {
		n.pkg = p
	}
	return n.eval(d.Body)
}

func (env *Env) call(x *ECall) SVal {
	u := env.u
	d := u.D
	if x.Fn == "" && x.Target != nil {
		// call through a function value (declared pure): an uninterpreted function of its arguments
		f := env.value(env.eval(x.Target))
		sig, ok := types.Unalias(f.Typ).Underlying().(*types.Signature)
		if !ok {
			fail("call of a non-function %s", x.Target)
		}
		var args []Val
		for _, a := range x.Args {
			v := env.value(env.eval(a))
			args = append(args, Val{T: v.T, Typ: v.Typ})
		}
		for i := range args {
			if i < sig.Params().Len() {
				args[i].Typ = sig.Params().At(i).Type()
			}
		}
		r := env.a.applyPure(f.T, args, sig)
		return env.sv(r.T, r.Typ)
	}
	evalArgs := func() []SVal {
		var out []SVal
		for _, a := range x.Args {
			out = append(out, env.eval(a))
		}
		return out
	}
	b := func(t Term) SVal { return SVal{T: t, Typ: tBool, Sort: "Bool"} }
	switch x.Fn {
	case "entry":
		if env.loopEntry == nil {
			fail("entry() is only available in loop invariants")
		}
		n := *env
		n.cur = env.loopEntry
		n.lookup = env.loopEntryLookup
		return n.value(n.eval(x.Args[0]))
	case "len":
		v := env.value(env.eval(x.Args[0]))
		switch v.Sort {
		case "Slice":
			return SVal{T: app("slen", v.T), Typ: tInt, Sort: "Int"}
		case "Str":
			return SVal{T: app("str_len", v.T), Typ: tInt, Sort: "Int"}
		case "Ref":
			if mt, ok := types.Unalias(v.Typ).Underlying().(*types.Map); ok {
				return SVal{T: env.a.mapLen(env.cur, mt, v.T), Typ: tInt, Sort: "Int"}
			}
		}
		fail("len of %s", v.Sort)
	case "cap":
		v := env.value(env.eval(x.Args[0]))
		return SVal{T: app("scap", v.T), Typ: tInt, Sort: "Int"}
	case "fresh":
		v := env.value(env.eval(x.Args[0]))
		a0 := u.alloc0
		if env.old != nil {
			a0 = env.old.alloc // fresh = allocated after the pre-state of the contract being evaluated
		}
		switch v.Sort {
		case "Slice":
			return b(or(eq(app("sarr", v.T), "nil"), app(">=", app("rid", app("sarr", v.T)), a0)))
		case "Ref":
			return b(app(">=", app("rid", v.T), a0))
		case "Iface":
			return b(app(">=", app("rid", app("iptr", v.T)), a0))
		}
		fail("fresh of %s", v.Sort)
	case "rematch":
		// rematch(re, s): (*regexp.Regexp).MatchString as the uninterpreted function the code model uses
		re := env.value(env.eval(x.Args[0]))
		str := env.value(env.eval(x.Args[1]))
		return b(app(d.Fun("regexp_MatchString", []string{"Ref", "Str"}, "Bool"), re.T, str.T))
	case "decOf":
		// decOf(s): the number decimal.NewFromString reads from s (the uninterpreted function of the code model)
		v := env.value(env.eval(x.Args[0]))
		return SVal{T: app(d.Fun("decimal_of_string", []string{"Str"}, "Real"), v.T), Typ: nil, Sort: "Real"}
	case "trimPrefix", "cat":
		// trimPrefix(s, p) = strings.TrimPrefix, cat(s, t) = s + t: the uninterpreted functions of the code model
		l := env.value(env.eval(x.Args[0]))
		r := env.value(env.eval(x.Args[1]))
		if x.Fn == "cat" {
			return SVal{T: app("str_cat", l.T, r.T), Typ: tString, Sort: "Str"}
		}
		return SVal{T: app(d.Fun("strings_TrimPrefix", []string{"Str", "Str"}, "Str"), l.T, r.T), Typ: tString, Sort: "Str"}
	case "dstring":
		// the exact decimal string of a number (decimal.Decimal.String)
		v := env.value(env.eval(x.Args[0]))
		if v.Sort == "Int" {
			v.T = toReal(v.T)
		}
		return SVal{T: app(d.Fun("decimal_String", []string{"Real"}, "Str"), v.T), Typ: tString, Sort: "Str"}
	case "outok":
		return b(env.cur.heap(outOKHeap, "Bool"))
	case "outlen":
		return SVal{T: env.cur.heap(outHeap, "Int"), Typ: tInt, Sort: "Int"}
	case "runes":
		v := env.value(env.eval(x.Args[0]))
		return SVal{T: env.a.runeCount(v.T), Typ: tInt, Sort: "Int"}
	case "perm", "perminv":
		// perm(i): the old index of the element that the most recent sort call of this function moved to index i
		// (perminv: the new index of the element that was at old index j)
		arr := env.a.top.lastPerm
		if x.Fn == "perminv" {
			arr = env.a.top.lastPermInv
		}
		if arr == "" {
			fail("%s() without a preceding sort call", x.Fn)
		}
		i := env.value(env.eval(x.Args[0]))
		return SVal{T: sel(arr, i.T), Typ: tInt, Sort: "Int"}
	case "weekday":
		// weekday(d): time.Weekday of a day number (0001-01-01 is a Monday)
		dv := env.value(env.eval(x.Args[0]))
		return SVal{T: app("mod", app("+", dv.T, "1"), "7"), Typ: tInt, Sort: "Int"}
	case "neginf":
		// neginf(): math.Inf(-1) as the program sees it (an uninterpreted real below every finite value only by axiom)
		return SVal{T: app(d.Fun("math_Inf", []string{"Int"}, "Real"), "(- 1)"), Typ: types.Typ[types.Float64], Sort: "Real"}
	case "strOf":
		// strOf(bs): the string a byte slice was converted from ([]byte(s)); uninterpreted otherwise
		v := env.value(env.eval(x.Args[0]))
		if v.Sort != "Slice" {
			fail("strOf of non-slice")
		}
		return SVal{T: app(d.Fun("str_of_bytes", []string{"Slice"}, "Str"), v.T), Typ: types.Typ[types.String], Sort: "Str"}
	case "textOf":
		// textOf(bs): string(bs) with the byte contents of the current state (a function of slice and byte heap)
		v := env.value(env.eval(x.Args[0]))
		if v.Sort != "Slice" {
			fail("textOf of non-slice")
		}
		lh := env.a.elemHeap(types.Typ[types.Byte])
		return SVal{T: app(d.Fun("str_of_bytes_now", []string{"Slice", lh.sort}, "Str"), v.T, env.cur.heap(lh.name, lh.sort)), Typ: types.Typ[types.String], Sort: "Str"}
	case "obj":
		// obj(xs): the identity of the allocation a slice (or pointer) lives in
		xs := env.value(env.eval(x.Args[0]))
		switch xs.Sort {
		case "Slice":
			return SVal{T: app("rid", app("sarr", xs.T)), Typ: tInt, Sort: "Int"}
		case "Ref":
			return SVal{T: app("rid", xs.T), Typ: tInt, Sort: "Int"}
		}
		fail("obj of %s", xs.Sort)
	case "base":
		// base(xs): the backing array of a slice
		xs := env.value(env.eval(x.Args[0]))
		if xs.Sort != "Slice" {
			fail("base of non-slice")
		}
		return SVal{T: app("sarr", xs.T), Sort: "Ref"}
	case "elemAddr":
		xs := env.value(env.eval(x.Args[0]))
		i := env.value(env.eval(x.Args[1]))
		if xs.Sort != "Slice" {
			fail("elemAddr of non-slice")
		}
		return SVal{T: app("saddr", xs.T, i.T), Sort: "Ref"}
	case "tlen":
		return SVal{T: env.cur.heap(traceLen, "Int"), Typ: tInt, Sort: "Int"}
	case "tkind":
		i := env.value(env.eval(x.Args[0]))
		return SVal{T: hsel(env.u, env.cur.heap(traceKind, traceSorts[traceKind]), i.T), Typ: tInt, Sort: "Int"}
	case "targ0", "targ1":
		i := env.value(env.eval(x.Args[0]))
		h := traceArg0
		if x.Fn == "targ1" {
			h = traceArg1
		}
		return SVal{T: hsel(env.u, env.cur.heap(h, traceSorts[h]), i.T), Sort: "Ref"}
	case "terr":
		i := env.value(env.eval(x.Args[0]))
		return SVal{T: hsel(env.u, env.cur.heap(traceErr, traceSorts[traceErr]), i.T), Typ: tBool, Sort: "Bool"}
	case "targ":
		// targ("Name", j, i): argument j of event i, which must be an event of the traced callback Name
		sname, ok := x.Args[0].(*EStr)
		if !ok {
			fail("targ(\"Name\", argIndex, eventIndex)")
		}
		jn, ok := x.Args[1].(*EInt)
		if !ok {
			fail("targ: argument index must be a literal")
		}
		i := env.value(env.eval(x.Args[2]))
		key := sname.V + "_" + jn.V
		t, ok := u.traceArgType[key]
		if !ok {
			fail("no traced argument %s of callback %s", jn.V, sname.V)
		}
		h := "T_arg_" + key
		return env.sv(sel(env.cur.heap(h, "(Array Int "+d.SortOf(t)+")"), i.T), t)
	case "tres", "tres1", "trecv":
		// tres("Name", i): first result of event i, which must be an event of the traced callback Name
		// (tres1: second result, trecv: receiver)
		sname, ok := x.Args[0].(*EStr)
		if !ok {
			fail("%s(\"Name\", eventIndex)", x.Fn)
		}
		i := env.value(env.eval(x.Args[1]))
		suffix := strings.TrimPrefix(x.Fn, "t")
		t, ok := u.traceArgType[sname.V+"_"+suffix]
		if !ok {
			fail("no traced %s of callback %s", suffix, sname.V)
		}
		h := "T_" + suffix + "_" + sname.V
		return env.sv(sel(env.cur.heap(h, "(Array Int "+d.SortOf(t)+")"), i.T), t)
	case "kind":
		// kind("Name"): the event kind of a traced callback of the function under verification
		sname, ok := x.Args[0].(*EStr)
		if !ok || env.a.top.fc == nil {
			fail("kind(\"Name\")")
		}
		k := callbackKind(env.a.top.fc, sname.V)
		if k == 0 {
			fail("unknown callback %s", sname.V)
		}
		return SVal{T: intLit(int64(k)), Typ: tInt, Sort: "Int"}
	case "rank":
		if env.a.top.fc == nil {
			fail("rank() outside a function with traced callbacks")
		}
		k := env.value(env.eval(x.Args[0]))
		return SVal{T: rankTerm(env.a.top.fc, k.T), Typ: tInt, Sort: "Int"}
	case "key", "rawval":
		// raw map accesses (no nil / presence guards): pure select terms, meant for triggers
		m := env.value(env.eval(x.Args[0]))
		k := env.value(env.eval(x.Args[1]))
		mt, ok := types.Unalias(m.Typ).Underlying().(*types.Map)
		if !ok {
			fail("%s of non-map", x.Fn)
		}
		if x.Fn == "key" {
			return b(sel(env.a.mapDom(env.cur, mt, m.T), k.T))
		}
		return env.sv(sel(env.a.mapVal(env.cur, mt, m.T), k.T), mt.Elem())
	case "dom", "vals":
		m := env.value(env.eval(x.Args[0]))
		mt, ok := types.Unalias(m.Typ).Underlying().(*types.Map)
		if !ok {
			fail("%s of non-map", x.Fn)
		}
		ks := d.SortOf(mt.Key())
		if x.Fn == "dom" {
			t := ite(eq(m.T, "nil"), fmt.Sprintf("((as const (Array %s Bool)) false)", ks), env.a.mapDom(env.cur, mt, m.T))
			return SVal{T: t, Sort: "(Array " + ks + " Bool)", Elem: mt.Key()}
		}
		return SVal{T: env.a.mapVal(env.cur, mt, m.T), Sort: "(Array " + ks + " " + d.SortOf(mt.Elem()) + ")", Elem: mt.Elem()}
	case "upd":
		arr := env.value(env.eval(x.Args[0]))
		k := env.value(env.eval(x.Args[1]))
		v := env.value(env.eval(x.Args[2]))
		if strings.HasSuffix(arr.Sort, " Real)") && v.Sort == "Int" {
			v.T = toReal(v.T)
		}
		return SVal{T: store(arr.T, k.T, v.T), Sort: arr.Sort, Elem: arr.Elem}
	case "live":
		// live(e): every reference in e is allocated in the current state (heap well-formedness, stated explicitly
		// where a quantified invariant ranges over pointers)
		v := env.value(env.eval(x.Args[0]))
		if v.Typ == nil {
			if v.Sort == "Ref" {
				return b(app("<", app("rid", v.T), env.cur.alloc))
			}
			fail("live of ghost value")
		}
		return b(env.cur.allocated(v.T, v.Typ))
	case "ite":
		c := env.eval(x.Args[0])
		p, q := env.value(env.eval(x.Args[1])), env.value(env.eval(x.Args[2]))
		p, q = env.unify(p, q)
		return SVal{T: ite(c.T, p.T, q.T), Typ: p.Typ, Sort: p.Sort}
	case "abs":
		v := env.value(env.eval(x.Args[0]))
		return SVal{T: ite(app(">=", v.T, zeroOf(v.Sort)), v.T, app("-", v.T)), Typ: v.Typ, Sort: v.Sort}
	case "real":
		v := env.value(env.eval(x.Args[0]))
		if v.Sort == "Real" {
			return v
		}
		return SVal{T: toReal(v.T), Sort: "Real"}
	case "trunc8":
		v := env.value(env.eval(x.Args[0]))
		return SVal{T: app(d.Trunc8(), v.T), Sort: "Real"}
	case "dmul":
		as := evalArgs()
		return SVal{T: app(dmulFn(d), env.value(as[0]).T, env.value(as[1]).T), Sort: "Real"}
	case "ddiv":
		as := evalArgs()
		return SVal{T: app(ddivFn(d), env.value(as[0]).T, env.value(as[1]).T), Sort: "Real"}
	case "typeIs":
		v := env.value(env.eval(x.Args[0]))
		s, ok := x.Args[1].(*EStr)
		if !ok {
			fail("typeIs(e, \"pkg.Type\")")
		}
		t, _ := env.resolveType(s.V)
		if t == nil {
			t = env.parseType(s.V)
		}
		if t == nil {
			fail("typeIs: cannot resolve type %q", s.V)
		}
		return b(eq(app("itag", v.T), intLit(int64(d.TypeTag(t)))))
	case "dyn":
		// dyn(e, "T"): the dynamic value of interface e as type T
		v := env.value(env.eval(x.Args[0]))
		s, ok := x.Args[1].(*EStr)
		if !ok {
			fail("dyn(e, \"pkg.Type\")")
		}
		t, _ := env.resolveType(s.V)
		if t == nil {
			t = env.parseType(s.V)
		}
		if t == nil {
			fail("dyn: cannot resolve type %q", s.V)
		}
		if d.SortOf(t) == "Ref" {
			return env.sv(app("iptr", v.T), t)
		}
		if isStructType(t) {
			return SVal{T: app("iptr", v.T), Typ: t, Sort: d.SortOf(t), AtRef: true}
		}
		h, hs := d.CellHeap(t)
		return env.sv(hsel(env.u, env.cur.heap(h, hs), app("iptr", v.T)), t)
	case "oldElemsKept":
		// oldElemsKept(xs): every slice element of the element type of xs that existed in the old state still
		// holds its old value (a frame statement for loops whose writes go to freshly allocated slices only)
		v := env.value(env.eval(x.Args[0]))
		sl, ok := types.Unalias(v.Typ).Underlying().(*types.Slice)
		if !ok || env.old == nil {
			fail("oldElemsKept needs a slice (for its element type) and an old state")
		}
		var cs []Term
		for _, lh := range env.a.elemHeaps(sl.Elem()) {
			cur, old := env.cur.heap(lh.name, lh.sort), env.old.heap(lh.name, lh.sort)
			cs = append(cs, fmt.Sprintf("(forall ((r Ref)) (! (=> (< (rid r) %s) (= (select %s r) (select %s r))) :pattern ((select %s r))))", env.old.alloc, cur, old, cur))
		}
		return b(and(cs...))
	case "sameElems":
		// sameElems(xs): the elements of slice xs hold the same values as in the old state
		v := env.value(env.eval(x.Args[0]))
		sl, ok := types.Unalias(v.Typ).Underlying().(*types.Slice)
		if !ok || env.old == nil {
			fail("sameElems needs a slice and an old state")
		}
		var cs []Term
		*env.qn++
		i := fmt.Sprintf("i!q%d", *env.qn)
		for _, lh := range env.a.elemHeaps(sl.Elem()) {
			addr := lh.addr(app("saddr", v.T, i))
			cs = append(cs, eq(hsel(env.u, env.cur.heap(lh.name, lh.sort), addr), hsel(env.u, env.old.heap(lh.name, lh.sort), addr)))
		}
		return b(fmt.Sprintf("(forall ((%s Int)) (=> (and (<= 0 %s) (< %s (slen %s))) %s))", i, i, i, v.T, and(cs...)))
	}
	if df, ok := u.E.Defs[x.Fn]; ok {
		return env.expandDef(df, evalArgs())
	}
	if sf, ok := u.E.Specs[x.Fn]; ok {
		u.specFnsUsed[sf.Name] = true
		var sorts []string
		var ts []Term
		if len(sf.Params) != len(x.Args) {
			fail("spec function %s expects %d arguments", sf.Name, len(sf.Params))
		}
		n := *env
		if p := u.E.TypesPkgs[sf.Pkg]; p != nil {
			n.pkg = p
		}
		for i, p := range sf.Params {
			_, srt := n.resolveType(p.Type)
			sorts = append(sorts, srt)
			v := env.value(env.eval(x.Args[i]))
			if v.Sort == "Int" && srt == "Real" {
				v.T = toReal(v.T)
			}
			ts = append(ts, v.T)
		}
		rt, rs := n.resolveType(sf.Ret)
		f := d.Fun("spec_"+sf.Name, sorts, rs)
		return SVal{T: app(f, ts...), Typ: rt, Sort: rs}
	}
	// a pure function parameter, or a Go function evaluated symbolically
	if v, ok := env.tryIdent(x.Fn); ok {
		if sig, ok := types.Unalias(v.Typ).Underlying().(*types.Signature); ok {
			var args []Val
			for _, a := range evalArgs() {
				a = env.value(a)
				args = append(args, Val{T: a.T, Typ: a.Typ})
			}
			r := env.a.applyPure(v.T, args, sig)
			return env.sv(r.T, r.Typ)
		}
	}
	v := env.ident(x.Fn)
	if v.Fn != nil {
		var args []Val
		for i, a := range evalArgs() {
			a = env.value(a)
			pt := a.Typ
			if i < len(v.Fn.Params) {
				pt = v.Fn.Params[i].Type()
			}
			args = append(args, Val{T: a.T, Typ: pt})
		}
		r := env.a.callPure(env.cur, v.Fn, args)
		return env.sv(r.T, r.Typ)
	}
	fail("unknown function %s in specification", x.Fn)
	return SVal{}
}

func zeroOf(sort string) Term {
	if sort == "Real" {
		return "0.0"
	}
	return "0"
}

func dmulFn(d *Decls) string {
	d.used["dmul"] = true
	return d.Fun("dmul", []string{"Real", "Real"}, "Real")
}
func ddivFn(d *Decls) string {
	d.used["ddiv"] = true
	return d.Fun("ddiv", []string{"Real", "Real"}, "Real")
}

// callPure evaluates a loop-free Go function symbolically without obligations or effects.
func (a *Act) callPure(st *State, fn *ssa.Function, args []Val) Val {
	if !a.canInline(fn, a.stack) {
		if in, ok := intrinsics[intrinsicKey(fn)]; ok {
			sub := *a
			sub.spec = true
			tmp := st.clone()
			return in(&sub, tmp, fn, args, token.NoPos)
		}
		fail("function %s cannot be used in a specification (not loop-free)", fn)
	}
	sub := *a
	sub.spec = true
	tmp := st.clone()
	r := sub.inline(tmp, fn, args, nil, token.NoPos)
	return r
}
