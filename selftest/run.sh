#!/bin/sh
# Must-fail self-test: every patch under selftest/mutants/<property>/*.patch is applied to a scratch
# copy of /repo (outside /repo and /verif); the property's check must report a VIOLATION on it.
# Also re-checks that the unchanged tree is clean for each property that has mutants.
# usage: selftest/run.sh [property ...]
export GOFLAGS=-mod=mod GOPROXY=off GOSUMDB=off GOTOOLCHAIN=local
cd /verif
props="$@"
[ -z "$props" ] && props=$(ls selftest/mutants)
fail=0
for p in $props; do
  # hand-made mutants and reversed fix commits, plus the confirmed seeded changes this property's check caught
  seeds=$(python3 - "$p" <<'PY'
import json,glob,sys
for f in sorted(glob.glob('/verif/seeded/*/meta.json')):
    d=json.load(open(f))
    if sys.argv[1] in (d.get('caught_by') or []):
        print(f.replace('/verif/','').replace('meta.json','patch.diff'))
PY
)
  count=0
  for m in selftest/mutants/$p/unfix_*.patch $seeds $(ls selftest/mutants/$p/*.patch 2>/dev/null | grep -v unfix_); do
    [ -f "$m" ] || continue
    count=$((count+1))
    if [ -n "$KV_MUSTFAIL_MAX" ] && [ "$count" -gt "$KV_MUSTFAIL_MAX" ]; then break; fi
    d=$(mktemp -d /tmp/kvmut.XXXXXX)
    rsync -a --exclude .git /repo/ "$d/"
    if ! (cd "$d" && git apply "/verif/$m" 2>/dev/null || patch -p1 -s < "/verif/$m"); then
      case "$m" in
        seeded/*) echo "skipped  $m (made against an earlier tree; no longer applies after a later fix: commit)";;
        *) echo "SELFTEST-ERROR $m does not apply"; fail=1;;
      esac
      rm -rf "$d"; continue
    fi
    if ! (cd "$d" && go build ./... 2>/dev/null); then
      echo "SELFTEST-ERROR $m does not compile"; fail=1; rm -rf "$d"; continue
    fi
    out=$(bin/kv check --property "$p" --repo "$d" --verif /verif --no-evidence 2>&1)
    if echo "$out" | grep -q "^VIOLATION property=$p"; then
      echo "caught   $m: $(echo "$out" | grep -c '^VIOLATION') violation(s): $(echo "$out" | grep '^VIOLATION' | head -2 | sed 's/.*obligation=//' | tr '\n' ' ')"
    else
      echo "MISSED   $m"; echo "$out" | tail -3; fail=1
    fi
    rm -rf "$d"
  done
done
exit $fail
