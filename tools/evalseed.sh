#!/bin/sh
# usage: evalr2.sh PROP n claims...
p=$1; n=$2; shift 2
KV_SEED_TAG=${KV_TAG:-r2-} /verif/tools/seedeval.py $p $n "$@" > /tmp/se_$p_$n.out 2>&1
conf=$(grep -o '"confirmed": [a-z]*' /tmp/se_$p_$n.out | head -1)
caught=$(python3 -c "
import json
try:
  d=json.load(open('/verif/seeded/$p-${KV_TAG:-r2-}$n/meta.json')); print(d.get('caught_by'))
except Exception as e: print('no-meta')")
echo "$p ${KV_TAG:-r2-}$n $conf caught_by=$caught"
grep VIOLATION /tmp/se_$p_$n.out | head -2 | cut -c1-190
