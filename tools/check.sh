#!/bin/sh
# usage: tools/check.sh <property> <tier>
# quick:    generate and discharge every obligation of the property's claim (plus its stand-ins).
# thorough: the same with every solver run to completion, smoke (vacuity) obligations after every contract
#           call and at every loop head, and then the must-fail corpus of the property (hand-made mutants,
#           reversed fix commits, confirmed seeded changes) against scratch copies of /repo: the number of
#           mutants the check reports is recorded in the evidence file (coverage.mustfail_corpus). A missed
#           mutant is a weakness of the machinery, not a violation of the property: it never changes the
#           exit status.
export GOFLAGS=-mod=mod GOPROXY=off GOSUMDB=off GOTOOLCHAIN=local
cd /verif
if [ ! -x bin/kv ]; then (cd engine && go build -o /verif/bin/kv ./cmd/kv) || exit 2; fi
if [ "${2:-quick}" != "thorough" ] || [ "${KV_MUSTFAIL:-1}" = "0" ]; then
  exec bin/kv check --property "$1" --tier "${2:-quick}"
fi
bin/kv check --property "$1" --tier thorough
rc=$?
out=$(KV_MUSTFAIL_MAX=${KV_MUSTFAIL_MAX:-12} selftest/run.sh "$1" 2>&1)
python3 - "$1" <<PY
import json,sys,re
prop=sys.argv[1]
out='''$out'''
caught=[l.split()[1].rstrip(':') for l in out.splitlines() if l.startswith('caught')]
missed=[l.split()[1] for l in out.splitlines() if l.startswith('MISSED')]
errs=[l for l in out.splitlines() if l.startswith('SELFTEST-ERROR')]
p='/verif/evidence/%s.json'%prop
try:
    d=json.load(open(p))
    d['coverage']['mustfail_corpus']={'mutants_run':len(caught)+len(missed),'reported':len(caught),'missed':missed,'errors':errs,
      'note':'hand-made mutants, reversed fix commits and confirmed seeded changes applied to scratch copies of /repo; each must be reported as a violation by this check'}
    json.dump(d,open(p,'w'),indent=1)
except Exception as e:
    print('evidence update failed:',e)
print('must-fail corpus %s: %d of %d mutants reported%s'%(prop,len(caught),len(caught)+len(missed),(' MISSED: '+' '.join(missed)) if missed else ''))
PY
exit $rc
