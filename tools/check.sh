#!/bin/sh
# usage: tools/check.sh <property> <tier>
export GOFLAGS=-mod=mod GOPROXY=off GOSUMDB=off GOTOOLCHAIN=local
cd /verif
if [ ! -x bin/kv ]; then (cd engine && go build -o /verif/bin/kv ./cmd/kv) || exit 2; fi
exec bin/kv check --property "$1" --tier "${2:-quick}"
