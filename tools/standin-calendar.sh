#!/bin/sh
# Runs the exhaustive calendar validation against the repository at $KV_REPO (default /repo).
export GOFLAGS=-mod=mod GOPROXY=off GOSUMDB=off GOTOOLCHAIN=local
repo=${KV_REPO:-/repo}
d=$(mktemp -d)
trap 'rm -rf "$d"' EXIT
mkdir -p "$d/calendar"
cp /verif/standins/calendar/main.go "$d/calendar/"
cp /verif/standins/go.sum "$d/" 2>/dev/null || cp "$repo/go.sum" "$d/"
sed "s|=> /repo|=> $repo|" /verif/standins/go.mod > "$d/go.mod"
cd "$d" && go run ./calendar
