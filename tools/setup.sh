#!/bin/sh
# Builds the verifier from the files on disk (offline).
set -e
export GOFLAGS=-mod=mod GOPROXY=off GOSUMDB=off GOTOOLCHAIN=local
cd /verif/engine && go build -o /verif/bin/kv ./cmd/kv
cd /verif/standins && cp /repo/go.sum . 2>/dev/null || true
cd /verif/standins && go build -o /dev/null ./... 
# the contract files in /repo must be the mirrored ones
cd /verif/contracts && find . -name contracts_verif.go | while read f; do
  cmp -s "$f" "/repo/$f" || { echo "contract mirror differs: $f" >&2; exit 1; }
done
echo setup ok
