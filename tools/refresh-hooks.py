#!/usr/bin/env python3
# Refreshes MANIFEST.hooks.source_commits / fix_commits from /repo's history ("verif:" / "fix:" subjects).
import json, subprocess
log = subprocess.check_output(["git", "-C", "/repo", "log", "--format=%H %s"], text=True).splitlines()
src = [l.split()[0] for l in log if l.split(" ", 1)[1].startswith("verif:")]
fix = [l.split()[0] for l in log if l.split(" ", 1)[1].startswith("fix:")]
m = json.load(open("/verif/MANIFEST.json"))
m["hooks"]["source_commits"] = src
m["hooks"]["fix_commits"] = fix
json.dump(m, open("/verif/MANIFEST.json", "w"), indent=1)
print(len(src), "source commits,", len(fix), "fix commits")
