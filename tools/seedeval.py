#!/usr/bin/env python3
"""Confirm a seeded change produced by a sub-agent and run the property's check against it.
usage: seedeval.py <property> <n> [<check-property> ...]
Reads /tmp/seed/<property>/out/<n>/{patch.diff,demo_test.go,notes.md}; confirms in a scratch copy of /repo
(outside /repo and /verif) that the patch applies, builds, passes the existing suite, and that the
demonstration fails with it and passes without it; then runs the check(s); writes /verif/seeded/<property>-<n>/."""
import sys, os, subprocess, shutil, tempfile, json, re
prop, n = sys.argv[1], sys.argv[2]
checks = sys.argv[3:] or [prop]
tag = os.environ.get("KV_SEED_TAG", "")  # e.g. "r2-" for the second round of seeding
src = f"/tmp/seed/{prop}/out/{n}"
if not os.path.exists(src + "/patch.diff") or (tag == "" and os.path.exists(f"/verif/seeded/{prop}-{n}/patch.diff")):
    src = f"/verif/seeded/{prop}-{tag}{n}"  # already kept: re-evaluate from the stored copy
env = dict(os.environ, GOFLAGS="-mod=mod", GOPROXY="off", GOSUMDB="off", GOTOOLCHAIN="local")
def run(cmd, cwd, timeout=600):
    p = subprocess.run(cmd, cwd=cwd, env=env, shell=True, capture_output=True, text=True, errors="replace", timeout=timeout)
    return p.returncode, (p.stdout + p.stderr)
demo = open(f"{src}/demo_test.go").read()
m = re.search(r"//.*?((?:lib|cmd)/[\w/]+)", demo.split("\n")[0])
pkgdir = m.group(1) if m else None
mnames = re.findall(r"^func (Test\w+)\(", demo, re.M)
tname = "(" + "|".join(mnames) + ")" if mnames else "Test"
if not pkgdir:
    pk = re.search(r"^package (\w+)", demo, re.M).group(1)
    sys.exit(f"cannot find package dir in first line of demo (package {pk})")
d = tempfile.mkdtemp(prefix="kvseed.")
res = {"property": prop, "n": n, "demo_pkg": pkgdir, "demo_test": tname}
try:
    run("rsync -a --exclude .git /repo/ " + d + "/", "/")
    shutil.copy(f"{src}/demo_test.go", f"{d}/{pkgdir}/kvseed_demo_test.go")
    rc, out = run(f"go test -vet=off -count=1 -timeout 120s -run '^{tname}$' ./{pkgdir}", d)
    res["demo_passes_on_original"] = rc == 0
    res["demo_original_tail"] = out[-600:]
    os.remove(f"{d}/{pkgdir}/kvseed_demo_test.go")
    rc, out = run(f"git apply --whitespace=nowarn {src}/patch.diff || patch -p1 < {src}/patch.diff", d)
    res["patch_applies"] = rc == 0
    res["patch_apply_out"] = out[-400:]
    rc, out = run("go build ./...", d)
    res["builds"] = rc == 0
    rc, out = run("go test -vet=off -count=1 ./... 2>&1 | grep -v 'no test files'", d)
    res["suite_passes_with_change"] = ("FAIL" not in out) and rc == 0
    res["suite_tail"] = out[-500:]
    shutil.copy(f"{src}/demo_test.go", f"{d}/{pkgdir}/kvseed_demo_test.go")
    rc, out = run(f"go test -vet=off -count=1 -timeout 120s -run '^{tname}$' ./{pkgdir}", d)
    res["demo_fails_with_change"] = rc != 0
    res["demo_changed_tail"] = out[-800:]
    os.remove(f"{d}/{pkgdir}/kvseed_demo_test.go")
    res["checks"] = {}
    for c in checks:
        rc, out = run(f"/verif/bin/kv check --property {c} --repo {d} --verif /verif --no-evidence", "/verif", timeout=1800)
        viol = [l for l in out.split("\n") if l.startswith("VIOLATION")]
        res["checks"][c] = {"exit": rc, "violations": [v[:300] for v in viol[:8]], "summary": out.strip().split("\n")[-1][:200]}
finally:
    shutil.rmtree(d, ignore_errors=True)
ok = res.get("demo_passes_on_original") and res.get("patch_applies") and res.get("builds") and res.get("suite_passes_with_change") and res.get("demo_fails_with_change")
res["confirmed"] = bool(ok)
res["caught_by"] = [c for c, r in res.get("checks", {}).items() if r["violations"]]
out = f"/verif/seeded/{prop}-{tag}{n}"
os.makedirs(out, exist_ok=True)
if ok:
    notes = open(f"{src}/notes.md").read() if os.path.exists(f"{src}/notes.md") else ""
    if os.path.abspath(src) != os.path.abspath(out):
        shutil.copy(f"{src}/patch.diff", f"{out}/patch.diff")
        shutil.copy(f"{src}/demo_test.go", f"{out}/demo_test.go")
        open(f"{out}/notes.md", "w").write(notes)
    meta = {"property": prop, "breaks": prop, "needs_to_manifest": notes[:1500], "confirmed_by": "tools/seedeval.py: patch applies to a scratch copy of /repo, go build ./... ok, full suite passes with the change, demonstration fails with the change and passes without it",
            "demo": {"package": pkgdir, "test": tname}, "checks_run": res["checks"], "caught_by": res["caught_by"]}
    json.dump(meta, open(f"{out}/meta.json", "w"), indent=1)
else:
    shutil.rmtree(out, ignore_errors=True)
print(json.dumps({k: v for k, v in res.items() if k not in ("demo_original_tail","suite_tail","patch_apply_out")}, indent=1)[:3000])
