#!/bin/sh
# usage: standin-overlay.sh <pkg dir rel to /repo> <test file under /verif/replay> <TestName>
# Runs an in-package test injected with -overlay (nothing is written to /repo); exit status = test status.
export GOFLAGS=-mod=mod GOPROXY=off GOSUMDB=off GOTOOLCHAIN=local
repo=${KV_REPO:-/repo}
d=$(mktemp -d)
trap 'rm -rf "$d"' EXIT
printf '{"Replace":{"%s":"%s"}}' "$repo/$1/kv_standin_verif_test.go" "/verif/replay/$2" > "$d/ov.json"
cd "$repo" && go test -overlay "$d/ov.json" -vet=off -count=1 -timeout 300s -run "$3" -v "./$1" > "$d/out" 2>&1
rc=$?
tail -15 "$d/out"
exit $rc
