#!/bin/sh
# Runs every claimed property's quick check (without stand-ins) and prints one line each; exit 1 on any violation.
cd /verif
rc=0
for f in claims/*.json; do
  p=$(basename $f .json)
  out=$(bin/kv check --property $p --no-standins --no-evidence 2>&1)
  echo "$out" | tail -1
  echo "$out" | grep -q "^VIOLATION" && { echo "$out" | grep "^VIOLATION" | cut -c1-200; rc=1; }
done
exit $rc
