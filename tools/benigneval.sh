#!/bin/sh
# usage: tools/benigneval.sh <patch.diff> : applies a behaviour-preserving edit to a scratch copy of /repo and
# runs every claimed check against it; any VIOLATION is a false alarm of the machinery (or shows that the edit
# was not behaviour-preserving after all). Prints one line per violation.
export GOFLAGS=-mod=mod GOPROXY=off GOSUMDB=off GOTOOLCHAIN=local
cd /verif
d=$(mktemp -d /tmp/kvben.XXXXXX)
trap 'rm -rf "$d"' EXIT
rsync -a --exclude .git /repo/ "$d/"
(cd "$d" && (git apply --whitespace=nowarn "$1" 2>/dev/null || patch -p1 -s < "$1")) || { echo "APPLY-FAILED $1"; exit 2; }
(cd "$d" && go build ./...) || { echo "BUILD-FAILED $1"; exit 2; }
ls claims/*.json | sed 's|claims/||; s|.json||' | xargs -P 3 -I{} sh -c "bin/kv check --property {} --repo $d --verif /verif --no-evidence --no-standins 2>&1 | grep '^VIOLATION' | sed 's/replay=[^ ]* //'" | sort | uniq
