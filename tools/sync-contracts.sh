#!/bin/sh
# Copies the contract mirror /verif/contracts/** into /repo (the authoritative place read by the engine).
set -e
cd /verif/contracts
find . -name contracts_verif.go | while read f; do
  mkdir -p "/repo/$(dirname "$f")"
  cp "$f" "/repo/$f"
done
