#!/usr/bin/env python3
"""Create a self-test mutant patch: mkmut.py <property> <name> <file rel to /repo> <old> <new> [count]"""
import sys, difflib, os
prop, name, rel, old, new = sys.argv[1:6]
src = open('/repo/' + rel).read()
if old not in src:
    sys.exit("pattern not found: " + old)
n = int(sys.argv[6]) if len(sys.argv) > 6 else 1
dst = src.replace(old, new, n)
diff = ''.join(difflib.unified_diff(src.splitlines(True), dst.splitlines(True), 'a/' + rel, 'b/' + rel))
os.makedirs('/verif/selftest/mutants/' + prop, exist_ok=True)
open('/verif/selftest/mutants/%s/%s.patch' % (prop, name), 'w').write(diff)
print(diff)
